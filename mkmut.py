#!/usr/bin/env python3
"""mkmut.py <Cnn> <name> <file relative to /repo> <<'EOF' old ===> new   -- create selftest/<Cnn>/<name>.patch
reads from stdin: old text, a line '===>' , new text.  The old text must occur exactly once in the file."""
import sys, os, subprocess, tempfile, shutil
pid, name, rel = sys.argv[1:4]
txt = sys.stdin.read()
old, new = txt.split("\n===>\n")
new = new.rstrip("\n") if not new.endswith("\n\n") else new
old = old.rstrip("\n")
src = open(os.path.join("/repo", rel)).read()
assert src.count(old) == 1, "old text occurs %d times" % src.count(old)
d = tempfile.mkdtemp()
try:
    for side, content in (("a", src), ("b", src.replace(old, new))):
        os.makedirs(os.path.join(d, side, os.path.dirname(rel)))
        open(os.path.join(d, side, rel), "w").write(content)
    out = subprocess.run(["diff", "-u", os.path.join("a", rel), os.path.join("b", rel)], cwd=d, capture_output=True, text=True).stdout
    os.makedirs(os.path.join("/verif/selftest", pid), exist_ok=True)
    open(os.path.join("/verif/selftest", pid, name + ".patch"), "w").write(out)
    print("wrote selftest/%s/%s.patch (%d lines)" % (pid, name, out.count("\n")))
finally:
    shutil.rmtree(d)
