/* C10 -- thread-specific data: the per-thread tree (get/set/init/node allocation) and the key allocator
 * (DESIGN §4 C10).  Functions under contract (real bodies, src/myth_tls_func.h):
 *   myth_tls_tree_init, myth_tls_tree_get, myth_tls_tree_set, myth_tls_tree_node_alloc(_node/_leaf),
 *   myth_tls_key_allocator_init/alloc/dealloc, myth_key_create_body, myth_key_delete_body,
 *   myth_setspecific_body, myth_getspecific_body, myth_self_body.
 *
 * Tree states: canonical static pools P0[1], P1[4], P2[16], P3[64], every child pointer NULL or its canonical
 * child, arbitrary values; the descriptor's embedded bump pool and malloc'ed memory hold ARBITRARY bytes
 * (a recycled descriptor is not zeroed), the bump pointer is anywhere in the pool.
 * Complete by type bound: all loops are bounded by constants of the type (3 levels, 4 children, 16 entries).
 */
#include "verif_common.h"
#include "myth_tls_func.h"

myth_tls_tree_t T;
char VAL[4];
int g_malloc_calls; size_t g_malloc_sz_bad;

/* real_malloc/real_free: libc entry points resolved by myth_real.c -- external, stubbed: fresh object with
   arbitrary contents (CBMC's malloc model) */
void * real_malloc(size_t sz) {
  g_malloc_calls++;
  if (sz != myth_tls_tree_node_sz_node && sz != myth_tls_tree_node_sz_leaf) g_malloc_sz_bad = sz;
  void * p = malloc(sz);
  __CPROVER_assume(p != 0);
  return p;
}
void real_free(void * p) { }

/* Tree states are built BY THE REAL CODE: a descriptor whose embedded pool holds arbitrary bytes (a recycled
   descriptor is not zeroed) is initialised with the real myth_tls_tree_init, then up to HIST earlier stores with
   arbitrary keys and values are made with the real myth_tls_tree_set.  (Canonical hand-built trees were abandoned:
   CBMC 6.11 mis-models the node union and the entries[1] flexible array in typed look-alike objects, DESIGN §7.)
   This is a BOUNDED history (HIST earlier stores); every key/value of the history is symbolic. */
#ifndef HIST
#define HIST 2
#endif
int g_hk[HIST]; void * g_hv[HIST];
static void build_tree(void) {
  int i;
  __CPROVER_havoc_object(&T);          /* a recycled descriptor: stale root, stale bump pointer, arbitrary pool bytes */
  myth_tls_tree_init(&T);
  for (i = 0; i < HIST; i++) {
    g_hk[i] = nondet_int(); g_hv[i] = nondet_bool() ? (void *)&VAL[1] : 0;
    __CPROVER_assume(0 <= g_hk[i] && g_hk[i] < myth_tls_n_keys);
    if (nondet_bool()) myth_tls_tree_set(&T, g_hk[i], g_hv[i]); else g_hk[i] = -1;       /* the history may be shorter */
  }
}
/* what the thread must read under key k after the history: the last value it stored there, NULL if it never stored */
static void * spec_after_history(int k) {
  void * v = 0; int i;
  if (k < 0 || k >= myth_tls_n_keys) return 0;
  for (i = 0; i < HIST; i++) if (g_hk[i] == k) v = g_hv[i];
  return v;
}

void h_get(void) {
  build_tree();
  int idx = nondet_int();
  myth_tls_tree_node_t * root0 = T.root; char * p0 = T.pre_alloc_p;
  void * v = myth_tls_tree_get(&T, idx);
  __CPROVER_assert(v == spec_after_history(idx), "C10 get: returns the last value the thread stored under the key; NULL when it never stored (also for keys sharing a leaf with stored ones) or the index is out of range");
  __CPROVER_assert(T.root == root0 && T.pre_alloc_p == p0, "C10 get: does not modify the tree");
  VERIF_CANARY();
}

void h_set(void) {
  build_tree();
  int idx = nondet_int(), j = nondet_int();
  __CPROVER_assume(0 <= j && j < myth_tls_n_keys && j != idx);
  void * vj0 = myth_tls_tree_get(&T, j);
  void * v = nondet_bool() ? (void *)&VAL[0] : 0;
  myth_tls_tree_node_t * root0 = T.root; char * p0 = T.pre_alloc_p;
  g_malloc_calls = 0; g_malloc_sz_bad = 0;
  int r = myth_tls_tree_set(&T, idx, v);
  if (idx < 0 || idx >= myth_tls_n_keys) {
    __CPROVER_assert(r == EINVAL, "C10 set: key index outside [0,1024) is rejected with EINVAL");
    __CPROVER_assert(T.root == root0 && T.pre_alloc_p == p0 && g_malloc_calls == 0, "C10 set: a rejected index writes nothing");
  } else {
    __CPROVER_assert(r == 0, "C10 set: returns 0 for a valid key");
    __CPROVER_assert(myth_tls_tree_get(&T, idx) == v, "C10 set/get: the thread reads back what it stored");
    __CPROVER_assert(g_malloc_sz_bad == 0, "C10 set: general allocation only with a node size");
    __CPROVER_assert(T.pre_alloc_p >= T.pre_alloc_buf && T.pre_alloc_p <= T.pre_alloc_buf + myth_tls_tree_pre_alloc_sz, "C10 set: bump pointer stays inside the embedded pool");
  }
  __CPROVER_assert(myth_tls_tree_get(&T, j) == vj0, "C10 set: a store under one key does not affect the value read under any other key");
  VERIF_CANARY();
}

/* ---- composition of the store path with the thread-exit walk: the slot in which set(k, v) puts the value is the slot the
   destructor walk attributes to key k.  (set and get agree with each other under ANY bijective numbering of the slots;
   the walk derives a slot's key from its position: child i of a node that covers the keys [base, base + stride) covers
   [base + i * stride/4, ...) and entry e of a leaf is key base + e -- that numbering is the contract proved for the real
   walk in jobs c11.destructors_rec.d*.)  Here: real set, then the slot is looked up by the walk's numbering. */
static myth_tls_tree_node_t * child_of(myth_tls_tree_node_t * n, int c) {      /* constant index per branch: no symbolic index into the union */
  if (c == 0) return n->children[0];
  if (c == 1) return n->children[1];
  if (c == 2) return n->children[2];
  return n->children[3];
}
static void * leaf_value(myth_tls_tree_node_t * n, int e) {
  myth_tls_entry_t * ent = n->entries;           /* raw memory beyond entries[1]: through a pointer variable */
  return ent[e].value;
}
void h_set_then_walk(void) {
  build_tree();
  int idx = nondet_int(), d;
  __CPROVER_assume(0 <= idx && idx < myth_tls_n_keys);
  int r = myth_tls_tree_set(&T, idx, (void *)&VAL[0]);
  __CPROVER_assume(r == 0);
  myth_tls_tree_node_t * n = T.root;
  int base = 0, stride = myth_tls_n_keys;
  __CPROVER_assert(n != 0, "C11 store/walk: the tree has a root after a store");
  for (d = 0; d < myth_tls_tree_depth; d++) {
    int cs = stride >> myth_tls_tree_node_log_n_children;
    int c = (idx - base) / cs;
    __CPROVER_assert(0 <= c && c < myth_tls_tree_node_n_children, "C11 store/walk: child number in range");
    n = child_of(n, c);
    __CPROVER_assert(n != 0, "C11 store/walk: the node the walk will visit for key k exists after set(k, v)");
    __CPROVER_assume(n != 0);
    base += c * cs; stride = cs;
  }
  __CPROVER_assert(stride == myth_tls_tree_node_n_entries_in_leaf && 0 <= idx - base && idx - base < stride, "C11 store/walk: leaf covers 16 keys");
  __CPROVER_assert(leaf_value(n, idx - base) == (void *)&VAL[0],
                   "C11 store/walk: the value stored under key k sits in the slot that the thread-exit walk attributes to key k (so it is handed to the destructor of key k, not of another key)");
  VERIF_CANARY();
}

void h_init(void) {
  __CPROVER_havoc_object(&T);
  myth_tls_tree_init(&T);
  int idx = nondet_int();
  __CPROVER_assert(T.root == 0 && T.pre_alloc_p == T.pre_alloc_buf, "C10 init: tree reset, bump pool rewound");
  __CPROVER_assert(myth_tls_tree_get(&T, idx) == 0, "C10: a thread that never stored reads NULL for every key");
  VERIF_CANARY();
}

/* ------------------------------------------------------------------ key allocator, sequential contract */
myth_tls_key_allocator_t KA;
static void D1(void * v) { }
static void D2(void * v) { }
#define LIVE ((myth_tls_key_entry_t *)-1)
#define IDX(p) ((p) - KA.keys)

void h_ka_init(void) {
  int w = nondet_int();
  __CPROVER_assume(0 <= w && w < myth_tls_n_keys);
  myth_tls_key_allocator_init(&KA);
  __CPROVER_assert(KA.free == &KA.keys[0], "C10 key allocator init: free list starts at cell 0");
  __CPROVER_assert(w == myth_tls_n_keys - 1 ? KA.keys[w].next == 0 : KA.keys[w].next == &KA.keys[w + 1],
                   "C10 key allocator init: cell w links to cell w+1, the last to NULL (exactly 1024 distinct cells)");
  VERIF_CANARY();
}

/* Well-formedness, local form (DESIGN §4 C10): all instances over the cells named in the harness.
   (I1) the head is not live; (I2) a free cell's successor is NULL or a cell of the table that is not live;
   (I3) no free cell links to the head; (I4) two distinct free cells have distinct successors (unless NULL).
   Together: every cell reachable from `free` is not live, so a live key is never handed out again. */
/* all invariants are stated over cell POINTERS taken from the small constant set CP[] (no symbolic index into the
   1024-cell table: that ran out of memory) */
myth_tls_key_entry_t * CP[7];      /* the named cells: indices 0,1,2,3,4,1023 and the opaque cell 512 */
myth_tls_key_entry_t * g_w1p, * g_w2p;
int g_w1, g_w2;
#define FREEP(p)  ((p)->next != LIVE)
static _Bool I12(myth_tls_key_entry_t * p) {
  myth_tls_key_entry_t * n = p->next;
  if (n == LIVE || n == 0) return 1;
  return n->next != LIVE && n != p;
}
static _Bool I3(myth_tls_key_entry_t * p) { return !FREEP(p) || KA.free == 0 || p->next != KA.free; }
static _Bool I4(myth_tls_key_entry_t * p, myth_tls_key_entry_t * q) { return p == q || !FREEP(p) || !FREEP(q) || p->next == 0 || p->next != q->next; }
static _Bool HEAD_OK(void) { return KA.free == 0 || KA.free->next != LIVE; }

static myth_tls_key_entry_t * pick(int k) { return k == 0 ? CP[0] : k == 1 ? CP[1] : k == 2 ? CP[2] : k == 3 ? CP[3] : k == 4 ? CP[4] : k == 5 ? CP[5] : CP[6]; }
static void ka_state(void) {
  int t;
  CP[0] = &KA.keys[0]; CP[1] = &KA.keys[1]; CP[2] = &KA.keys[2]; CP[3] = &KA.keys[3]; CP[4] = &KA.keys[4];
  CP[5] = &KA.keys[myth_tls_n_keys - 1]; CP[6] = &KA.keys[myth_tls_n_keys / 2];
  CP[6]->next = nondet_bool() ? LIVE : 0; CP[6]->destructor = nondet_bool() ? D1 : 0;
  for (t = 0; t < 6; t++) {
    int ch = nondet_int();
    __CPROVER_assume(-2 <= ch && ch <= 6);
    myth_tls_key_entry_t * nx = ch == -2 ? LIVE : ch == -1 ? 0 : pick(ch);
    pick(t)->next = nx;
    pick(t)->destructor = nondet_bool() ? D1 : 0;
  }
  { int h = nondet_int(); __CPROVER_assume(-1 <= h && h <= 5); KA.free = h < 0 ? 0 : pick(h); }
  { int a = nondet_int(), b = nondet_int(); __CPROVER_assume(0 <= a && a <= 5 && 0 <= b && b <= 5);
    g_w1p = pick(a); g_w2p = pick(b); g_w1 = (int)(g_w1p - KA.keys); g_w2 = (int)(g_w2p - KA.keys); }
}
/* the invariant instances assumed in the pre-state: all named cells (a finite set of instances of the universally
   quantified invariant) */
/* pre-state instances of the invariant: the head is not live (I1) and links to NULL or a cell that is not live (I2 at
   the head); the witness cell satisfies I2/I3.  (Assuming all 49 instance pairs made the query run out of memory;
   preservation of I4 and of I2/I3 at arbitrary cells is argued on paper in DESIGN §4 C10.) */
static void assume_wf(myth_tls_key_entry_t * extra) {
  __CPROVER_assume(HEAD_OK());
  if (KA.free) __CPROVER_assume(I12(KA.free));
  __CPROVER_assume(I12(g_w1p) && I3(g_w1p));
  if (KA.free) __CPROVER_assume(I4(KA.free, g_w1p));
}
static void assert_wf(void) {
  __CPROVER_assert(HEAD_OK(), "C10 key allocator WF (I1): the head of the free list is a cell of the table that is not live");
  __CPROVER_assert(I12(g_w1p), "C10 key allocator WF (I2): a free cell links to NULL or to another free cell");
  __CPROVER_assert(I3(g_w1p), "C10 key allocator WF (I3): no free cell links to the head");
}

void h_ka_alloc(void) {
  ka_state();
  assume_wf(0);
  myth_tls_key_entry_t * head0 = KA.free;
  myth_tls_key_entry_t * succ0 = head0 ? head0->next : 0;
  _Bool w_live0 = !FREEP(g_w1p);
  myth_tls_key_entry_t * w_next0 = g_w1p->next; myth_tls_destructor_fun_t w_d0 = g_w1p->destructor;
  myth_tls_destructor_fun_t d = nondet_bool() ? D2 : 0;
  int k = myth_tls_key_allocator_alloc(&KA, d);
  if (head0 == 0) {
    __CPROVER_assert(k == -1 && KA.free == 0, "C10 alloc: fails with -1 iff no key is free, changing nothing");
  } else {
    __CPROVER_assert(k == IDX(head0) && 0 <= k && k < myth_tls_n_keys, "C10 alloc: hands out the head cell's index, inside [0,1024)");
    __CPROVER_assert(KA.keys[k].next == LIVE && KA.keys[k].destructor == d, "C10 alloc: marks the key live and records its destructor");
    __CPROVER_assert(KA.free == succ0, "C10 alloc: the free list continues with the head's successor");
    __CPROVER_assert(!(w_live0 && g_w1 == k), "C10 alloc: a key that is live is never handed out again (pairwise distinct live keys)");
  }
  __CPROVER_assert(g_w1 == k || (g_w1p->next == w_next0 && g_w1p->destructor == w_d0), "C10 alloc: every other cell is untouched");
  assert_wf();
  VERIF_CANARY();
}

void h_ka_dealloc(void) {
  ka_state();
  int key = nondet_int();
  /* the key argument: one of the named cells, or any integer whose cell (if any) is not live */
  __CPROVER_assume(key < 0 || key >= myth_tls_n_keys || key <= 4 || key == myth_tls_n_keys - 1 || key == myth_tls_n_keys / 2);
  assume_wf(0);
  myth_tls_key_entry_t * head0 = KA.free;
  myth_tls_key_entry_t * w_next0 = g_w1p->next; myth_tls_destructor_fun_t w_d0 = g_w1p->destructor;
  _Bool valid = 0 <= key && key < myth_tls_n_keys;
  _Bool live = valid && KA.keys[valid ? key : 0].next == LIVE;
  myth_tls_destructor_fun_t d0 = KA.keys[valid ? key : 0].destructor;
  myth_tls_destructor_fun_t r = myth_tls_key_allocator_dealloc(&KA, key);
  if (!live) {
    __CPROVER_assert(r == (myth_tls_destructor_fun_t)-1, "C10 dealloc: an index outside [0,1024) or a key that is not live is rejected");
    __CPROVER_assert(KA.free == head0 && g_w1p->next == w_next0 && g_w1p->destructor == w_d0, "C10 dealloc: a rejected delete changes nothing");
  } else {
    __CPROVER_assert(r == d0, "C10 dealloc: returns the destructor the key was created with");
    __CPROVER_assert(KA.free == &KA.keys[key] && KA.keys[key].next == head0, "C10 dealloc: the cell becomes the head of the free list, linked to the old head");
    __CPROVER_assert(g_w1 == key || (g_w1p->next == w_next0 && g_w1p->destructor == w_d0), "C10 dealloc: every other cell is untouched");
  }
  assert_wf();
  VERIF_CANARY();
}

/* ------------------------------------------------------------------ API bodies over the allocator / tree */
struct myth_running_env ENV; struct myth_thread TH0;
myth_tls_key_allocator_t g_myth_tls_key_allocator[1];
int g_ensure_calls;
int ensure_init_contract(void) __CPROVER_requires(1) __CPROVER_assigns(g_ensure_calls) __CPROVER_ensures(1);
int alloc_contract(myth_tls_key_allocator_t * s, myth_tls_destructor_fun_t d)
  __CPROVER_requires(s == g_myth_tls_key_allocator) __CPROVER_assigns()
  __CPROVER_ensures(-1 <= __CPROVER_return_value && __CPROVER_return_value < myth_tls_n_keys);
void h_key_create(void) {
  myth_key_t key = -7;
  int r = myth_key_create_body(&key, nondet_bool() ? D1 : 0);
  __CPROVER_assert((r == 0 && 0 <= key && key < myth_tls_n_keys) || (r == EINVAL && key == -7), "C10 key_create: 0 with a key in [0,1024), or EINVAL without touching *key when none is free");
  VERIF_CANARY();
}
void h_specific(void) {
  /* set/getspecific act on the tree embedded in the descriptor of the running thread (it travels with the thread) */
  g_envs = &ENV; g_envs_sz = 1; g_worker_rank = 0; ENV.rank = 0; ENV.this_thread = &TH0;
  TH0.tls->root = 0; TH0.tls->pre_alloc_p = TH0.tls->pre_alloc_buf;
  int key = nondet_int();
  void * v = nondet_bool() ? (void *)&VAL[0] : 0;
  int r = myth_setspecific_body(key, v);
  void * g = myth_getspecific_body(key);
  if (0 <= key && key < myth_tls_n_keys) __CPROVER_assert(r == 0 && g == v, "C10 setspecific/getspecific: value read back from the calling thread's own descriptor");
  else __CPROVER_assert(r == EINVAL && g == 0, "C10 setspecific/getspecific: invalid key rejected");
  VERIF_CANARY();
}
