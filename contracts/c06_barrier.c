/* C06 -- barrier (DESIGN §4 C06).  Functions under contract (real bodies):
 *   src/myth_sync_func.h: myth_barrier_init_body, myth_barrier_wait_body, myth_wake_many_from_stack (bounded),
 *                         myth_block_on_stack, myth_block_on_stack_cb
 *   src/myth_sleep_queue_func.h: myth_sleep_stack_push, myth_sleep_stack_pop, myth_sleep_stack_init
 *
 * Counter word: barrier.state = number of participants that have entered the current round.
 *   My step G: CAS c -> c+1 with c < N (c is my ticket).  Ticket N-1 makes me the last arriver: plain store 0
 *   (reset), wake exactly N-1 sleepers, return SERIAL.  Any other ticket: block on the sleep stack, return 0.
 *   Rely: while I have not arrived (g_tok == 1) the others can perform at most N-1 arrivals, so state <= N-1;
 *   between my last-arriver CAS and my reset nobody touches the word (all others are asleep or on their way to sleep).
 *   Lemma: tickets of one round are pairwise distinct (CAS atomicity) => exactly one serial thread per round.
 */
#include "verif_common.h"

long g_A, g_N; int g_tok, g_ticket_taken; long g_ticket;
int g_wake_calls, g_block_calls, g_exit_calls; long g_wake_n;
#define BAR_INV (1 <= g_N && g_N < (1L << 31) && (g_tok == 0 || g_tok == 1) && 0 <= g_A && g_A <= g_N - g_tok)
volatile long * verif_word(void);

void myth_verif_env_step(volatile long * p)
  __CPROVER_requires(*p == g_A && BAR_INV && "no unannounced write to the barrier counter")
  __CPROVER_assigns(*p, g_A)
  __CPROVER_ensures(*p == g_A && BAR_INV)
  __CPROVER_ensures(g_tok == 1 ==> g_A >= __CPROVER_old(g_A))           /* arrivals of the others, never more than N-1 */
  __CPROVER_ensures(g_tok == 0 ==> g_A == __CPROVER_old(g_A));          /* after my arrival I do not rely on the word */

static inline _Bool myth_verif_cas_long(volatile long * p, long o, long n) {
  if (p != verif_word()) return __sync_bool_compare_and_swap(p, o, n);
  myth_verif_env_step(p);
  _Bool r = __sync_bool_compare_and_swap(p, o, n);
  if (r) {
    __CPROVER_assert(g_tok == 1 && n == o + 1 && 0 <= o && o < g_N, "GUARANTEE barrier: own CAS is exactly one arrival c -> c+1 with c < N");
    g_tok = 0; g_ticket = o; g_ticket_taken = 1; g_A = n;
  }
  return r;
}
#define __sync_bool_compare_and_swap(p,o,n) \
  (sizeof(*(p)) == sizeof(long) ? myth_verif_cas_long((volatile long *)(p), (long)(o), (long)(n)) \
                                : (_Bool)(__sync_val_compare_and_swap((volatile int *)(p), (int)(long)(o), (int)(long)(n)) == (int)(long)(o)))
static inline void myth_verif_rd(volatile void * p) { if (p == (volatile void *)verif_word()) myth_verif_env_step((volatile long *)p); }

#include "verif_ctx.h"
#include "myth_sync_func.h"
#undef __sync_bool_compare_and_swap

myth_barrier_t B;
struct myth_running_env ENVS2[2];
#define ENV (ENVS2[0])       /* the worker the operation starts on; ENVS2[1]: the worker a thread may find itself on after a yield */
#ifndef WM_N
#define WM_N 4
#endif
#define WM_N_MAX (WM_N + 2)
struct myth_thread TH[WM_N_MAX];        /* WM_N_MAX >= WM_N + 2 */
volatile long * verif_word(void) { return &B.state; }
void (*keep_env)(volatile long *) = myth_verif_env_step;

/* ------------------------------------------------------------------ callee contracts for barrier_wait */
int wake_many_stack_contract(myth_sleep_stack_t * s, callback_on_wakeup_t callback, void * arg, long n)
  __CPROVER_requires(s == B.sleep_s && callback == 0 && g_wake_calls == 0 && g_block_calls == 0)
  __CPROVER_requires(g_ticket_taken && g_ticket == g_N - 1 && n == g_N - 1 && "only the last arriver wakes, and exactly the N-1 others")
  __CPROVER_requires(B.state == 0 && "the counter is reset BEFORE anybody is released (a released participant may enter round k+1 at once)")
  __CPROVER_assigns(g_wake_calls, g_wake_n)
  __CPROVER_ensures(g_wake_calls == 1 && g_wake_n == n);
void block_on_stack_contract(myth_sleep_stack_t * s, myth_mutex_t * m)
  __CPROVER_requires(s == B.sleep_s && m == 0 && g_block_calls == 0 && g_wake_calls == 0)
  __CPROVER_requires(g_ticket_taken && g_ticket < g_N - 1 && "every participant but the last sleeps until the round is complete")
  __CPROVER_assigns(g_block_calls)
  __CPROVER_ensures(g_block_calls == 1);
void exit_contract(int c)
  __CPROVER_requires(0 && "the excess-participant abort is unreachable for one of the N participants")
  __CPROVER_assigns(g_exit_calls) __CPROVER_ensures(0);

static void setup(void) {
  g_N = nondet_long(); g_A = nondet_long(); g_tok = 1; g_ticket_taken = 0; g_ticket = -1;
  __CPROVER_assume(BAR_INV);
  B.n_threads = g_N; B.state = g_A;
  g_wake_calls = g_block_calls = g_exit_calls = 0; g_wake_n = -1;
}
void h_barrier_wait(void) {
  setup();
  int r = myth_barrier_wait_body(&B);
  __CPROVER_assert(g_ticket_taken == 1 && g_tok == 0, "barrier_wait: exactly one arrival is recorded for the caller");
  __CPROVER_assert((r == MYTH_BARRIER_SERIAL_THREAD) == (g_ticket == g_N - 1) && (r == 0 || r == MYTH_BARRIER_SERIAL_THREAD),
                   "barrier_wait: the serial indicator goes to the last arriver of the round and to nobody else (all others get 0)");
  __CPROVER_assert(g_ticket == g_N - 1 ? (g_wake_calls == 1 && g_block_calls == 0 && B.state == 0) : (g_wake_calls == 0 && g_block_calls == 1),
                   "barrier_wait: the last arriver resets the barrier and releases the others; everybody else blocks exactly once");
  VERIF_CANARY();
}
void h_barrier_init(void) {
  long n = nondet_long();
  __CPROVER_havoc_object(&B);
  myth_barrierattr_t bat_; _Bool with_battr = nondet_bool();
  myth_barrier_init_body(&B, with_battr ? &bat_ : 0, n);
  __CPROVER_assert(B.state == 0 && B.n_threads == n && B.sleep_s->top == 0, "barrier_init: nobody arrived, nobody sleeping, N recorded");
  VERIF_CANARY();
}
void h_lemmas(void) {
  setup();
  long c1 = nondet_long(), c2 = nondet_long();
  /* two successful arrivals of one round replace different values of the word (c -> c+1, strictly increasing) */
  __CPROVER_assume(0 <= c1 && c1 < g_N && 0 <= c2 && c2 < g_N && c1 + 1 <= c2);
  __CPROVER_assert(c1 != c2 && !(c1 == g_N - 1 && c2 == g_N - 1), "lemma: tickets of one round are pairwise distinct => exactly one serial thread");
  VERIF_CANARY();
}

/* ------------------------------------------------------------------ wake_many_from_stack, bounded */
#ifndef WM_N
#define WM_N 4
#endif
#ifndef WM_K
#define WM_K 2
#endif
int g_pop, g_empty_polls, g_pushed;
myth_sleep_queue_item_t verif_stack_pop(myth_sleep_stack_t * s) {
  __CPROVER_assert(s == B.sleep_s, "wake_many: pops from the stack it was given");
  __CPROVER_assert(g_pushed == 0, "wake_many: nobody is made runnable before all n have been collected (a released thread could re-enter the stack)");
  if (g_empty_polls < WM_K && nondet_bool()) { g_empty_polls++; return 0; }      /* a late sleeper has not pushed itself yet */
  __CPROVER_assume(g_pop < WM_N);
  return (myth_sleep_queue_item_t)&TH[g_pop++];
}
void verif_push(myth_thread_queue_t q, myth_thread_t th) {
  __CPROVER_assert(q == &ENVS2[g_worker_rank].runnable_q, "wake_many: pushes to the run queue of the worker the caller is running on NOW (a run queue is pushed by its owner only)");
  __CPROVER_assert(g_pushed < WM_N && th == &TH[g_pushed], "wake_many: publishes exactly the collected threads, each once");
  __CPROVER_assert(th->env == &ENVS2[g_worker_rank], "wake_many: woken thread bound to the waking worker before publication");
  g_pushed++;
}
/* should the collector yield while it waits for a late sleeper: it may be resumed on another worker */
int verif_yield_wm(void) {
  if (nondet_bool()) { g_envs_sz = 2; ENVS2[1].rank = 1; g_worker_rank = 1; }
  return 0;
}
int (*keep_yield_wm)(void) = myth_yield_body;
int (*keep_yield_wm2)(void) = verif_yield_wm;
void h_wake_many_stack(void) {
  long n = nondet_long();
  __CPROVER_assume(0 <= n && n <= WM_N);
  g_pop = g_empty_polls = g_pushed = 0;
  g_envs = ENVS2; g_envs_sz = 1; g_worker_rank = 0; ENV.rank = 0;
  int r = myth_wake_many_from_stack(B.sleep_s, 0, 0, n);
  __CPROVER_assert(r == n && g_pop == n && g_pushed == n, "wake_many: collects exactly n sleepers (spinning for late ones) and makes exactly those n runnable");
  VERIF_CANARY();
}

/* ------------------------------------------------------------------ block_on_stack */
int g_enq, g_popped_next;
myth_thread_t verif_pop(myth_thread_queue_t q) {
  __CPROVER_assert(q == &ENV.runnable_q && g_ctx_saved == 0, "block: next thread popped from the caller's run queue before the switch");
  if (nondet_bool()) { g_popped_next = 1; return &TH[1]; }
  g_popped_next = 0; return 0;
}
long stack_push_contract(myth_sleep_stack_t * s, myth_sleep_queue_item_t x)
  __CPROVER_requires(s == B.sleep_s && (void *)x == (void *)&TH[0] && g_enq == 0)
  __CPROVER_requires(g_ctx_saved == &TH[0].context && g_in_callback == 1 && "the sleeper becomes visible to the releaser only after its context has been saved")
  __CPROVER_assigns(g_enq) __CPROVER_ensures(g_enq == 1);
void suspend_resume_contract(myth_context_t from, myth_context_t to)
  __CPROVER_requires(from == &TH[0].context && g_enq == 1)
  __CPROVER_requires(to == (g_popped_next ? &TH[1].context : &ENV.sched.context) && "a blocked participant does not occupy a worker")
  __CPROVER_requires(ENV.this_thread == (g_popped_next ? &TH[1] : 0) && (!g_popped_next || TH[1].env == &ENV))
  __CPROVER_assigns(ENV.this_thread) __CPROVER_ensures(1);
void h_block_on_stack(void) {
  g_envs = ENVS2; g_envs_sz = 1; g_worker_rank = 0; ENV.rank = 0; ENV.this_thread = &TH[0]; TH[0].env = &ENV;
  g_enq = g_popped_next = 0; g_ctx_saved = 0; g_switch_count = 0; g_in_callback = 0; g_jumped = 0;
  myth_block_on_stack(B.sleep_s, 0);
  __CPROVER_assert(g_switch_count == 1 && !g_jumped && g_enq == 1, "block_on_stack: one switch with context saved, pushed once");
  VERIF_CANARY();
}

