/* C18, uncontracted side -- the edges the dump materialises and the report aggregates (DESIGN §4 C18).
 *
 * Functions under contract (real, unmodified bodies):
 *   dr_pi_dag_enum_edges, dr_pi_dag_count_edges_uncollapsed, dr_pi_dag_add_edge, dr_pi_dag_node_first / _last
 *                                 (src/profiler/dr_dump.c): the edges of the part of the DAG that is still materialised
 *   dr_calc_edges                 (src/profiler/gen_stat.c): reported edges by kind = materialised edges + the
 *                                 logical_edge_counts of every contracted node
 *
 * Statement (from the property): the number of edges of each kind that the report shows must be the number the
 * complete, uncontracted DAG has -- i.e. the number dr_accumulate_stats leaves in the root summary (oracle below: the
 * same rules as the accumulate oracle of c18_dagrec.c, applied bottom-up) -- whichever sections were contracted.
 * Edge kinds of the uncontracted DAG: create -> first interval of the child: create; create -> next: create_cont;
 * other -> next: other_cont; last interval of a section (its wait) -> next: wait_cont, whether or not the waiting task
 * was resumed by a late child (in_edge_kind == end); last interval of a created task -> the interval after the wait:
 * end, one per created task.
 *
 * Bounded (kind="bounded"): ONE concrete position-independent DAG of 14 nodes, child lists <= 4,
 *
 *   T[0] root task -> T[1] section A -> T[5] create (-> c1), T[6] other, T[7] create (-> c2), T[8] wait
 *                     T[2] other
 *                     T[3] section B -> T[9] create (-> c3), T[10] wait
 *                     T[4] end
 *   c1, c2, c3: created tasks, contracted, arbitrary summaries
 *
 * in four contraction states (ENUM_SCEN bit 0: A contracted, bit 1: B contracted); a contracted section carries the
 * summary the accumulate oracle gives for its children.  The resume kinds after the two waits are nondeterministic.
 */
#include "verif_common.h"
#include "dr_dump.c"                            /* the real code */
#include "gen_stat.c"                           /* the real code */

dr_global_state GS;

/* dr_check_ -> exit(1) (--replace-calls exit:verif_exit): reaching it is an obligation failure.  A stub with a body
   instead of a contract: these jobs need no contract instrumentation, which keeps them small */
void verif_exit(int c) {
  __CPROVER_assert(0, "a dr_check of the recorder fails (exit(1))");
  __CPROVER_assume(0);
}

/* libc malloc (--replace-calls malloc:verif_malloc_pool).  The two requests of this harness -- the edge array of
   dr_pi_dag_enum_edges, then the counter array of dr_calc_edges -- are served from two static, correctly typed pools
   (CBMC needs seconds instead of minutes on typed objects of constant size); a request that does not fit, or a third
   request, is an obligation failure */
dr_pi_dag_edge EDGE_POOL[24];
long COUNT_POOL[dr_dag_edge_kind_max * 4];
int g_mallocs;
void * verif_malloc_pool(size_t sz) {
  g_mallocs++;
  if (g_mallocs == 1) { __CPROVER_assert(sz <= sizeof(EDGE_POOL), "bounded model of malloc: the edge array fits 24 edges"); return EDGE_POOL; }
  __CPROVER_assert(g_mallocs == 2 && sz <= sizeof(COUNT_POOL), "bounded model of malloc: second request is the counter array of one worker");
  return COUNT_POOL;
}

dr_pi_dag_node nondet_pi_node(void);

#ifndef ENUM_SCEN
#define ENUM_SCEN 0
#endif
#define A_CONTRACTED ((ENUM_SCEN) & 1)
#define B_CONTRACTED (((ENUM_SCEN) >> 1) & 1)
#define CNT_MAX (1L << 40)

dr_pi_dag G;
dr_pi_dag_node T[14];
dr_basic_stat BS;

/* ---- oracle: edge counts of a closing section/task from its children's summaries (property statement; the rules of
        the accumulate oracle in c18_dagrec.c).  kind[i]: kind of child i; ec[i]: its edge summary; ncc[i]: number of
        tasks it created directly (sections); ct[i]: edge summary of the task created by child i (create intervals) */
static void oracle_edges(int n, const int kind[4], long ec[4][5], const long ncc[4], long ct[4][5], long out[5]) {
  for (int k = 0; k < 5; k++) out[k] = 0;
  for (int i = 0; i < 4; i++) {
    if (i < n) {
      for (int k = 0; k < 5; k++) out[k] += ec[i][k];
      if (kind[i] == dr_dag_node_kind_create_task) {
        out[dr_dag_edge_kind_create] += 1;                 /* create -> first interval of the child */
        out[dr_dag_edge_kind_create_cont] += 1;            /* create -> next interval of the parent */
        for (int k = 0; k < 5; k++) out[k] += ct[i][k];
      }
      if (kind[i] == dr_dag_node_kind_section && i < n - 1) {
        out[dr_dag_edge_kind_wait_cont] += 1;              /* wait -> next */
        out[dr_dag_edge_kind_end] += ncc[i];               /* end of each waited child -> next */
      }
      if (kind[i] == dr_dag_node_kind_other && i < n - 1)
        out[dr_dag_edge_kind_other_cont] += 1;             /* other -> next */
    }
  }
}

/* ---- building the position-independent DAG ---- */
static int g_next;                      /* next free slot of T */
static int put(int kind, int in_edge) {
  int i = g_next++;
  T[i] = nondet_pi_node();
  T[i].info.kind = (dr_dag_node_kind_t)kind; T[i].info.in_edge_kind = (dr_dag_edge_kind_t)in_edge;
  T[i].info.worker = 0;                                                    /* worker attribution of edges is not decided here */
  for (int k = 0; k < 5; k++) T[i].info.logical_edge_counts[k] = 0;       /* a leaf has no edges (leaf contract) */
  T[i].info.n_child_create_tasks = 0;
  T[i].edges_begin = 0; T[i].edges_end = 0;
  T[i].subgraphs_begin_offset = 0; T[i].subgraphs_end_offset = 0;        /* no materialised children */
  return i;
}
static void summary(int i, const long ec[5], long ncc) {
  for (int k = 0; k < 5; k++) T[i].info.logical_edge_counts[k] = ec[k];
  T[i].info.n_child_create_tasks = ncc;
}
static void children(int i, int first, int n) {
  T[i].subgraphs_begin_offset = first - i; T[i].subgraphs_end_offset = first + n - i;
}
static void work(int i, unsigned long long w) {      /* t_1 of a node; its interval [0, w) */
  T[i].info.t_1 = w; T[i].info.start.t = 0; T[i].info.end.t = w;
}
static unsigned long long some_work(void) { unsigned long long w = nondet_ulong(); __CPROVER_assume(w < (1ULL << 24)); return w; }
static int resume_kind(void) {          /* how a task is resumed after a wait: all children done, or by the last child */
  return nondet_bool() ? dr_dag_edge_kind_wait_cont : dr_dag_edge_kind_end;
}

void h_enum_edges(void) {
  dr_global_state z = {0};
  GS = z;
  GS.opts.chk_level = nondet_char(); GS.opts.verbose_level = 0; GS.opts.dbg_level = 0;
  g_mallocs = 0;

  /* arbitrary summaries of the three created (contracted) tasks */
  long C[3][5];
  for (int j = 0; j < 3; j++) for (int k = 0; k < 5; k++) { C[j][k] = nondet_long(); __CPROVER_assume(0 <= C[j][k] && C[j][k] < CNT_MAX); }

  /* ---- reference: what the fully contracted DAG reports = the root summary by the accumulate rules ---- */
  long zero[4][5] = {{0}}; long nozero[4] = {0, 0, 0, 0};
  long LA[5], LB[5], LU[5];
  { int kd[4] = {dr_dag_node_kind_create_task, dr_dag_node_kind_other, dr_dag_node_kind_create_task, dr_dag_node_kind_wait_tasks};
    long ct[4][5] = {{0}}; for (int k = 0; k < 5; k++) { ct[0][k] = C[0][k]; ct[2][k] = C[1][k]; }
    oracle_edges(4, kd, zero, nozero, ct, LA); }
  { int kd[4] = {dr_dag_node_kind_create_task, dr_dag_node_kind_wait_tasks, 0, 0};
    long ct[4][5] = {{0}}; for (int k = 0; k < 5; k++) ct[0][k] = C[2][k];
    oracle_edges(2, kd, zero, nozero, ct, LB); }
  { int kd[4] = {dr_dag_node_kind_section, dr_dag_node_kind_other, dr_dag_node_kind_section, dr_dag_node_kind_end_task};
    long ec[4][5] = {{0}}; for (int k = 0; k < 5; k++) { ec[0][k] = LA[k]; ec[2][k] = LB[k]; }
    long ncc[4] = {2, 0, 1, 0};
    oracle_edges(4, kd, ec, ncc, zero, LU); }

  /* work: every interval and every (contracted) created task has an arbitrary length; a section / task has the sum of
     its children's and of the tasks its children created (the accumulate rule) -- whatever is contracted */
  unsigned long long wa[4], wb[2], wo = some_work(), we = some_work(), WC[3];
  for (int j = 0; j < 4; j++) wa[j] = some_work();
  for (int j = 0; j < 2; j++) wb[j] = some_work();
  for (int j = 0; j < 3; j++) WC[j] = some_work();
  unsigned long long WA = wa[0] + wa[1] + wa[2] + wa[3] + WC[0] + WC[1], WB = wb[0] + wb[1] + WC[2], WU = WA + wo + WB + we;

  /* ---- the dumped DAG in the contraction state of this job ---- */
  g_next = 0;
  int u = put(dr_dag_node_kind_task, dr_dag_edge_kind_create);
  int a = put(dr_dag_node_kind_section, dr_dag_edge_kind_create);       /* a section inherits its first interval's kind */
  int o = put(dr_dag_node_kind_other, resume_kind());
  int b = put(dr_dag_node_kind_section, dr_dag_edge_kind_other_cont);
  int e = put(dr_dag_node_kind_end_task, resume_kind());
  children(u, a, 4); summary(u, LU, 0);
  summary(a, LA, 2); summary(b, LB, 1);
  work(u, WU); work(a, WA); work(o, wo); work(b, WB); work(e, we);
  if (!A_CONTRACTED) {
    int y1 = put(dr_dag_node_kind_create_task, dr_dag_edge_kind_create);
    put(dr_dag_node_kind_other, dr_dag_edge_kind_create_cont);
    int y2 = put(dr_dag_node_kind_create_task, dr_dag_edge_kind_other_cont);
    put(dr_dag_node_kind_wait_tasks, dr_dag_edge_kind_create_cont);
    children(a, y1, 4);
    work(y1, wa[0]); work(y1 + 1, wa[1]); work(y2, wa[2]); work(y2 + 1, wa[3]);
    int c1 = put(dr_dag_node_kind_task, dr_dag_edge_kind_create); summary(c1, C[0], 0); T[y1].child_offset = c1 - y1; work(c1, WC[0]);
    int c2 = put(dr_dag_node_kind_task, dr_dag_edge_kind_create); summary(c2, C[1], 0); T[y2].child_offset = c2 - y2; work(c2, WC[1]);
  }
  if (!B_CONTRACTED) {
    int y3 = put(dr_dag_node_kind_create_task, dr_dag_edge_kind_other_cont);
    put(dr_dag_node_kind_wait_tasks, dr_dag_edge_kind_create_cont);
    children(b, y3, 2);
    work(y3, wb[0]); work(y3 + 1, wb[1]);
    int c3 = put(dr_dag_node_kind_task, dr_dag_edge_kind_create); summary(c3, C[2], 0); T[y3].child_offset = c3 - y3; work(c3, WC[2]);
  }
  G.n = g_next; G.T = T; G.m = 0; G.E = 0; G.S = 0; G.num_workers = 1; G.start_clock = 0;

  dr_pi_dag_enum_edges(&G);                    /* dr_dump.c: materialise the edges */
  BS.G = &G; BS.n_workers = 1; BS.edge_counts = 0;
  dr_calc_edges(&BS, &G);                      /* gen_stat.c: reported = materialised + contracted summaries */

  dr_calc_inner_delay(&BS, &G);                /* gen_stat.c: reported work and elapsed = sums over what is materialised */
  __CPROVER_assert(BS.total_t_1 == WU && WU == T[0].info.t_1,
                   "dump: reported work (sum over the materialised intervals and the contracted nodes) = work of the complete DAG");
  __CPROVER_assert(BS.total_elapsed == WU, "dump: reported elapsed total = sum of the interval lengths (every interval counted once)");

  long R[5];
  for (int k = 0; k < 5; k++) R[k] = BS.edge_counts[k * 4 + 0] + BS.edge_counts[k * 4 + 1] + BS.edge_counts[k * 4 + 2] + BS.edge_counts[k * 4 + 3];

  __CPROVER_assert(R[dr_dag_edge_kind_create] == LU[dr_dag_edge_kind_create],
                   "dump: reported create edges (materialised + contracted summaries) = create edges of the complete DAG");
  __CPROVER_assert(R[dr_dag_edge_kind_create_cont] == LU[dr_dag_edge_kind_create_cont],
                   "dump: reported create_cont edges (materialised + contracted summaries) = create_cont edges of the complete DAG");
  __CPROVER_assert(R[dr_dag_edge_kind_other_cont] == LU[dr_dag_edge_kind_other_cont],
                   "dump: reported other_cont edges (materialised + contracted summaries) = other_cont edges of the complete DAG");
  __CPROVER_assert(R[dr_dag_edge_kind_wait_cont] == LU[dr_dag_edge_kind_wait_cont],
                   "dump: reported wait_cont edges (materialised + contracted summaries) = wait_cont edges of the complete DAG");
  __CPROVER_assert(R[dr_dag_edge_kind_end] == LU[dr_dag_edge_kind_end],
                   "dump: reported end edges (materialised + contracted summaries) = end edges of the complete DAG");
  VERIF_CANARY();
}
