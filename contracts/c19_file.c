/* C19 (a) -- the file writer and the mmap reader agree on the layout of a DAG file (DESIGN §4 C19).
 *
 * Functions under contract (real, unmodified bodies):
 *   dr_pi_dag_dump            (src/profiler/dr_dump.c)  header, n, m, start_clock, num_workers, T[n], E[m], S[sz]
 *   dr_read_dag               (src/profiler/read_dag.c) reads the 4 counts, maps the file, places T, E, S, S->I, S->C
 *   dr_string_table_flatten   (src/profiler/dr_dump.c, through dr_pi_dag_set_string_table) S header, I[n], chars C
 *
 * The file is a GHOST LAYOUT: fwrite (stub with a body) records for every call the file offset, the source pointer and
 * the byte count; open/read/lseek/mmap/close (stubs with bodies) serve the file from that record.
 * ASSUMPTION (byte preservation by the file system and mmap): the bytes handed to fwrite appear at the recorded offset
 * of the mapping.  The stub implements it for exactly the bytes the reader inspects: the first header_sz = 77 bytes (the
 * version line and the four counts) and the first sizeof(dr_pi_string_table) bytes of the last longer write (the string
 * table header).  All other bytes of the mapping do not exist as memory, which is a sound under-approximation of the
 * assumption: a reader that looked at any other byte would fail a pointer obligation.
 *
 * Obligations of h_file_layout (loop-free apart from libc strcmp on the 45-byte version line, unwound to that
 * constant): for EVERY n, m >= 0, start_clock, num_workers, every string table (count sn, size sz) such that the file
 * is at most FILE_MAX = 2^48 bytes:
 *   - the writer issues 8 writes: T from G->T (n nodes), E from G->E (m edges), S from G->S (S->sz bytes), back to back,
 *     total = 45 + 32 + n*sizeof(node) + m*sizeof(edge) + S->sz; it reports success iff every write succeeded;
 *   - the reader returns a DAG whose n, m, start_clock, num_workers are the written ones, whose T, E, S point at
 *     exactly the offsets of the mapping where the writer put T, E, S, and whose S->I / S->C point where
 *     dr_string_table_flatten laid out the index table and the characters (relative to S: ST_I_OFF, ST_C_OFF(n));
 *     everything lies inside the mapping; the mapping is private and writable (the reader patches S->I, S->C in it);
 *     the descriptor is closed on every path; if any I/O call fails the reader returns 0, never a half-read DAG.
 * Obligations of h_strtab_flatten (bounded: at most ST_N = 8 strings, each shorter than ST_LEN_MAX = 4096): S->n, S->sz = allocated size =
 * 32 + 8 n + sum (len+1), I at ST_I_OFF, C at ST_C_OFF(n), I[i] = sum_{j<i} (len_j+1), string i copied to C + I[i],
 * every copy inside the allocation.
 */
#include "verif_common.h"
#include "dr_dump.c"                            /* the real code */
#include "read_dag.c"                           /* the real code */

dr_global_state GS;

/* the layout both sides must agree on, relative to the start of the string table (property: "S header, I[n], C") */
#define ST_I_OFF        ((long)sizeof(dr_pi_string_table))
#define ST_C_OFF(n)     (ST_I_OFF + (long)sizeof(long) * (n))
#define HEADER_SZ       ((long)(DAG_RECORDER_HEADER_LEN + 4 * sizeof(long)))

void verif_exit(int c) {                        /* --replace-calls exit:verif_exit */
  __CPROVER_assert(0, "a dr_check of the recorder fails (exit(1))");
  __CPROVER_assume(0);
}

/* ------------------------------------------------------------------ the ghost file
   What exists of the file as memory: HDR = its first HEADER_SZ bytes (version line + four counts), and WIN = the first
   sizeof(dr_pi_string_table) bytes of the last write that starts behind the header (the string table header).  The
   mapping handed out by mmap is the address `(char *)&WIN - g_win_off`: in CBMC's memory model a pointer is (object,
   offset) and an offset outside the object is harmless until it is dereferenced, so `mapping + x` is dereferenceable
   exactly for g_win_off <= x < g_win_off + sizeof(WIN), and pointer equalities `p == mapping + x` are exact for all x.
   No byte buffer bounds the file: the only bound is FILE_MAX (no overflow of the 64-bit size arithmetic / of CBMC's
   52-bit pointer offsets). */
#define FILE_MAX  (1L << 48)
unsigned char HDR[DAG_RECORDER_HEADER_LEN + 4 * sizeof(long)];
dr_pi_string_table WIN;
long g_win_off;
#define MAPPING ((unsigned char *)&WIN - g_win_off)

char g_stream;                                  /* the FILE the writer is given */
#define WP ((FILE *)&g_stream)
#define FD 3
const char * g_name;                            /* the file name given to the reader */

long g_off;                                     /* bytes written so far */
int g_nwrites;
long g_w_off[8], g_w_len[8];
const void * g_w_src[8];
_Bool g_io_failed;                              /* some I/O call reported failure */
long g_file_sz, g_rd_off, g_map_len;
int g_fd_open, g_opens, g_closes, g_maps;

size_t verif_fwrite(const void * ptr, size_t size, size_t nmemb, FILE * wp) {
  __CPROVER_assert(wp == WP, "writer: writes to the stream it was given");
  __CPROVER_assert(g_nwrites < 8, "writer: at most 8 writes (version, n, m, start_clock, num_workers, T, E, S)");
  __CPROVER_assert(size <= (size_t)FILE_MAX && nmemb <= (size_t)FILE_MAX && (size == 0 || nmemb <= (size_t)FILE_MAX / size),
                   "writer: size * count of one write stays inside the file bound");
  long len = (long)(size * nmemb);
  __CPROVER_assert(len <= FILE_MAX - g_off, "writer: file stays inside the file bound (harness precondition)");
  if (len > 0 && nondet_bool()) {               /* short write */
    g_io_failed = 1;
    size_t k = nondet_ulong(); __CPROVER_assume(k < nmemb);
    return k;
  }
  g_w_off[g_nwrites] = g_off; g_w_len[g_nwrites] = len; g_w_src[g_nwrites] = ptr;
  g_nwrites++;
  /* C11 7.21.8.2: "If size or nmemb is zero, fwrite returns zero and the state of the stream remains unchanged" -- a
     successful write of an EMPTY array (a DAG of the root only has m == 0) returns 0, not nmemb */
  if (len == 0) return 0;
  /* byte preservation, for the bytes the reader inspects (see the header comment) */
  if (g_off + len <= HEADER_SZ) {
    if (len == 8) memcpy(HDR + g_off, ptr, 8);
    else if (len == DAG_RECORDER_HEADER_LEN) memcpy(HDR + g_off, ptr, DAG_RECORDER_HEADER_LEN);
  } else if (g_off >= HEADER_SZ && len >= (long)sizeof(dr_pi_string_table)) {
    memcpy(&WIN, ptr, sizeof(dr_pi_string_table)); g_win_off = g_off;
  }
  g_off += len;
  return nmemb;
}

int open(const char * name, int flags, ...) {          /* libc open is variadic: defined here instead of --replace-calls */
  __CPROVER_assert(name == g_name, "reader: opens the file it was asked to read");
  __CPROVER_assert((flags & O_ACCMODE) == O_RDONLY && !(flags & (O_TRUNC | O_CREAT)), "reader: opens the file read-only, does not truncate it");
  g_opens++;
  if (nondet_bool()) { g_io_failed = 1; return -1; }
  g_fd_open = 1; g_rd_off = 0;
  return FD;
}
ssize_t verif_read(int fd, void * buf, size_t cnt) {
  __CPROVER_assert(fd == FD && g_fd_open, "reader: read on the open descriptor");
  if (nondet_bool() || (long)cnt > g_file_sz - g_rd_off) {   /* error or short read */
    g_io_failed = 1;
    ssize_t k = nondet_long(); __CPROVER_assume(-1 <= k && k < (ssize_t)cnt);
    return k;
  }
  __CPROVER_assert(g_rd_off + (long)cnt <= HEADER_SZ, "model of read: the reader reads from the first header_sz bytes only");
  if (cnt == 8) memcpy(buf, HDR + g_rd_off, 8);
  else if (cnt == DAG_RECORDER_HEADER_LEN) memcpy(buf, HDR + g_rd_off, DAG_RECORDER_HEADER_LEN);
  else __CPROVER_assert(0, "model of read: the reader reads the version line (45 bytes) and 8-byte counts only");
  g_rd_off += (long)cnt;
  return (ssize_t)cnt;
}
off_t verif_lseek(int fd, off_t off, int whence) {
  __CPROVER_assert(fd == FD && g_fd_open, "reader: lseek on the open descriptor");
  __CPROVER_assert(off == 0 && (whence == SEEK_CUR || whence == SEEK_END), "model of lseek: position queries only");
  if (whence == SEEK_END) g_rd_off = g_file_sz;
  return g_rd_off;
}
void * verif_mmap(void * addr, size_t len, int prot, int flags, int fd, off_t off) {
  __CPROVER_assert(fd == FD && g_fd_open, "reader: maps the open descriptor");
  __CPROVER_assert(addr == 0 && off == 0 && (long)len == g_file_sz, "reader: maps the entire file from offset 0");
  __CPROVER_assert((flags & MAP_PRIVATE) && !(flags & MAP_SHARED) && (prot & PROT_READ) && (prot & PROT_WRITE),
                   "reader: the mapping is private and writable (S->I and S->C are patched inside it, the file must not change)");
  g_maps++;
  if (nondet_bool()) { g_io_failed = 1; return MAP_FAILED; }
  g_map_len = (long)len;
  return MAPPING;
}
int verif_close(int fd) {
  __CPROVER_assert(fd == FD && g_fd_open, "reader: closes the descriptor it opened, once");
  g_fd_open = 0; g_closes++;
  return 0;
}

/* libc malloc in h_file_layout (--replace-calls malloc:verif_malloc_g): the reader's one request, the dr_pi_dag it returns;
   memory exhaustion is outside the property */
dr_pi_dag R_OBJ; int g_mallocs_g;
void * verif_malloc_g(size_t sz) {
  __CPROVER_assert(g_mallocs_g == 0 && sz == sizeof(dr_pi_dag), "model of malloc: the reader allocates one dr_pi_dag");
  g_mallocs_g++;
  return &R_OBJ;
}

/* ------------------------------------------------------------------ h_file_layout */
void h_file_layout(void) {
  dr_global_state z = {0};
  GS = z;
  GS.opts.chk_level = nondet_char(); GS.opts.verbose_level = 0; GS.opts.dbg_level = 0;

  /* the DAG in memory: any counts, any string table, such that the file fits FILE_MAX */
  dr_pi_dag G0;
  long n = nondet_long(), m = nondet_long(), sn = nondet_long(), ssz = nondet_long();
  __CPROVER_assume(0 <= n && n <= FILE_MAX / (long)sizeof(dr_pi_dag_node) && 0 <= m && m <= FILE_MAX / (long)sizeof(dr_pi_dag_edge));
  __CPROVER_assume(0 <= sn && sn <= FILE_MAX / 8 && ST_C_OFF(sn) <= ssz && ssz <= FILE_MAX);
  __CPROVER_assume(HEADER_SZ + n * (long)sizeof(dr_pi_dag_node) + m * (long)sizeof(dr_pi_dag_edge) + ssz <= FILE_MAX);
  G0.n = n; G0.m = m; G0.start_clock = nondet_long(); G0.num_workers = nondet_long();
  /* only the addresses of T and E matter here (that they hold n nodes / m edges is the allocation in dr_pi_dag_enum_nodes /
     _enum_edges; that S holds S->sz bytes is h_strtab_flatten: S->sz = allocated size) */
  static dr_pi_dag_node T0[1]; static dr_pi_dag_edge E0[2]; static dr_pi_string_table S0_;   /* each at least sizeof(WIN) bytes */
  dr_pi_string_table * S0 = &S0_;
  G0.T = T0; G0.E = E0;
  S0->n = sn; S0->sz = ssz;
  S0->I = (long *)((char *)S0 + ST_I_OFF); S0->C = (const char *)S0 + ST_C_OFF(sn);   /* as flatten leaves them (h_strtab_flatten) */
  G0.S = S0;

  g_off = 0; g_nwrites = 0; g_io_failed = 0; g_fd_open = 0; g_opens = g_closes = g_maps = 0; g_map_len = 0;
  g_name = "x.dag"; g_mallocs_g = 0; g_win_off = 0;

  /* ---- write ---- */
  int ok = dr_pi_dag_dump(&G0, WP, g_name);
  __CPROVER_assert((ok == 1) == !g_io_failed && (ok == 0 || ok == 1),
                   "writer: for every n >= 0, m >= 0 (a DAG of the root only has m == 0) it reports success iff no write failed -- an empty array is not a failure");
  __CPROVER_assume(ok == 1);
  long off_T = HEADER_SZ, off_E = off_T + n * (long)sizeof(dr_pi_dag_node), off_S = off_E + m * (long)sizeof(dr_pi_dag_edge);
  __CPROVER_assert(g_nwrites == 8, "writer: all eight items are in the file (exactly 8 writes, none skipped for an empty array)");
  __CPROVER_assert(g_w_off[0] == 0 && g_w_len[0] == DAG_RECORDER_HEADER_LEN, "writer: the file starts with the 45-byte version line");
  __CPROVER_assert(g_w_src[1] == &G0.n && g_w_len[1] == 8 && g_w_src[2] == &G0.m && g_w_len[2] == 8 &&
                   g_w_src[3] == &G0.start_clock && g_w_len[3] == 8 && g_w_src[4] == &G0.num_workers && g_w_len[4] == 8,
                   "writer: then n, m, start_clock, num_workers, 8 bytes each, in this order");
  __CPROVER_assert(g_w_src[5] == G0.T && g_w_off[5] == off_T && g_w_len[5] == n * (long)sizeof(dr_pi_dag_node),
                   "writer: then the n nodes of T at offset header_sz");
  __CPROVER_assert(g_w_src[6] == G0.E && g_w_off[6] == off_E && g_w_len[6] == m * (long)sizeof(dr_pi_dag_edge),
                   "writer: then the m edges of E at offset header_sz + n * sizeof(node)");
  __CPROVER_assert(g_w_src[7] == G0.S && g_w_off[7] == off_S && g_w_len[7] == ssz,
                   "writer: then the S->sz bytes of the string table at offset header_sz + n * sizeof(node) + m * sizeof(edge)");
  __CPROVER_assert(g_off == HEADER_SZ + n * (long)sizeof(dr_pi_dag_node) + m * (long)sizeof(dr_pi_dag_edge) + ssz,
                   "writer: total size written = header_sz + n * sizeof(node) + m * sizeof(edge) + S->sz");

  /* ---- read back ---- */
  g_file_sz = g_off; g_io_failed = 0;
  dr_pi_dag * R = dr_read_dag(g_name);
  __CPROVER_assert(g_opens == 1 && g_fd_open == 0 && g_closes <= 1, "reader: opens the file once and does not leave the descriptor open");
  if (g_io_failed) {
    __CPROVER_assert(R == 0, "reader: an I/O failure is reported (0), no half-read DAG is returned");
  } else {
    __CPROVER_assert(R != 0, "reader: accepts the file the writer wrote (version line matches)");
    __CPROVER_assume(R != 0);
    __CPROVER_assert(g_maps == 1, "reader: maps the file once");
    __CPROVER_assert(R->n == G0.n, "round trip: n read = n written");
    __CPROVER_assert(R->m == G0.m, "round trip: m read = m written");
    __CPROVER_assert(R->start_clock == G0.start_clock, "round trip: start_clock read = start_clock written");
    __CPROVER_assert(R->num_workers == G0.num_workers, "round trip: num_workers read = num_workers written");
    __CPROVER_assert((unsigned char *)R->T == MAPPING + g_w_off[5], "round trip: T points at the file offset where the writer put T");
    __CPROVER_assert((unsigned char *)R->E == MAPPING + g_w_off[6], "round trip: E points at the file offset where the writer put E");
    __CPROVER_assert((unsigned char *)R->S == MAPPING + g_w_off[7], "round trip: S points at the file offset where the writer put S");
    dr_pi_string_table * RS = R->S;
    __CPROVER_assert(RS->n == sn && RS->sz == ssz, "round trip: string count and string table size survive");
    __CPROVER_assert((unsigned char *)RS->I == MAPPING + off_S + ST_I_OFF, "round trip: S->I points where flatten put the index table (S + sizeof header)");
    __CPROVER_assert((unsigned char *)RS->C == MAPPING + off_S + ST_C_OFF(sn), "round trip: S->C points where flatten put the characters (S + sizeof header + n * sizeof(long))");
    __CPROVER_assert(off_S + RS->sz == g_map_len, "round trip: T, E and the whole string table lie inside the mapping, which ends with S");
  }
  VERIF_CANARY();
}

/* ------------------------------------------------------------------ h_strtab_flatten (bounded: <= ST_N strings) */
#ifndef ST_N
#define ST_N 8
#endif
#ifndef ST_LEN_MAX
#define ST_LEN_MAX 4096L          /* PATH_MAX */
#endif
dr_string_table_cell CELL[ST_N];
char STR[ST_N][1];                              /* the strings: only their addresses matter (strlen / strcpy are stubs) */
long g_len[ST_N];                               /* strlen of string i: any value in [0, ST_LEN_MAX) */
char * g_dst[ST_N];                             /* where string i was copied */
int g_copies[ST_N];
/* the allocation of the flattened table: flatten itself writes the header and the index table; the characters are
   written by strcpy (a stub that only records the destination), so CH is never accessed -- it only gives the pointers
   into the character area an object to point into (ST_N * ST_LEN_MAX < 2^36 bytes) */
struct { dr_pi_string_table h; long I[ST_N]; char CH[ST_N * ST_LEN_MAX]; } ST_OBJ;
#define STBUF ((unsigned char *)&ST_OBJ)
long g_msz; int g_mallocs;

static int str_index(const char * s) {
  for (int i = 0; i < ST_N; i++) if (s == &STR[i][0]) return i;
  __CPROVER_assert(0, "string table: strlen / strcpy applied to one of the interned strings");
  __CPROVER_assume(0);
  return 0;
}
size_t verif_strlen(const char * s) { return (size_t)g_len[str_index(s)]; }
char * verif_strcpy(char * d, const char * s) {
  int i = str_index(s);
  g_dst[i] = d; g_copies[i]++;                  /* that the copy lies inside the allocation is checked in the harness (witness k) */
  return d;
}
void * verif_malloc_st(size_t sz) {
  __CPROVER_assert(g_mallocs == 0 && sz <= (size_t)FILE_MAX, "string table: one allocation, inside the file bound");
  g_mallocs++; g_msz = (long)sz;
  return STBUF;
}

void h_strtab_flatten(void) {
  dr_global_state z = {0};
  GS = z;
  GS.opts.chk_level = nondet_char(); GS.opts.verbose_level = 0; GS.opts.dbg_level = 0;
#ifdef ST_CNT
  int n = ST_CNT;                               /* one job per number of strings (solver time) */
#else
  int n = nondet_int(); __CPROVER_assume(0 <= n && n <= ST_N);
#endif
  long pre[ST_N + 1];                           /* pre[i] = sum_{j<i} (len_j + 1) */
  pre[0] = 0;
  for (int i = 0; i < ST_N; i++) {
    g_len[i] = nondet_long(); __CPROVER_assume(0 <= g_len[i] && g_len[i] < ST_LEN_MAX);
    pre[i + 1] = pre[i] + (i < n ? g_len[i] + 1 : 0);
    CELL[i].s = &STR[i][0]; CELL[i].next = (i + 1 < n) ? &CELL[i + 1] : 0;
    g_dst[i] = 0; g_copies[i] = 0;
  }
  dr_string_table st;
  st.n = n; st.head = n > 0 ? &CELL[0] : 0; st.tail = n > 0 ? &CELL[n - 1] : 0;
  g_mallocs = 0; g_msz = 0;
  dr_pi_dag G1; G1.S = 0;

  dr_pi_dag_set_string_table(&G1, &st);         /* the real builder */

  dr_pi_string_table * h = G1.S;
  __CPROVER_assert((unsigned char *)h == STBUF && g_mallocs == 1, "string table: G->S is the allocation");
  __CPROVER_assert(h->n == n, "string table: S->n = number of strings");
  __CPROVER_assert(h->sz == ST_C_OFF(n) + pre[ST_N] && h->sz == g_msz,
                   "string table: S->sz = allocated size = sizeof header + n * sizeof(long) + sum of (strlen + 1)");
  __CPROVER_assert((unsigned char *)h->I == STBUF + ST_I_OFF, "string table: the index table follows the header (S + sizeof header)");
  __CPROVER_assert((unsigned char *)h->C == STBUF + ST_C_OFF(n), "string table: the characters follow the index table (S + sizeof header + n * sizeof(long))");
  int k = nondet_int(); __CPROVER_assume(0 <= k && k < n);          /* witness: every string */
  __CPROVER_assert(ST_OBJ.I[k] == pre[k], "string table: I[k] = offset of string k in C = sum of (strlen + 1) of the strings before it");
  __CPROVER_assert(g_copies[k] == 1 && (unsigned char *)g_dst[k] == STBUF + ST_C_OFF(n) + pre[k],
                   "string table: string k is copied once, to C + I[k]");
  /* the three facts just proved, then: the copy of string k with its terminator ends inside the allocation */
  __CPROVER_assume(h->sz == ST_C_OFF(n) + pre[ST_N] && h->sz == g_msz && (unsigned char *)g_dst[k] == STBUF + ST_C_OFF(n) + pre[k]);
  __CPROVER_assert(__CPROVER_same_object(g_dst[k], STBUF) && (long)__CPROVER_POINTER_OFFSET(g_dst[k]) >= ST_C_OFF(n) &&
                   (long)__CPROVER_POINTER_OFFSET(g_dst[k]) + g_len[k] + 1 <= g_msz,
                   "string table: every string (with its terminator) is copied inside the allocation, behind the index table");
  VERIF_CANARY();
}
