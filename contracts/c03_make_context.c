/* C03 engine 1 -- the initial stack pointer of a new context (DESIGN §4 C03.1).
 *
 * Functions under contract (real, unmodified amd64 bodies from src/myth_context_func.h):
 *      myth_make_context_empty      (child-first entry: the context is entered by `call callback` only)
 *      myth_make_context_voidcall   (parent-first entry and the scheduler context: entered by `pop %rax; jmp *%rax`,
 *                                    possibly after a `call callback` on the same stack pointer)
 *
 * What the property needs from them (statement: "every function entered on its stack sees the stack alignment the ABI
 * requires", "stack contents are exactly as it left them"):
 *   I    ctx->rsp % 16 == 0          -- the invariant every context value satisfies (the asm save sequence re-establishes
 *                                       it, asm/ctxcheck.py obligation `save.<t>.saved-rsp-aligned`); with it
 *                                       `call f` pushes the return address and f is entered with rsp % 16 == 8, and
 *                                       `pop;jmp` enters the thread function with rsp % 16 == 8 (SysV AMD64 ABI 3.2.2)
 *   II   stack - 24 < rsp <= stack   `stack` is the address of the LAST usable word of the stack block (the callers pass
 *                                       block_end - 16 resp. block_end - 8; the word at stack+8 is the allocator's
 *                                       block-size field): the word at rsp (voidcall) and everything pushed later lie
 *                                       at or below `stack`, and at most 23 bytes are given up to alignment
 *   III  frame: nothing but ctx->rsp and (voidcall) the 8 bytes at rsp are written; those 8 bytes hold `func`
 *
 * The functions turn the pointer into an integer, do arithmetic and turn it back.  Two views are checked:
 *   *.all_addresses  `stack` is an ARBITRARY 64-bit value (every address, every alignment of the block): I and II
 *                    (for voidcall the store through the forged pointer has no object behind it: pointer checks are
 *                    off in that one job and the store is checked in the next one)
 *   *.contract       `stack` points into a harness block at an arbitrary offset: full contract incl. III, all safety
 *                    checks on.  (CBMC's address model gives every object a 16-aligned base; that the result does not
 *                    depend on the base is exactly what *.all_addresses shows.)
 */
#include "verif_common.h"
#include "myth_context_func.h"          /* the real code */

#define STK_N 256
myth_context  g_ctx;
unsigned char g_stk[STK_N];             /* top end of a stack block; g_stk + STK_N - 8 is the block-size word */
void verif_thread_fn(void) { }

/* ghosts of the harness */
unsigned long g_off;                    /* offset of `stack` in g_stk */
unsigned long g_k;                      /* witness: an arbitrary byte of the block */

#define U(p) ((unsigned long)(p))
#define ALIGNED16(x) (((x) & 15UL) == 0)

/* ------------------------------------------------------------------ contracts */
void make_empty_contract(myth_context_t ctx, void *stack, size_t stacksize)
  __CPROVER_requires(ctx == &g_ctx)
  __CPROVER_requires(U(stack) >= 24)                        /* not within 24 bytes of address 0: no wrap-around */
  __CPROVER_assigns(ctx->rsp)                               /* III: nothing else is written */
  __CPROVER_ensures(ALIGNED16(ctx->rsp))                    /* I  */
  __CPROVER_ensures(ctx->rsp <= U(stack))                   /* II */
  __CPROVER_ensures(ctx->rsp > U(stack) - 24);

void make_voidcall_contract(myth_context_t ctx, void_func_t func, void *stack, size_t stacksize)
  __CPROVER_requires(ctx == &g_ctx)
  __CPROVER_requires(func == verif_thread_fn)
  __CPROVER_requires(23 <= g_off && g_off <= STK_N - 16 && stack == (void *)(g_stk + g_off))
  __CPROVER_assigns(ctx->rsp, __CPROVER_object_whole(g_stk))   /* narrowed to the 8 bytes at rsp by the witness g_k */
  __CPROVER_ensures(ALIGNED16(ctx->rsp))                    /* I  */
  __CPROVER_ensures(ctx->rsp <= U(stack))                   /* II */
  __CPROVER_ensures(ctx->rsp > U(stack) - 24);

/* ------------------------------------------------------------------ harnesses */

/* empty: every 64-bit value of `stack` */
void h_empty(void) {
  unsigned long s = nondet_ulong();
  size_t sz = nondet_ulong();
  g_ctx.rsp = nondet_ulong();
  __CPROVER_assume(s >= 24);
  myth_make_context_empty(&g_ctx, (void *)s, sz);
  VERIF_CANARY();
}

/* voidcall, integer view: every 64-bit value of `stack`; plain assertions (no pointer checks in this job) */
void h_voidcall_all(void) {
  unsigned long s = nondet_ulong();
  size_t sz = nondet_ulong();
  g_ctx.rsp = nondet_ulong();
  __CPROVER_assume(s >= 24);
  myth_make_context_voidcall(&g_ctx, verif_thread_fn, (void *)s, sz);
  __CPROVER_assert(ALIGNED16(g_ctx.rsp), "I   voidcall: ctx->rsp is 16-byte aligned for every stack address");
  __CPROVER_assert(g_ctx.rsp <= s, "II  voidcall: the word at rsp lies at or below `stack`");
  __CPROVER_assert(g_ctx.rsp > s - 24, "II  voidcall: at most 23 bytes are lost to alignment");
  /* lemma: the thread function is entered by pop;jmp (rsp+8), a callback by call (rsp-8) */
  __CPROVER_assert(((g_ctx.rsp + 8) & 15UL) == 8, "LEMMA voidcall: entry by pop;jmp sees rsp % 16 == 8");
  __CPROVER_assert(((g_ctx.rsp - 8) & 15UL) == 8, "LEMMA voidcall: a callback entered by call sees rsp % 16 == 8");
  VERIF_CANARY();
}

/* voidcall, memory view: `stack` anywhere in a block; contract + frame witness */
void h_voidcall(void) {
  size_t sz = nondet_ulong();
  unsigned char old_k;
  g_off = nondet_ulong();
  g_k = nondet_ulong();
  __CPROVER_assume(23 <= g_off && g_off <= STK_N - 16);      /* = the contract's requires (kept here so that the harness itself has no overflow) */
  __CPROVER_assume(g_k < STK_N);
  g_ctx.rsp = nondet_ulong();
  for (int i = 0; i < STK_N; i++) g_stk[i] = nondet_uchar();
  old_k = g_stk[g_k];
  myth_make_context_voidcall(&g_ctx, verif_thread_fn, (void *)(g_stk + g_off), sz);
  {
    unsigned long base = U(g_stk), rsp = g_ctx.rsp;
    __CPROVER_assert(rsp >= base && rsp + 8 <= base + g_off + 8, "II  voidcall: the word at rsp lies inside the block, at or below `stack`");
    unsigned long ro = rsp - base;
    __CPROVER_assert(*(unsigned long *)(g_stk + ro) == U(verif_thread_fn), "III voidcall: the word at rsp holds func (target of pop;jmp)");
    __CPROVER_assert((g_k >= ro && g_k < ro + 8) || g_stk[g_k] == old_k, "III voidcall: no byte of the stack block outside [rsp,rsp+8) is written");
  }
  VERIF_CANARY();
}

/* lemma from the CONTRACTS (not from the bodies): invariant I gives the ABI alignment at both kinds of entry */
void h_entry_lemma(void) {
  unsigned long s = nondet_ulong();
  _Bool which = nondet_bool();
  g_ctx.rsp = nondet_ulong();
  if (which) {
    __CPROVER_assume(s >= 24);
    myth_make_context_empty(&g_ctx, (void *)s, 0);
  } else {
    g_off = nondet_ulong();
    __CPROVER_assume(23 <= g_off && g_off <= STK_N - 16);
    myth_make_context_voidcall(&g_ctx, verif_thread_fn, (void *)(g_stk + g_off), 0);
    __CPROVER_assert(((g_ctx.rsp + 8) & 15UL) == 8, "LEMMA thread function entered by pop;jmp sees rsp % 16 == 8");
  }
  __CPROVER_assert(((g_ctx.rsp - 8) & 15UL) == 8, "LEMMA callback entered by call from ctx->rsp sees rsp % 16 == 8");
  VERIF_CANARY();
}

void (*keep_e)(myth_context_t, void *, size_t) = myth_make_context_empty;
void (*keep_v)(myth_context_t, void_func_t, void *, size_t) = myth_make_context_voidcall;
