/* C04/C05 -- blocking and wake-up procedures, condition variables, sleep queue, spin lock
 * (DESIGN §3.4, §3.5, §4 C04/C05).  Functions under contract (real bodies):
 *   src/myth_sync_func.h: myth_wake_one_from_queue, myth_wake_if_any_from_queue, myth_wake_all_from_queue,
 *        myth_block_on_queue, myth_block_on_queue_cb, myth_cond_wait_body, myth_cond_signal_body,
 *        myth_cond_broadcast_body, myth_cond_init_body
 *   src/myth_sleep_queue_func.h: myth_sleep_queue_enq, myth_sleep_queue_deq, myth_sleep_queue_init
 *   src/myth_spinlock_func.h: myth_spin_trylock_body, myth_spin_lock_body, myth_spin_unlock_body, myth_spin_init_body
 *
 * Ordering mechanisms become call-protocol obligations (preconditions of the callee contracts):
 *   wake-up:  dequeue  ->  callback (mutex: clear the lock bit)  ->  publish on the run queue
 *   blocking: save context -> [in the post-switch callback] enqueue -> release the mutex (cond_wait) -> run `next`
 */
#include "verif_common.h"

/* ---- spin lock word under rely/guarantee ---- */
int g_L, g_l_mine, g_l_env;
#define SPIN_INV ((g_L == 0 || g_L == 1) && (g_l_mine == 0 || g_l_mine == 1) && (g_l_env == 0 || g_l_env == 1) && g_L == g_l_mine + g_l_env)
volatile int * verif_spin_word(void);
void spin_env_step(volatile int * p)
  __CPROVER_requires(*p == g_L && SPIN_INV && "no unannounced write to the spin lock word")
  __CPROVER_assigns(*p, g_L, g_l_env)
  __CPROVER_ensures(*p == g_L && SPIN_INV)
  __CPROVER_ensures(g_l_mine ==> g_L == 1);     /* nobody releases a lock I hold */
static inline _Bool verif_cas_int(volatile int * p, int o, int n) {
  if (p != verif_spin_word()) return __sync_bool_compare_and_swap(p, o, n);
  spin_env_step(p);
  _Bool r = __sync_bool_compare_and_swap(p, o, n);
  if (r) {
    __CPROVER_assert(o == 0 && n == 1 && !g_l_mine, "GUARANTEE spin lock: the only CAS is acquire 0 -> 1 by a non-holder");
    g_l_mine = 1; g_L = 1;
  }
  return r;
}
#define __sync_bool_compare_and_swap(p,o,n) \
  (sizeof(*(p)) == sizeof(int) ? verif_cas_int((volatile int *)(p), (int)(long)(o), (int)(long)(n)) \
                               : (_Bool)(__sync_val_compare_and_swap((volatile long *)(p), (long)(o), (long)(n)) == (long)(o)))
static inline void verif_rd_locked(volatile void * p) { if (p == (volatile void *)verif_spin_word()) spin_env_step((volatile int *)p); }

#include "verif_ctx.h"          /* after the CAS macro: it pulls in the real headers */
#include "myth_sync_func.h"
#undef __sync_bool_compare_and_swap

/* ---- harness objects ---- */
struct myth_running_env ENV;
struct myth_thread TH0, TH1;          /* TH0: the blocked / woken thread;  TH1: the next runnable thread */
myth_sleep_queue_t SQ;
myth_mutex_t MX;
myth_cond_t CV;
myth_spinlock_t L;
volatile int * verif_spin_word(void) { return &L.locked; }
void (*keep1)(volatile int *) = spin_env_step;

static void env_setup(void) {
  g_envs = &ENV; g_envs_sz = 1; g_worker_rank = 0; ENV.rank = 0;
  ENV.this_thread = &TH0; TH0.env = &ENV;
}

/* ================================================================== wake-up side */
int g_deq_done, g_deq_null_seen, g_pushed, g_bit_cleared, g_cb_given, g_will_be_empty;

/* stubs that RETURN A POINTER the caller dereferences have a body (goto-instrument --replace-calls): CBMC cannot
   dereference a pointer that a contract merely constrains by an ensures clause */
myth_sleep_queue_item_t verif_deq(myth_sleep_queue_t * q) {
  __CPROVER_assert(q == &SQ, "wake-up: dequeues from the queue it was given");
  __CPROVER_assert(g_deq_done == 0, "wake-up: exactly one successful dequeue per woken thread");
  if (g_will_be_empty || nondet_bool()) { g_deq_null_seen = 1; return 0; }
  g_deq_done = 1;
  return (myth_sleep_queue_item_t)&TH0;
}
void empty_loop_contract(uint64_t dt) __CPROVER_requires(1) __CPROVER_assigns() __CPROVER_ensures(1);
void * clear_bit_contract(void * mutex_)
  __CPROVER_requires(mutex_ == (void *)&MX)
  __CPROVER_requires(g_deq_done == 1 && "the lock bit is cleared only after the waiter has been dequeued")
  __CPROVER_requires(g_pushed == 0 && g_bit_cleared == 0 && "the lock bit is cleared before the waiter is published, once")
  __CPROVER_assigns(g_bit_cleared)
  __CPROVER_ensures(g_bit_cleared == 1 && __CPROVER_return_value == 0);
void push_contract(myth_thread_queue_t q, myth_thread_t th)
  __CPROVER_requires(q == &ENV.runnable_q && th == &TH0 && "publishes exactly the dequeued thread on the waker's own run queue")
  __CPROVER_requires(g_deq_done == 1 && g_pushed == 0 && "published once, after the dequeue")
  __CPROVER_requires(g_bit_cleared == g_cb_given && "published only after the wake-up callback has run")
  __CPROVER_requires(TH0.env == &ENV && "the woken thread is bound to the waking worker before it becomes stealable")
  __CPROVER_assigns(g_pushed)
  __CPROVER_ensures(g_pushed == 1);

static void wake_setup(void) {
  env_setup();
  g_deq_done = g_deq_null_seen = g_pushed = g_bit_cleared = 0;
  TH0.env = 0;
}
void h_wake_one(void) {
  wake_setup();
  g_cb_given = nondet_bool(); g_will_be_empty = 0;
  int r = myth_wake_one_from_queue(&SQ, g_cb_given ? myth_mutex_clear_lock_bit : 0, &MX);
  __CPROVER_assert(g_deq_done == 1 && g_pushed == 1, "wake_one: returns only after one waiter has been dequeued and published (spins for a late waiter)");
  __CPROVER_assert(g_bit_cleared == g_cb_given, "wake_one: callback exactly once when given");
  (void)r;   /* the number of empty polls: a statistics counter */
  VERIF_CANARY();
}

int wake_if_any_fn_contract(myth_sleep_queue_t * q, callback_on_wakeup_t callback, void * arg)
  __CPROVER_requires(q == &SQ && callback == 0)
  /* frame: with no waiter NOTHING but the ghosts of the dequeue stub is written ("a signal with no waiter has no effect") */
  __CPROVER_assigns(g_deq_done, g_deq_null_seen; !g_will_be_empty: TH0.env, g_pushed)
  __CPROVER_ensures(__CPROVER_return_value == (g_deq_done ? 1 : 0))
  __CPROVER_ensures(g_pushed == g_deq_done);
void h_wake_if_any(void) {
  wake_setup();
  g_cb_given = 0; g_will_be_empty = nondet_bool();
  int r = myth_wake_if_any_from_queue(&SQ, 0, 0);
  __CPROVER_assert((r == 1) == (g_deq_done == 1) && (r == 0 || r == 1), "wake_if_any: reports 1 iff it dequeued a waiter");
  __CPROVER_assert(g_pushed == g_deq_done, "wake_if_any: publishes the dequeued waiter exactly once, nothing otherwise");
  VERIF_CANARY();
}

/* ---- wake_all at the level of the primitives it finally uses (dequeue from the sleep queue, publish on the run queue):
   written so that it also judges a re-structured wake_all (batches, direct dequeues) by what it DOES.  Witness
   pattern: one dequeue, chosen arbitrarily, hands out the witness thread TH0; all others hand out TH1.
   "Every thread taken off the sleep queue is published exactly once" = the witness is; "returns only after the queue
   has been observed empty" = the last dequeue before the return came back empty. */
int g_wa_w_deq, g_wa_w_pushed, g_wa_last_null, g_wa_bad;
myth_sleep_queue_item_t verif_deq_all(myth_sleep_queue_t * q) {
  __CPROVER_assert(q == &SQ, "wake_all: dequeues from the queue it was given");
  if (nondet_bool()) { g_wa_last_null = 1; return 0; }
  g_wa_last_null = 0;
  if (!g_wa_w_deq && nondet_bool()) { g_wa_w_deq = 1; TH0.env = 0; return (myth_sleep_queue_item_t)&TH0; }
  TH1.env = 0;
  return (myth_sleep_queue_item_t)&TH1;
}
void verif_push_all(myth_thread_queue_t q, myth_thread_t th) {
  __CPROVER_assert(q == &ENV.runnable_q, "wake_all: publishes on the waker's own run queue");
  __CPROVER_assert(th == &TH0 || th == &TH1, "wake_all: publishes only threads it took off the sleep queue");
  __CPROVER_assert(th->env == &ENV, "wake_all: a woken thread is bound to the waking worker before it becomes stealable");
  if (th == &TH0) {
    __CPROVER_assert(g_wa_w_deq == 1 && g_wa_w_pushed == 0, "wake_all: a thread is published only after it was dequeued, and once");
    g_wa_w_pushed = 1;
  }
}
void h_wake_all_deep(void) {
  env_setup();
  g_wa_w_deq = g_wa_w_pushed = g_wa_last_null = 0;
  int n = myth_wake_all_from_queue(&SQ, 0, 0);
  __CPROVER_assert(g_wa_last_null == 1, "wake_all: returns only after the sleep queue has been observed empty");
  __CPROVER_assert(g_wa_w_deq == g_wa_w_pushed, "wake_all: every thread taken off the sleep queue has been published (none is dropped)");
  (void)n;
  VERIF_CANARY();
}

int g_last_was_empty, g_any_woken, g_wia_polls;
int wake_if_any_contract(myth_sleep_queue_t * q, callback_on_wakeup_t callback, void * arg)
  __CPROVER_requires(q == CV.sleep_q && callback == 0 && arg == 0)
  __CPROVER_requires(g_last_was_empty == 0 && "no poll after the queue has been seen empty")
  __CPROVER_assigns(g_last_was_empty, g_any_woken, g_wia_polls)
  __CPROVER_ensures(__CPROVER_return_value == 0 || __CPROVER_return_value == 1)
  __CPROVER_ensures(g_wia_polls == 1)
  __CPROVER_ensures((g_last_was_empty == 0 || g_last_was_empty == 1) && (__CPROVER_return_value == 0) == (g_last_was_empty == 1));
void h_wake_all(void) {
  g_last_was_empty = 0; g_any_woken = 0; g_wia_polls = 0;
  int n = myth_wake_all_from_queue(CV.sleep_q, 0, 0);
  /* decided here only for a wake_all built on wake_if_any (the code as it is); a wake_all re-structured on other
     primitives is judged by job wake_all.deep, which looks at dequeues and publications */
  __CPROVER_assert(g_wia_polls == 0 || g_last_was_empty == 1, "wake_all: returns only after the queue has been observed empty (every thread blocked at that moment was woken)");
  VERIF_CANARY();
}

/* ================================================================== blocking side */
int g_enq, g_unlocked, g_m_given, g_popped_next;

myth_thread_t verif_pop(myth_thread_queue_t q) {
  __CPROVER_assert(q == &ENV.runnable_q && g_ctx_saved == 0, "block: the next thread is popped from the caller's own run queue, before the switch");
  if (nondet_bool()) { g_popped_next = 1; return &TH1; }
  g_popped_next = 0;
  return 0;
}
long enq_contract(myth_sleep_queue_t * q, myth_sleep_queue_item_t t)
  __CPROVER_requires(q == &SQ && (void *)t == (void *)&TH0)
  __CPROVER_requires(g_ctx_saved == &TH0.context && g_in_callback == 1 && "the blocker becomes visible to wakers only after its context has been saved")
  __CPROVER_requires(g_enq == 0 && g_unlocked == 0)
  __CPROVER_assigns(g_enq)
  __CPROVER_ensures(g_enq == 1);
int unlock_contract(myth_mutex_t * m)
  __CPROVER_requires(m == &MX && g_m_given)
  __CPROVER_requires(g_enq == 1 && g_unlocked == 0 && "cond_wait: the waiter is queued BEFORE the mutex is released (atomic release-and-wait)")
  __CPROVER_assigns(g_unlocked)
  __CPROVER_ensures(g_unlocked == 1);
void suspend_resume_contract(myth_context_t from, myth_context_t to)
  __CPROVER_requires(from == &TH0.context)
  __CPROVER_requires(to == (g_popped_next ? &TH1.context : &ENV.sched.context) && "the worker continues with the next runnable thread, or with the scheduler: a blocked thread does not occupy a worker")
  __CPROVER_requires(ENV.this_thread == (g_popped_next ? &TH1 : 0) && (!g_popped_next || TH1.env == &ENV))
  __CPROVER_requires(g_enq == 1 && g_unlocked == g_m_given)
  __CPROVER_assigns(ENV.this_thread, TH0.env, TH1.env)
  __CPROVER_ensures(1);

void h_block_on_queue(void) {
  env_setup();
  g_enq = g_unlocked = g_popped_next = 0; g_ctx_saved = 0; g_switch_count = 0; g_in_callback = 0; g_jumped = 0;
  g_m_given = nondet_bool();
  myth_block_on_queue(&SQ, g_m_given ? &MX : 0);
  __CPROVER_assert(g_switch_count == 1 && !g_jumped, "block: exactly one context switch, with the caller's context saved");
  __CPROVER_assert(g_enq == 1 && g_unlocked == g_m_given, "block: enqueued once; mutex released iff given");
  VERIF_CANARY();
}

/* ================================================================== condition variable bodies */
int g_i_hold, g_blocked, g_signal_calls, g_bcast_calls;
void block_contract(myth_sleep_queue_t * q, myth_mutex_t * m)
  __CPROVER_requires(q == CV.sleep_q && m == &MX && g_i_hold == 1 && g_blocked == 0)
  __CPROVER_assigns(g_blocked, g_i_hold)
  __CPROVER_ensures(g_blocked == 1 && g_i_hold == 0);      /* the mutex was released by the block (proved above) */
int mutex_lock_contract(myth_mutex_t * m)
  __CPROVER_requires(m == &MX && g_blocked == 1 && g_i_hold == 0 && "re-acquires after having waited")
  __CPROVER_assigns(g_i_hold)
  __CPROVER_ensures(g_i_hold == 1 && __CPROVER_return_value == 0);       /* = the contract proved for myth_mutex_lock_body */
int wake_if_any_once_contract(myth_sleep_queue_t * q, callback_on_wakeup_t callback, void * arg)
  __CPROVER_requires(q == CV.sleep_q && callback == 0 && arg == 0 && g_signal_calls == 0)
  __CPROVER_assigns(g_signal_calls) __CPROVER_ensures(g_signal_calls == 1);
int wake_all_contract(myth_sleep_queue_t * q, callback_on_wakeup_t callback, void * arg)
  __CPROVER_requires(q == CV.sleep_q && callback == 0 && arg == 0 && g_bcast_calls == 0)
  __CPROVER_assigns(g_bcast_calls) __CPROVER_ensures(g_bcast_calls == 1);

/* keep the contract-replaced functions referenced whatever the code under proof calls (a call that disappears must
   fail an obligation, not make the tool chain stop) */
int (*keep_mutex_lock)(myth_mutex_t *) = myth_mutex_lock;
int never_called_contract(myth_sleep_queue_t * q, callback_on_wakeup_t callback, void * arg)
  __CPROVER_requires(0 && "cond_signal must use wake-if-any, cond_broadcast must use wake-all")
  __CPROVER_assigns() __CPROVER_ensures(1);

void h_cond_wait(void) {
  g_i_hold = 1; g_blocked = 0;
  int r = myth_cond_wait_body(&CV, &MX);
  __CPROVER_assert(r == 0 && g_blocked == 1, "cond_wait: waits exactly once");
  __CPROVER_assert(g_i_hold == 1, "cond_wait: returns holding the mutex");
  VERIF_CANARY();
}
void h_cond_signal(void) {
  g_signal_calls = 0;
  int r = myth_cond_signal_body(&CV);
  __CPROVER_assert(r == 0 && g_signal_calls == 1, "cond_signal: one wake-if-any on the condition's own queue, no callback");
  VERIF_CANARY();
}
void h_cond_broadcast(void) {
  g_bcast_calls = 0;
  int r = myth_cond_broadcast_body(&CV);
  __CPROVER_assert(r == 0 && g_bcast_calls == 1, "cond_broadcast: one wake-all on the condition's own queue, no callback");
  VERIF_CANARY();
}
void h_cond_init(void) {
  __CPROVER_havoc_object(&CV);
  myth_condattr_t cat_; _Bool with_cattr = nondet_bool();      /* with or without an attribute object: the queue is initialised either way */
  myth_cond_init_body(&CV, with_cattr ? &cat_ : 0);
  __CPROVER_assert(CV.sleep_q->head == 0 && CV.sleep_q->tail == 0 && CV.sleep_q->ilock->locked == 0, "cond_init: empty, unlocked queue");
  VERIF_CANARY();
}

/* ================================================================== sleep queue (FIFO under its internal spin lock) */
myth_sleep_queue_item I0, I1, I2, I3;   /* I0: head (if any); I1: tail when two or more; I3: a middle item; I2: the item being enqueued */
int g_ilock_mine, g_lock_calls, g_unlock_calls;
myth_sleep_queue_item_t g_head0, g_tail0, g_head0_next;
#define SQ_WF ((SQ.head == 0) == (SQ.tail == 0) && (SQ.head == 0 || SQ.head == &I0) && (SQ.tail == 0 || SQ.tail == &I0 || SQ.tail == &I1) && \
               (SQ.tail == &I0 ==> I0.next == 0) && (SQ.tail == &I1 ==> (I1.next == 0 && I0.next != 0 && I0.next != &I0 && I0.next != &I2)))
/* taking the lock.  The queue state is chosen arbitrarily (well-formed) by the harness BEFORE the call: the function
   does not look at the queue before it holds the lock (read hook below), so "the others changed it until I got the
   lock" is covered by the arbitrary pre-state.  (A contract that havocs the pointers instead makes them
   un-dereferenceable for CBMC: value sets do not learn from assumptions.) */
int ilock_lock_contract(myth_spinlock_t * l)
  __CPROVER_requires(l == SQ.ilock && g_ilock_mine == 0 && g_lock_calls == 0)
  __CPROVER_assigns(g_ilock_mine, g_lock_calls)
  __CPROVER_ensures(g_ilock_mine == 1 && g_lock_calls == 1)
  __CPROVER_ensures(0 <= __CPROVER_return_value && __CPROVER_return_value < (1 << 20));
static void sq_state(void) {
  int shape = nondet_int();
  __CPROVER_assume(0 <= shape && shape <= 2);
  I0.next = 0; I1.next = 0;
  if (shape == 0) { SQ.head = 0; SQ.tail = 0; }
  if (shape == 1) { SQ.head = &I0; SQ.tail = &I0; }
  if (shape == 2) { SQ.head = &I0; SQ.tail = &I1; I0.next = nondet_bool() ? &I1 : &I3; }      /* two or more items */
  g_head0 = SQ.head; g_tail0 = SQ.tail; g_head0_next = I0.next;
}
int ilock_unlock_contract(myth_spinlock_t * l)
  __CPROVER_requires(l == SQ.ilock && g_ilock_mine == 1 && g_unlock_calls == 0)
  __CPROVER_assigns(g_ilock_mine, g_unlock_calls)
  __CPROVER_ensures(g_ilock_mine == 0 && g_unlock_calls == 1);
static inline void verif_rd_sq(volatile void * p) {
  if (p == (volatile void *)&SQ.head || p == (volatile void *)&SQ.tail)
    __CPROVER_assert(g_ilock_mine == 1, "sleep queue: head/tail are read only under the internal lock");
}
void h_sq_enq(void) {
  g_ilock_mine = g_lock_calls = g_unlock_calls = 0;
  sq_state();
  I2.next = &I0;      /* garbage link from a previous life */
  myth_sleep_queue_enq(&SQ, &I2);
  __CPROVER_assert(g_lock_calls == 1 && g_unlock_calls == 1 && g_ilock_mine == 0, "enq: one critical section, lock released");
  __CPROVER_assert(SQ.tail == &I2 && I2.next == 0, "enq: the new item is the tail and ends the list");
  __CPROVER_assert(g_tail0 == 0 ? SQ.head == &I2 : (SQ.head == g_head0 && g_tail0->next == &I2), "enq: appended behind the old tail (FIFO); head unchanged unless the queue was empty");
  VERIF_CANARY();
}
void h_sq_deq(void) {
  g_ilock_mine = g_lock_calls = g_unlock_calls = 0;
  sq_state();
  myth_sleep_queue_item_t r = myth_sleep_queue_deq(&SQ);
  __CPROVER_assert(g_lock_calls == 1 && g_unlock_calls == 1 && g_ilock_mine == 0, "deq: one critical section, lock released");
  __CPROVER_assert(r == g_head0, "deq: returns the oldest item, NULL iff the queue was empty");
  __CPROVER_assert(g_head0 == 0 ? (SQ.head == 0 && SQ.tail == 0) : (SQ.head == g_head0_next && (g_head0_next == 0 ? SQ.tail == 0 : SQ.tail == g_tail0)),
                   "deq: head advances to the successor; removing the last item empties the queue (tail cleared)");
  VERIF_CANARY();
}
void h_sq_init(void) {
  __CPROVER_havoc_object(&SQ);
  myth_sleep_queue_init(&SQ);
  __CPROVER_assert(SQ.head == 0 && SQ.tail == 0 && SQ.ilock->locked == 0, "sleep_queue_init: empty and unlocked");
  VERIF_CANARY();
}

/* ================================================================== spin lock */
static void spin_setup(int mine) {
  g_L = nondet_int(); g_l_env = nondet_int(); g_l_mine = mine; L.locked = g_L;
  __CPROVER_assume(SPIN_INV);
}
void h_spin_trylock(void) {
  spin_setup(0);
  int r = myth_spin_trylock_body(&L);
  __CPROVER_assert((r == 1) == (g_l_mine == 1) && (r == 0 || r == 1), "spin_trylock: 1 iff the caller acquired the lock");
  __CPROVER_assert(L.locked == g_L && SPIN_INV, "spin_trylock: at most one holder");
  VERIF_CANARY();
}
void h_spin_lock(void) {
  spin_setup(0);
  int r = myth_spin_lock_body(&L);
  (void)r;
  __CPROVER_assert(g_l_mine == 1, "spin_lock: returns only as the holder");
  __CPROVER_assert(L.locked == g_L && SPIN_INV, "spin_lock: at most one holder");
  VERIF_CANARY();
}
void h_spin_unlock(void) {
  spin_setup(1);
  myth_spin_unlock_body(&L);
  __CPROVER_assert(L.locked == 0, "spin_unlock: the word is cleared by the holder");
  VERIF_CANARY();
}
