/* C18 -- DAG Recorder totals do not depend on how the DAG was contracted (DESIGN §4 C18).
 *
 * Functions under contract (real, unmodified bodies from /repo/src/profiler/dag_recorder_inl.h and dag_recorder.c,
 * pulled in by including dag_recorder.c -> dag_recorder_impl.h -> dag_recorder.h -> dag_recorder_inl.h):
 *   dr_end_interval_              leaf summary: t_1 == t_inf == end - start, one logical node of its kind, no edges
 *   dr_get_logical_node_counts    sum of the four interval counts (drives policy II)
 *   dr_accumulate_stats           (bounded, <= ACC_N = 4 subgraphs) totals of a closing section/task are THE function of
 *                                 the children's summaries that the property names; writes only s->info
 *   dr_collapse_subgraph          frame: assigns cur_node_count, the (emptied) subgraph list and the free list only
 *   dr_summarize_section_or_task  for EVERY setting of the contraction options the totals computed by accumulate are
 *                                 the totals left in the node (all policies go through collapse / prune)
 *   dr_free_dag                   (bounded, one concrete 10-node DAG) frame: only `next` of the freed descendants, the
 *                                 root's list, the free list -- no summary of any node
 *   dr_prune_nodes_norec          (bounded, same DAG, six concrete budget / worker-set scenarios) frame: only
 *                                 cur_node_count, collapse effects and its own stack
 * plus one arithmetic lemma (h_lemma_cp_le_work): the recurrence step of "critical path <= work", any list length.
 *
 * Paper step (not a machine step): (summary of a node is a function of its children's summaries only) + (no contraction
 * policy writes a summary) ==> by induction on the task tree the root totals equal those of the uncontracted DAG.
 *
 * Specification source: the PROPERTY STATEMENT.  work = sum of interval lengths; critical path = longest dependency
 * chain (serial chain of the section, or the chain up to a create interval followed by the created task's own chain);
 * number of intervals by kind; number of edges by kind of the uncontracted DAG (as materialised by dr_dump.c
 * dr_pi_dag_enum_edges: create -> child, create -> next, last-of-section -> next, end-of-child -> after-wait,
 * other -> next).
 *
 * Finding on the pinned tree: dr_accumulate_stats does not count the other -> next (other_cont) edge, so the reported
 * number of other-cont edges depends on contraction (obligation "accumulate: other_cont edges = ..." fails; native
 * reproduction in the unit report).  Observation: logical_node_counts[s->info.kind] = 1 indexes a long[4] with 4 / 5
 * (undefined behaviour; harmless in effect, and not an obligation for CBMC, which checks the bounds of the enclosing
 * object only).
 */
#include "verif_common.h"
#include "dag_recorder.c"                       /* the real code */

/* ------------------------------------------------------------------ external functions (stubs / contracts) */
int sched_getcpu(void) { return nondet_int(); }          /* libc; only feeds info.cpu */

int g_exit_calls;
void exit_contract(int c)                                  /* dr_check_ -> exit(1): reachability is an obligation */
  __CPROVER_requires(0 && "a dr_check of the recorder fails (exit(1))")
  __CPROVER_assigns(g_exit_calls)
  __CPROVER_ensures(0);

/* libc malloc as used by the bounded jobs (--replace-calls malloc:verif_malloc): a request of at most 64 bytes gets a
   64-byte object (CBMC runs out of memory on objects of symbolic size); larger requests are an obligation failure */
void * verif_malloc(size_t sz) {
  __CPROVER_assert(sz <= 64, "bounded model of malloc: request of at most 64 bytes");
  return __CPROVER_allocate(64, 0);          /* a fresh dynamic object, contents nondeterministic */
}

dr_dag_node nondet_node(void);
dr_clock_pos nondet_clock_pos(void);
unsigned long long nondet_ull(void);
long long nondet_ll(void);

/* ------------------------------------------------------------------ ghosts and harness memory */
#ifndef ACC_N
#define ACC_N 4                 /* bound on the number of subgraphs of the closing section/task (bounded jobs) */
#endif
#ifndef ACC_PART
#define ACC_PART 0              /* the accumulate obligations are split over jobs (solver time); 0 = all in one */
#endif
#define PART(p) (ACC_PART == 0 || ACC_PART == (p))
#define CLK_MAX (1ULL << 58)    /* clocks below 2^58 each: the sum of <= 8 of them does not wrap 2^64 */
#define CNT_MAX (1L << 40)      /* per-summary node / edge counts below 2^40: long sums do not overflow */
#define CNT_OK(c) (0 <= (c) && (c) < (1LL << 58))

int g_k;                        /* witness index for "every count" (0..4; node counts use it when < 4) */
dr_dag_node N0;                 /* leaf under proof */
dr_dag_node S;                  /* the section / task being closed or contracted */
dr_dag_node CH[ACC_N];          /* its subgraphs, in list order */
dr_dag_node CT[ACC_N];          /* CT[i]: the task created by CH[i] when CH[i] is a create_task interval */
dr_dag_node_freelist FL;
dr_prune_nodes_stack PS;
dr_prune_nodes_stack_ent ENT[8];

/* totals as computed by the oracle (accumulate job) or "whatever accumulate left" (summarize job) */
dr_clock_t g_t1, g_tinf;
long g_nc[dr_dag_node_kind_section], g_ec[dr_dag_edge_kind_max];
int g_acc_calls;          /* calls of accumulate (summarize job): contraction must come after it */

#define IS_SECTION_OR_TASK(n) ((int)(n)->info.kind == 4 || (int)(n)->info.kind == 5)

/* ------------------------------------------------------------------ contracts */

/* leaf: property statement "work is the sum of all interval lengths", one node of its kind, no edge inside a leaf */
void end_interval_contract(dr_dag_node * dn, int worker, dr_dag_node_kind_t kind, dr_dag_edge_kind_t edge_kind,
                           dr_clock_t end_t, dr_clock_t est, dr_clock_t ready_t, const char * file, int line,
                           dr_clock_pos start)
  __CPROVER_requires(dn == &N0)
  __CPROVER_requires(0 <= (int)kind && (int)kind < 4 && 0 <= (int)edge_kind && (int)edge_kind < 5)
  __CPROVER_requires(CNT_OK(start.counters[0]) && CNT_OK(start.counters[1]) && CNT_OK(start.counters[2]) && CNT_OK(start.counters[3]))
  __CPROVER_requires(CNT_OK(dn->info.end.counters[0]) && CNT_OK(dn->info.end.counters[1]) && CNT_OK(dn->info.end.counters[2]) && CNT_OK(dn->info.end.counters[3]))
  __CPROVER_requires(start.worker == worker)           /* "by construction, the worker should not change" */
  __CPROVER_requires(0 <= g_k && g_k < 5)
  __CPROVER_assigns(dn->info)
  __CPROVER_ensures(dn->info.t_1 == end_t - start.t)
  __CPROVER_ensures(dn->info.t_inf == end_t - start.t)
  __CPROVER_ensures(g_k < 4 ==> dn->info.logical_node_counts[g_k] == (g_k == (int)kind ? 1 : 0))
  __CPROVER_ensures(dn->info.logical_edge_counts[g_k] == 0)
  __CPROVER_ensures(dn->info.kind == kind && dn->info.n_child_create_tasks == 0)
  __CPROVER_ensures(dn->info.cur_node_count == 1 && dn->info.min_node_count == 1)
  __CPROVER_ensures(dn->info.start.t == start.t && dn->info.end.t == end_t);

/* accumulate, frame part (enforced on the real body in the bounded job): writes the summary of s and nothing else */
void accumulate_frame_contract(dr_dag_node * s)
  __CPROVER_requires(s == &S && IS_SECTION_OR_TASK(s) && s->subgraphs->n > 0)
  __CPROVER_assigns(s->info)
  __CPROVER_ensures(s->info.kind == __CPROVER_old(s->info.kind));

/* accumulate as seen by summarize: it leaves SOME totals in s->info (named by ghosts chosen before the call) and
   touches nothing else -- the frame is the one proved (bounded) above */
void accumulate_contract(dr_dag_node * s)
  __CPROVER_requires(s == &S && IS_SECTION_OR_TASK(s))
  __CPROVER_requires(s->subgraphs->n > 0 && s->subgraphs->head != 0 && "accumulate runs on the uncontracted child list")
  __CPROVER_requires(g_acc_calls == 0)
  __CPROVER_assigns(s->info, g_acc_calls)
  __CPROVER_ensures(g_acc_calls == 1)
  __CPROVER_ensures(s->info.kind == __CPROVER_old(s->info.kind))
  __CPROVER_ensures(s->info.t_1 == g_t1 && s->info.t_inf == g_tinf)
  __CPROVER_ensures(s->info.logical_node_counts[0] == g_nc[0] && s->info.logical_node_counts[1] == g_nc[1] &&
                    s->info.logical_node_counts[2] == g_nc[2] && s->info.logical_node_counts[3] == g_nc[3])
  __CPROVER_ensures(s->info.logical_edge_counts[0] == g_ec[0] && s->info.logical_edge_counts[1] == g_ec[1] &&
                    s->info.logical_edge_counts[2] == g_ec[2] && s->info.logical_edge_counts[3] == g_ec[3] &&
                    s->info.logical_edge_counts[4] == g_ec[4])
  __CPROVER_ensures(1 <= s->info.cur_node_count && s->info.cur_node_count < CNT_MAX &&
                    1 <= s->info.min_node_count && s->info.min_node_count <= s->info.cur_node_count);

/* dr_free_dag(g, 0, fl) as used by collapse: ASSUMED here, its frame is checked on the real body in job free_dag.bounded.
   Not modelled: the `next` fields of the freed descendants (dead nodes, unreachable from the DAG afterwards). */
void free_dag_contract(dr_dag_node * g, int free_root, dr_dag_node_freelist * fl)
  __CPROVER_requires(g == &S && free_root == 0 && fl == &FL && IS_SECTION_OR_TASK(g))
  __CPROVER_assigns(g->subgraphs[0], fl->head, fl->tail)
  __CPROVER_ensures(g->subgraphs->n == 0 && g->subgraphs->head == 0 && g->subgraphs->tail == 0);

/* contraction frame: collapse never assigns t_1, t_inf, logical_* (they are not in the assigns clause) */
void collapse_contract(dr_dag_node * s, dr_dag_node_freelist * fl)
  __CPROVER_requires(s == &S && fl == &FL && IS_SECTION_OR_TASK(s))
  __CPROVER_requires(g_acc_calls == 1 && "contraction only after the totals have been accumulated")
  __CPROVER_assigns(s->info.cur_node_count, s->subgraphs[0], fl->head, fl->tail)
  __CPROVER_ensures(s->info.cur_node_count == 1)
  __CPROVER_ensures(s->subgraphs->n == 0 && s->subgraphs->head == 0 && s->subgraphs->tail == 0);

/* prune as seen by summarize: ASSUMED here; its frame is checked on the real body in job prune.bounded.
   Not modelled: cur_node_count / emptied lists of DESCENDANTS of s (other nodes, whose summaries are already final). */
long prune_contract(dr_prune_nodes_stack * st, dr_dag_node * s, long budget, dr_dag_node_freelist * fl)
  __CPROVER_requires(st == &PS && s == &S && fl == &FL && IS_SECTION_OR_TASK(s))
  __CPROVER_requires(g_acc_calls == 1 && "contraction only after the totals have been accumulated")
  __CPROVER_requires(budget == GS.opts.node_count_target)
  __CPROVER_assigns(s->info.cur_node_count, s->subgraphs[0], fl->head, fl->tail, st->n, __CPROVER_object_whole(ENT))
  __CPROVER_ensures(s->info.cur_node_count >= 1 && __CPROVER_return_value == s->info.cur_node_count);

/* debug checker (recursive walk, only evaluated when chk_level != 0): ASSUMED read-only and consistent */
long check_node_counts_contract(dr_dag_node * n)
  __CPROVER_requires(n == &S)
  __CPROVER_assigns()
  __CPROVER_ensures(__CPROVER_return_value == n->info.cur_node_count);

/* summarize: whatever the options, the totals accumulate computed are the totals the node keeps */
void summarize_contract(dr_prune_nodes_stack * st, dr_dag_node * s, dr_dag_node_freelist * fl)
  __CPROVER_requires(st == &PS && s == &S && fl == &FL && IS_SECTION_OR_TASK(s))
  __CPROVER_requires(s->subgraphs->n > 0 && s->subgraphs->head != 0)
  __CPROVER_requires(g_acc_calls == 0)
  __CPROVER_requires(0 <= g_k && g_k < 5)
  __CPROVER_assigns(s->info, s->subgraphs[0], fl->head, fl->tail, st->n, __CPROVER_object_whole(ENT), g_acc_calls)
  __CPROVER_ensures(g_acc_calls == 1)
  __CPROVER_ensures(s->info.t_1 == g_t1)
  __CPROVER_ensures(s->info.t_inf == g_tinf)
  __CPROVER_ensures(g_k < 4 ==> s->info.logical_node_counts[g_k] == g_nc[g_k])
  __CPROVER_ensures(s->info.logical_edge_counts[g_k] == g_ec[g_k])
  __CPROVER_ensures(s->info.kind == __CPROVER_old(s->info.kind));

/* ------------------------------------------------------------------ harness helpers */

static void setup_gs(void) {
  dr_global_state z = {0};
  GS = z;                                           /* object with unions/pointers: assign as a whole first */
  GS.opts.chk_level = nondet_char();                /* the recorder's own checks on or off */
  GS.opts.record_cpu = nondet_char();
  GS.opts.verbose_level = 0;                        /* diagnostics (printf) off */
  GS.opts.dbg_level = 0;
  g_acc_calls = 0; g_exit_calls = 0;
  FL.head = 0; FL.tail = 0; FL.pages = 0;
  PS.entries = ENT; PS.sz = 8; PS.n = 0;
}

/* a node with an arbitrary summary and no wild pointers: links are NULL until the harness sets them */
static dr_dag_node fresh_node(void) {
  dr_dag_node x = nondet_node();
  x.next = 0; x.forward = 0;
  x.subgraphs->n = 0; x.subgraphs->head = 0; x.subgraphs->tail = 0; x.parent_section = 0;
  return x;
}

static void assume_summary(dr_dag_node * x) {        /* node invariant of a finished subgraph */
  __CPROVER_assume(x->info.t_1 < CLK_MAX && x->info.t_inf <= x->info.t_1);
  for (int k = 0; k < 4; k++) __CPROVER_assume(0 <= x->info.logical_node_counts[k] && x->info.logical_node_counts[k] < CNT_MAX);
  for (int k = 0; k < 5; k++) __CPROVER_assume(0 <= x->info.logical_edge_counts[k] && x->info.logical_edge_counts[k] < CNT_MAX);
  for (int k = 0; k < 4; k++) __CPROVER_assume(CNT_OK(x->info.counters_1[k]) && CNT_OK(x->info.counters_inf[k]));
  __CPROVER_assume(1 <= x->info.cur_node_count && x->info.cur_node_count < CNT_MAX);
  __CPROVER_assume(1 <= x->info.min_node_count && x->info.min_node_count <= x->info.cur_node_count);
  __CPROVER_assume(0 <= x->info.n_child_create_tasks && x->info.n_child_create_tasks < CNT_MAX);
}

/* S := a section or task whose child list is a well-nested sequence of n <= ACC_N finished subgraphs
     section ::= (create | section | other)* wait        task ::= (section | other)* end
   every summary nondeterministic within the node invariant */
static int g_n, g_is_task;
static void build_closing_node(void) {
  g_n = nondet_int(); g_is_task = nondet_bool();
  __CPROVER_assume(1 <= g_n && g_n <= ACC_N);
  for (int i = 0; i < ACC_N; i++) {
    CH[i] = fresh_node(); CT[i] = fresh_node();
    int kd = nondet_int();
    if (i == g_n - 1) __CPROVER_assume(kd == (g_is_task ? dr_dag_node_kind_end_task : dr_dag_node_kind_wait_tasks));
    else if (g_is_task) __CPROVER_assume(kd == dr_dag_node_kind_section || kd == dr_dag_node_kind_other);
    else __CPROVER_assume(kd == dr_dag_node_kind_section || kd == dr_dag_node_kind_other || kd == dr_dag_node_kind_create_task);
    CH[i].info.kind = (dr_dag_node_kind_t)kd;
    CH[i].next = (i + 1 < ACC_N && i < g_n - 1) ? &CH[i + 1 < ACC_N ? i + 1 : 0] : 0;
    assume_summary(&CH[i]);
    CT[i].info.kind = dr_dag_node_kind_task; CT[i].next = 0;
    assume_summary(&CT[i]);
    if (kd == dr_dag_node_kind_create_task) {
      CH[i].child = &CT[i];
      __CPROVER_assume(CH[i].info.cur_node_count == 1 && CH[i].info.min_node_count == 1);
    }
  }
  __CPROVER_assume(CH[0].info.first_ready_t > 0);
  S = fresh_node();
  S.info.kind = g_is_task ? dr_dag_node_kind_task : dr_dag_node_kind_section;
  S.subgraphs->n = g_n; S.subgraphs->head = &CH[0]; S.subgraphs->tail = &CH[g_n - 1];
  if (g_is_task) S.active_section = &S; else S.parent_section = 0;
}

/* ------------------------------------------------------------------ harnesses */

void h_leaf(void) {
  setup_gs();
  N0 = nondet_node();
  g_k = nondet_int();
  int worker = nondet_int();
  int kind = nondet_int(), ek = nondet_int();
  dr_clock_pos start = nondet_clock_pos();
  dr_end_interval_(&N0, worker, (dr_dag_node_kind_t)kind, (dr_dag_edge_kind_t)ek, nondet_ull(), nondet_ull(), nondet_ull(),
                   "f", nondet_int(), start);
  VERIF_CANARY();
}

void h_logical_counts(void) {
  setup_gs();
  S = nondet_node();
  assume_summary(&S);
  long a = S.info.logical_node_counts[0], b = S.info.logical_node_counts[1], c = S.info.logical_node_counts[2], d = S.info.logical_node_counts[3];
  long r = dr_get_logical_node_counts(&S);
  __CPROVER_assert(r == a + b + c + d, "logical_counts: the number of intervals is the sum of the four interval counts");
  VERIF_CANARY();
}

void h_accumulate(void) {
  setup_gs();
  build_closing_node();
  /* ---- oracle: the totals as the PROPERTY defines them, from the children's summaries only ---- */
  dr_clock_t e_t1 = 0, chain = 0, longest = 0;
  long e_nc[4] = {0, 0, 0, 0}, e_ec[5] = {0, 0, 0, 0, 0};
  for (int i = 0; i < ACC_N; i++) {
    if (i < g_n) {
      int kd = (int)CH[i].info.kind;
      e_t1 += CH[i].info.t_1;                                         /* work: sum over the chain ...              */
      chain += CH[i].info.t_inf;                                      /* serial dependency chain                   */
      for (int k = 0; k < 4; k++) e_nc[k] += CH[i].info.logical_node_counts[k];
      for (int k = 0; k < 5; k++) e_ec[k] += CH[i].info.logical_edge_counts[k];
      if (kd == dr_dag_node_kind_create_task) {
        e_t1 += CT[i].info.t_1;                                       /* ... plus every task created in it         */
        if (chain + CT[i].info.t_inf > longest) longest = chain + CT[i].info.t_inf;   /* chain up to the create, then the child */
        e_ec[dr_dag_edge_kind_create] += 1;                           /* create -> first interval of the child     */
        e_ec[dr_dag_edge_kind_create_cont] += 1;                      /* create -> next interval of the parent     */
        for (int k = 0; k < 4; k++) e_nc[k] += CT[i].info.logical_node_counts[k];
        for (int k = 0; k < 5; k++) e_ec[k] += CT[i].info.logical_edge_counts[k];
      }
      if (kd == dr_dag_node_kind_section && i < g_n - 1) {
        e_ec[dr_dag_edge_kind_wait_cont] += 1;                        /* wait -> next                              */
        e_ec[dr_dag_edge_kind_end] += CH[i].info.n_child_create_tasks;/* end of each waited child -> next          */
      }
      if (kd == dr_dag_node_kind_other && i < g_n - 1)
        e_ec[dr_dag_edge_kind_other_cont] += 1;                       /* other -> next                             */
    }
  }
  if (chain > longest) longest = chain;

  dr_accumulate_stats(&S);

#if PART(1)
  __CPROVER_assert(S.info.t_1 == e_t1, "accumulate: work = sum of the children's work plus the work of every task created in the section");
  __CPROVER_assert(S.info.t_inf == longest, "accumulate: critical path = longest dependency chain (serial chain, or chain up to a create then the created task)");
  /* "critical path never exceeds work" follows from these two equalities and h_lemma_cp_le_work (induction on the list) */
#endif
#if PART(2)
  __CPROVER_assert(S.info.logical_node_counts[0] == e_nc[0], "accumulate: create intervals = sum over children and created tasks");
  __CPROVER_assert(S.info.logical_node_counts[1] == e_nc[1], "accumulate: wait intervals = sum over children and created tasks");
  __CPROVER_assert(S.info.logical_node_counts[2] == e_nc[2], "accumulate: other intervals = sum over children and created tasks");
  __CPROVER_assert(S.info.logical_node_counts[3] == e_nc[3], "accumulate: end intervals = sum over children and created tasks");
#endif
#if PART(3)
  __CPROVER_assert(S.info.logical_edge_counts[dr_dag_edge_kind_end] == e_ec[dr_dag_edge_kind_end],
                   "accumulate: end edges = children's + one per created task of every waited section with a successor");
  __CPROVER_assert(S.info.logical_edge_counts[dr_dag_edge_kind_create] == e_ec[dr_dag_edge_kind_create],
                   "accumulate: create edges = children's + one per create interval");
  __CPROVER_assert(S.info.logical_edge_counts[dr_dag_edge_kind_create_cont] == e_ec[dr_dag_edge_kind_create_cont],
                   "accumulate: create_cont edges = children's + one per create interval");
#endif
#if PART(4)
  __CPROVER_assert(S.info.logical_edge_counts[dr_dag_edge_kind_wait_cont] == e_ec[dr_dag_edge_kind_wait_cont],
                   "accumulate: wait_cont edges = children's + one per section with a successor");
  __CPROVER_assert(S.info.logical_edge_counts[dr_dag_edge_kind_other_cont] == e_ec[dr_dag_edge_kind_other_cont],
                   "accumulate: other_cont edges = children's + one per 'other' interval with a successor");
#endif
#if PART(2)
  __CPROVER_assert(S.info.logical_node_counts[0] >= 0 && S.info.logical_node_counts[1] >= 0 && S.info.logical_node_counts[2] >= 0 &&
                   S.info.logical_node_counts[3] >= 0, "accumulate: counts stay non-negative");
  __CPROVER_assert(S.subgraphs->n == g_n && S.subgraphs->head == &CH[0], "accumulate: the child list itself is untouched");
#endif
  VERIF_CANARY();
}

/* lemma, all values, no bound on the list length: one step of the recurrence that defines (work, serial chain, longest
   chain) of a closing section preserves  chain <= work  and  longest <= work, given the node invariant t_inf <= t_1 of the
   appended subgraph and of the task it creates.  By induction over the child list: critical path <= work. */
void h_lemma_cp_le_work(void) {
  dr_clock_t work = nondet_ull(), chain = nondet_ull(), longest = nondet_ull();
  dr_clock_t x1 = nondet_ull(), xinf = nondet_ull(), c1 = nondet_ull(), cinf = nondet_ull();
  _Bool is_create = nondet_bool();
  __CPROVER_assume(work < (1ULL << 62) && x1 < CLK_MAX && c1 < CLK_MAX);       /* no wrap-around of the 64-bit clock sums */
  __CPROVER_assume(chain <= work && longest <= work && xinf <= x1 && cinf <= c1);
  work += x1; chain += xinf;
  if (is_create) { work += c1; if (chain + cinf > longest) longest = chain + cinf; }
  __CPROVER_assert(chain <= work && longest <= work, "lemma: appending a subgraph keeps serial chain <= work and longest chain <= work");
  dr_clock_t fin = chain > longest ? chain : longest;
  __CPROVER_assert(fin <= work, "lemma: critical path (max of serial chain and longest create chain) never exceeds work");
  VERIF_CANARY();
}

void h_collapse(void) {
  setup_gs();
  S = nondet_node();
  int kd = nondet_int(); __CPROVER_assume(kd == 4 || kd == 5);
  S.info.kind = (dr_dag_node_kind_t)kd;
  g_acc_calls = 1;
  dr_clock_t t1 = S.info.t_1, tinf = S.info.t_inf;
  g_k = nondet_int(); __CPROVER_assume(0 <= g_k && g_k < 5);
  long nc = S.info.logical_node_counts[g_k < 4 ? g_k : 0], ec = S.info.logical_edge_counts[g_k];
  dr_collapse_subgraph(&S, &FL);
  __CPROVER_assert(S.info.t_1 == t1 && S.info.t_inf == tinf, "collapse: work and critical path of the contracted node are unchanged");
  __CPROVER_assert(S.info.logical_node_counts[g_k < 4 ? g_k : 0] == nc && S.info.logical_edge_counts[g_k] == ec,
                   "collapse: interval and edge counts of the contracted node are unchanged");
  VERIF_CANARY();
}

void h_summarize(void) {
  setup_gs();
  /* every setting of the contraction options */
  GS.opts.node_count_target = nondet_long(); GS.opts.prune_threshold = nondet_long();
  GS.opts.collapse_max_count = nondet_long();
  GS.opts.uncollapse_min = nondet_ull(); GS.opts.collapse_max = nondet_ull();
  S = nondet_node();
  int kd = nondet_int(); __CPROVER_assume(kd == 4 || kd == 5);
  S.info.kind = (dr_dag_node_kind_t)kd;
  S.subgraphs->n = nondet_long(); __CPROVER_assume(S.subgraphs->n > 0);
  CH[0] = nondet_node(); S.subgraphs->head = &CH[0]; S.subgraphs->tail = &CH[0];
  /* whatever accumulate is going to compute */
  g_t1 = nondet_ull(); g_tinf = nondet_ull();
  for (int k = 0; k < 4; k++) { g_nc[k] = nondet_long(); __CPROVER_assume(0 <= g_nc[k] && g_nc[k] < CNT_MAX); }
  for (int k = 0; k < 5; k++) { g_ec[k] = nondet_long(); __CPROVER_assume(0 <= g_ec[k] && g_ec[k] < CNT_MAX); }
  g_k = nondet_int(); __CPROVER_assume(0 <= g_k && g_k < 5);
  dr_summarize_section_or_task(&PS, &S, &FL);
  VERIF_CANARY();
}

/* ------------------------------------------------------------------ bounded: contraction on one concrete DAG
   The real dr_free_dag / dr_prune_nodes_norec (with the real dr_collapse_subgraph, dr_free_dag, dr_dag_node_free) on a
   DAG of 10 nodes that contains every node kind; all summaries, the worker sets and the budget are nondeterministic:

     S (section) -> CH[0] create ---child---> CT[0] (task) -> LF[0][0] other, LF[0][1] end
                    CH[1] section -> LF[1][0] other, LF[1][1] wait
                    CH[2] other
                    CH[3] wait                                                                                      */
#if ACC_N >= 4
dr_dag_node LF[2][2];
dr_dag_node * g_w;     /* witness node: any of the 10 */

static void list_of(dr_dag_node * p, dr_dag_node * a, int m) {
  p->subgraphs->n = m; p->subgraphs->head = &a[0]; p->subgraphs->tail = &a[m - 1];
  for (int j = 0; j < 4; j++) if (j < m) a[j].next = (j + 1 < m) ? &a[j + 1] : 0;
}
static void leaf(dr_dag_node * p, dr_dag_node_kind_t k) {
  *p = fresh_node(); p->info.kind = k; p->info.cur_node_count = 1; p->info.min_node_count = 1; p->info.worker = 0;
}
static int g_one_worker_mask = -1;   /* -1: nondeterministic; else bit 0: S, bit 1: CT[0], bit 2: CH[1] ran on one worker */
static void inner(dr_dag_node * p, dr_dag_node_kind_t k, long cur, long min_uncollapsed) {
  /* executed by one worker: collapsable, min_node_count == 1 */
  _Bool one_worker = g_one_worker_mask < 0 ? nondet_bool() : ((g_one_worker_mask >> (p == &S ? 0 : p == &CT[0] ? 1 : 2)) & 1);
  p->info.kind = k; p->info.cur_node_count = cur; p->info.worker = one_worker ? 0 : -1;
  p->info.min_node_count = one_worker ? 1 : min_uncollapsed;
}
static void build_dag10(void) {
  leaf(&LF[0][0], dr_dag_node_kind_other); leaf(&LF[0][1], dr_dag_node_kind_end_task);
  leaf(&LF[1][0], dr_dag_node_kind_other); leaf(&LF[1][1], dr_dag_node_kind_wait_tasks);
  leaf(&CH[0], dr_dag_node_kind_create_task); leaf(&CH[2], dr_dag_node_kind_other); leaf(&CH[3], dr_dag_node_kind_wait_tasks);
  CT[0] = fresh_node(); inner(&CT[0], dr_dag_node_kind_task, 3, 3); list_of(&CT[0], LF[0], 2); CT[0].active_section = &CT[0];
  CH[0].child = &CT[0];
  CH[1] = fresh_node(); inner(&CH[1], dr_dag_node_kind_section, 3, 3); list_of(&CH[1], LF[1], 2); CH[1].parent_section = &S;
  S = fresh_node(); inner(&S, dr_dag_node_kind_section, 10, 1 + (1 + CT[0].info.min_node_count) + CH[1].info.min_node_count + 1 + 1);
  list_of(&S, CH, 4); S.parent_section = 0;
  int w = nondet_int(); __CPROVER_assume(0 <= w && w < 10);
  g_w = w == 0 ? &S : w <= 4 ? &CH[w - 1] : w == 5 ? &CT[0] : &LF[(w - 6) / 2][(w - 6) % 2];
  g_k = nondet_int(); __CPROVER_assume(0 <= g_k && g_k < 5);
}
#define DAG10_LINKS CH[0].next, CH[1].next, CH[2].next, CH[3].next, CT[0].next, LF[0][0].next, LF[0][1].next, LF[1][0].next, LF[1][1].next

/* frame of the real dr_free_dag: `next` of the descendants, the root's list, the free list -- no summary of any node */
void free_dag_frame_contract(dr_dag_node * g, int free_root, dr_dag_node_freelist * fl)
  __CPROVER_requires(g == &S && free_root == 0 && fl == &FL)
  __CPROVER_assigns(g->subgraphs[0], fl->head, fl->tail, DAG10_LINKS)
  __CPROVER_ensures(g->subgraphs->n == 0 && g->subgraphs->head == 0 && g->subgraphs->tail == 0);

void h_free_dag(void) {
  setup_gs();
  build_dag10();
  dr_clock_t t1 = g_w->info.t_1, tinf = g_w->info.t_inf;
  long nc = g_w->info.logical_node_counts[g_k < 4 ? g_k : 0], ec = g_w->info.logical_edge_counts[g_k], cur = S.info.cur_node_count;
  dr_free_dag(&S, 0, &FL);
  __CPROVER_assert(g_w->info.t_1 == t1 && g_w->info.t_inf == tinf && g_w->info.logical_node_counts[g_k < 4 ? g_k : 0] == nc &&
                   g_w->info.logical_edge_counts[g_k] == ec && S.info.cur_node_count == cur,
                   "free_dag: no summary is changed (root and freed nodes alike)");
  int len = 0; dr_dag_node * p = FL.head;
  for (int i = 0; i < 10; i++) if (p) { len++; p = p->next; }
  __CPROVER_assert(p == 0 && len == 9, "free_dag: every descendant is returned to the free list exactly once");
  VERIF_CANARY();
}

/* frame of the real prune: its own stack, cur_node_count of inner nodes, and the effects of collapse (emptied list,
   freed descendants) -- never t_1, t_inf, logical_node_counts, logical_edge_counts */
long prune_frame_contract(dr_prune_nodes_stack * st, dr_dag_node * s, long budget, dr_dag_node_freelist * fl)
  __CPROVER_requires(st == &PS && s == &S && fl == &FL)
  __CPROVER_assigns(st->n, __CPROVER_object_whole(ENT), fl->head, fl->tail,
                    S.info.cur_node_count, S.subgraphs[0], CH[1].info.cur_node_count, CH[1].subgraphs[0],
                    CT[0].info.cur_node_count, CT[0].subgraphs[0])
  __CPROVER_ensures(__CPROVER_return_value == S.info.cur_node_count && S.info.cur_node_count >= 1);

/* collapse_contract (proved for an arbitrary node in job collapse.frame) instantiated at any inner node of the DAG */
void collapse_any_contract(dr_dag_node * s, dr_dag_node_freelist * fl)
  __CPROVER_requires((s == &S || s == &CH[1] || s == &CT[0]) && fl == &FL && IS_SECTION_OR_TASK(s))
  __CPROVER_assigns(s->info.cur_node_count, s->subgraphs[0], fl->head, fl->tail)
  __CPROVER_ensures(s->info.cur_node_count == 1)
  __CPROVER_ensures(s->subgraphs->n == 0 && s->subgraphs->head == 0 && s->subgraphs->tail == 0);

static void prune_case(long budget, int mask, long expect) {
  g_one_worker_mask = mask;
  setup_gs();
  GS.opts.chk_level = 0;                       /* the recursive debug walkers dr_check_*_node_count are not evaluated */
  build_dag10();
  dr_clock_t t1 = g_w->info.t_1, tinf = g_w->info.t_inf;
  long nc = g_w->info.logical_node_counts[g_k < 4 ? g_k : 0], ec = g_w->info.logical_edge_counts[g_k];
  long r = dr_prune_nodes_norec(&PS, &S, budget, &FL);
  __CPROVER_assert(g_w->info.t_1 == t1 && g_w->info.t_inf == tinf, "prune: work and critical path of every node are unchanged");
  __CPROVER_assert(g_w->info.logical_node_counts[g_k < 4 ? g_k : 0] == nc && g_w->info.logical_edge_counts[g_k] == ec,
                   "prune: interval and edge counts of every node are unchanged");
  __CPROVER_assert(PS.n == 0, "prune: its stack is empty again");
  __CPROVER_assert(r == expect && r == S.info.cur_node_count, "prune: returns the number of nodes left materialised (scenario covers the intended contraction)");
}

/* concrete scenarios (budget, which inner nodes ran on a single worker); summaries and the witness stay arbitrary.
   CBMC's symbolic execution does not terminate in useful time when budget / worker sets are symbolic (the stack depth
   becomes symbolic and every push re-allocates symbolically). */
#ifndef PRUNE_SCEN
#define PRUNE_SCEN 1
#endif
void h_prune(void) {        /* one scenario per job: a contract is enforced on a single top-level call */
#if   PRUNE_SCEN == 1
  prune_case(12, 7, 10);  /* within budget: nothing to do */
#elif PRUNE_SCEN == 2
  prune_case(2, 7, 1);    /* far over budget, root collapsable: the whole DAG becomes one node */
#elif PRUNE_SCEN == 3
  prune_case(6, 6, 6);    /* root spans workers: recurse; the created task and the inner section are collapsed */
#elif PRUNE_SCEN == 4
  prune_case(8, 2, 8);    /* only the created task is collapsable */
#elif PRUNE_SCEN == 5
  prune_case(5, 0, 10);   /* nothing collapsable: already minimum */
#else
  prune_case(7, 4, 8);    /* only the inner section is collapsable */
#endif
  VERIF_CANARY();
}
#endif
