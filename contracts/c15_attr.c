/* C15 -- configuration parsing, part 2: environment defaults of the global attributes (src/myth_init_func.h).
 *
 * Functions under contract (real bodies): myth_globalattr_default_stacksize / _guardsize / _num_workers /
 * _bind_workers / _child_first, myth_globalattr_init_body, the ten get/set bodies.
 *
 * The environment is a ghost: for each of the six variables the library knows, "present or not" and "the int that
 * atoi yields for its value" are arbitrary (atoi maps every empty / non-numeric string to 0, so "malformed" is the
 * value 0 or a negative number).  getenv and atoi are stubs over that ghost; the stub of getenv compares the
 * requested NAME character by character with the documented names, so reading the wrong variable is observable.
 *
 * Statement (C15): workers = value if > 0 else CPU count; default stack (guard) size = value if > 0 else the
 * built-in default -- "such values are ignored".  Expected to fail on the unrepaired tree: F5b (negative sizes).
 */
#include "verif_common.h"

enum { V_NUM_WORKERS, V_WORKER_NUM, V_DEF_STKSIZE, V_DEF_GUARDSIZE, V_BIND_WORKERS, V_CHILD_FIRST, V_N };
int  g_present[V_N];      /* variable is set */
int  g_value[V_N];        /* atoi of its value */
char g_text[V_N][2];      /* the object getenv returns for it (contents irrelevant: only atoi looks at it) */
int  g_asked[V_N];        /* getenv was called for it (0/1) */
int  g_unknown_name;      /* getenv was called with a name that is none of the six */
int  g_ncpu;              /* CPU count reported by the OS */
int  g_ncpu_asked;

#include "myth_init_func.h"                       /* the real code */

static int verif_streq(const char * s, const char * lit, unsigned n) {
  for (unsigned k = 0; k < n; k++) if (s[k] != lit[k]) return 0;      /* n = sizeof(literal) <= 19: constant bound */
  return 1;
}
#define NAME_IS(s, lit) verif_streq(s, lit, sizeof(lit))

char * verif_getenv(const char * name) {
  int v = -1;
  if      (NAME_IS(name, "MYTH_NUM_WORKERS"))   v = V_NUM_WORKERS;
  else if (NAME_IS(name, "MYTH_WORKER_NUM"))    v = V_WORKER_NUM;
  else if (NAME_IS(name, "MYTH_DEF_STKSIZE"))   v = V_DEF_STKSIZE;
  else if (NAME_IS(name, "MYTH_DEF_GUARDSIZE")) v = V_DEF_GUARDSIZE;
  else if (NAME_IS(name, "MYTH_BIND_WORKERS"))  v = V_BIND_WORKERS;
  else if (NAME_IS(name, "MYTH_CHILD_FIRST"))   v = V_CHILD_FIRST;
  if (v < 0) { g_unknown_name = 1; return 0; }
  g_asked[v] = 1;
  return g_present[v] ? &g_text[v][0] : 0;
}

int verif_atoi(const char * s) {
  int v = -1;
  if      (s == &g_text[V_NUM_WORKERS][0])   v = V_NUM_WORKERS;
  else if (s == &g_text[V_WORKER_NUM][0])    v = V_WORKER_NUM;
  else if (s == &g_text[V_DEF_STKSIZE][0])   v = V_DEF_STKSIZE;
  else if (s == &g_text[V_DEF_GUARDSIZE][0]) v = V_DEF_GUARDSIZE;
  else if (s == &g_text[V_BIND_WORKERS][0])  v = V_BIND_WORKERS;
  else if (s == &g_text[V_CHILD_FIRST][0])   v = V_CHILD_FIRST;
  __CPROVER_assert(v >= 0, "atoi is applied only to a string obtained from getenv (never to NULL)");
  __CPROVER_assume(v >= 0);
  return g_value[v];
}

/* CPU count: myth_get_n_available_cpus (src/myth_bind_worker.c, = sysconf(_SC_NPROCESSORS_ONLN), body checked in job
   c15.cpulist.consumer) */
int verif_ncpus(void) { g_ncpu_asked = 1; return g_ncpu; }

myth_globalattr_t g_attr;

static void setup_env(void) {
  for (int v = 0; v < V_N; v++) {                 /* constant bound */
    g_present[v] = nondet_int(); __CPROVER_assume(g_present[v] == 0 || g_present[v] == 1);
    g_value[v] = nondet_int();
    g_asked[v] = 0;
  }
  g_unknown_name = 0; g_ncpu_asked = 0;
  g_ncpu = nondet_int();
  __CPROVER_assume(g_ncpu >= 1);                  /* the OS reports at least one CPU */
}

/* the specification, straight from the statement of C15 */
static size_t spec_size(int v, size_t dflt) { return (g_present[v] && g_value[v] > 0) ? (size_t)g_value[v] : dflt; }
static int spec_workers(void) {
  int req = g_present[V_NUM_WORKERS] ? g_value[V_NUM_WORKERS] : (g_present[V_WORKER_NUM] ? g_value[V_WORKER_NUM] : 0);
  return req > 0 ? req : g_ncpu;
}
static int spec_flag(int v, int dflt) { return g_present[v] ? g_value[v] : dflt; }
static int only_asked(int a, int b) {             /* no variable other than a (and b) was consulted */
  for (int v = 0; v < V_N; v++) if (v != a && v != b && g_asked[v]) return 0;
  return !g_unknown_name;
}

void h_default_stacksize(void) {
  setup_env();
  size_t r = myth_globalattr_default_stacksize();
  __CPROVER_assert(r == spec_size(V_DEF_STKSIZE, MYTH_DEF_STACK_SIZE), "default stack size: MYTH_DEF_STKSIZE if > 0, else the built-in default (unset, empty, non-numeric, zero, negative are ignored)");
  __CPROVER_assert(r > 0 && r <= 2147483647, "default stack size: positive and at most INT_MAX");
  __CPROVER_assert(g_asked[V_DEF_STKSIZE] && only_asked(V_DEF_STKSIZE, V_DEF_STKSIZE), "default stack size: reads MYTH_DEF_STKSIZE and nothing else");
  VERIF_CANARY();
}

void h_default_guardsize(void) {
  setup_env();
  size_t r = myth_globalattr_default_guardsize();
  __CPROVER_assert(r == spec_size(V_DEF_GUARDSIZE, MYTH_DEF_GUARD_SIZE), "default guard size: MYTH_DEF_GUARDSIZE if > 0, else the built-in default");
  __CPROVER_assert(r > 0 && r <= 2147483647, "default guard size: positive and at most INT_MAX");
  __CPROVER_assert(g_asked[V_DEF_GUARDSIZE] && only_asked(V_DEF_GUARDSIZE, V_DEF_GUARDSIZE), "default guard size: reads MYTH_DEF_GUARDSIZE and nothing else");
  VERIF_CANARY();
}

void h_default_num_workers(void) {
  setup_env();
  size_t r = myth_globalattr_default_num_workers();
  __CPROVER_assert(r == (size_t)spec_workers(), "default workers: MYTH_NUM_WORKERS (else legacy MYTH_WORKER_NUM) if > 0, else the CPU count");
  __CPROVER_assert(r >= 1 && r <= 2147483647, "default workers: at least one");
  __CPROVER_assert(g_asked[V_NUM_WORKERS] && only_asked(V_NUM_WORKERS, V_WORKER_NUM), "default workers: reads only MYTH_NUM_WORKERS / MYTH_WORKER_NUM");
  __CPROVER_assert(!(g_present[V_NUM_WORKERS] && g_value[V_NUM_WORKERS] > 0) || !g_ncpu_asked, "default workers: a usable request does not depend on the CPU count");
  VERIF_CANARY();
}

void h_default_flags(void) {
  setup_env();
  int bw = (int)myth_globalattr_default_bind_workers();
  __CPROVER_assert(bw == spec_flag(V_BIND_WORKERS, MYTH_DEFAULT_BIND_WORKERS), "bind_workers: MYTH_BIND_WORKERS if set, else the built-in default");
  __CPROVER_assert(g_asked[V_BIND_WORKERS] && only_asked(V_BIND_WORKERS, V_BIND_WORKERS), "bind_workers: reads MYTH_BIND_WORKERS and nothing else");
  g_asked[V_BIND_WORKERS] = 0;
  int cf = (int)myth_globalattr_default_child_first();
  __CPROVER_assert(cf == spec_flag(V_CHILD_FIRST, MYTH_CHILD_FIRST), "child_first: MYTH_CHILD_FIRST if set, else the built-in default");
  __CPROVER_assert(g_asked[V_CHILD_FIRST] && only_asked(V_CHILD_FIRST, V_CHILD_FIRST), "child_first: reads MYTH_CHILD_FIRST and nothing else");
  VERIF_CANARY();
}

static void havoc_attr(myth_globalattr_t * a) {
  a->stacksize = nondet_ulong(); a->guardsize = nondet_ulong(); a->n_workers = nondet_int();
  a->bind_workers = nondet_int(); a->child_first = nondet_int(); a->initialized = nondet_int();
}

/* myth_globalattr_init: EVERY field of an attribute object with arbitrary previous contents gets its default */
void h_attr_init(void) {
  setup_env();
  myth_globalattr_t A;
  havoc_attr(&A);
  int r = myth_globalattr_init_body(&A);
  __CPROVER_assert(r == 0, "globalattr_init: returns 0");
  __CPROVER_assert(A.initialized == 1, "globalattr_init: marks the object initialised");
  /* the two sizes are compared with what the real default functions yield (those against the statement: jobs
     c15.attr.stacksize / guardsize), so that a defect there is reported once, where it lives */
  __CPROVER_assert(A.stacksize == myth_globalattr_default_stacksize(), "globalattr_init: stacksize = default stack size");
  __CPROVER_assert(A.guardsize == myth_globalattr_default_guardsize(), "globalattr_init: guardsize = default guard size");
  __CPROVER_assert(A.n_workers == spec_workers(), "globalattr_init: n_workers = requested workers, else CPU count");
  __CPROVER_assert(A.n_workers >= 1, "globalattr_init: at least one worker");
  __CPROVER_assert(A.bind_workers == spec_flag(V_BIND_WORKERS, MYTH_DEFAULT_BIND_WORKERS), "globalattr_init: bind_workers");
  __CPROVER_assert(A.child_first == spec_flag(V_CHILD_FIRST, MYTH_CHILD_FIRST), "globalattr_init: child_first");
  VERIF_CANARY();
}

/* setters / getters: on a caller's object or (attr == NULL) on the global attributes, which are initialised from the
   environment on first touch; a setter changes exactly its field */
void h_attr_set_get(void) {
  setup_env();
  myth_globalattr_t A, B;
  havoc_attr(&A);
  havoc_attr(&g_attr);
  __CPROVER_assume(g_attr.initialized == 0 || g_attr.initialized == 1);
  _Bool use_global = nondet_bool();
  myth_globalattr_t * attr = use_global ? 0 : &A;
  myth_globalattr_t * tgt  = use_global ? &g_attr : &A;
  _Bool fresh = use_global && !g_attr.initialized;
  B = *tgt;                                     /* before */
  int which = nondet_int();
  __CPROVER_assume(0 <= which && which <= 4);
  size_t sv = nondet_ulong(); int iv = nondet_int();
  size_t so = 0; int io = 0; int r1, r2;
  switch (which) {
  case 0:  r1 = myth_globalattr_set_stacksize_body(attr, sv);    r2 = myth_globalattr_get_stacksize_body(attr, &so);    break;
  case 1:  r1 = myth_globalattr_set_guardsize_body(attr, sv);    r2 = myth_globalattr_get_guardsize_body(attr, &so);    break;
  case 2:  sv = (size_t)(iv < 0 ? 0 : iv);
           r1 = myth_globalattr_set_n_workers_body(attr, sv);    r2 = myth_globalattr_get_n_workers_body(attr, &so);    break;
  case 3:  r1 = myth_globalattr_set_bind_workers_body(attr, iv); r2 = myth_globalattr_get_bind_workers_body(attr, &io); break;
  default: r1 = myth_globalattr_set_child_first_body(attr, iv);  r2 = myth_globalattr_get_child_first_body(attr, &io);  break;
  }
  __CPROVER_assert(r1 == 0 && r2 == 0, "globalattr set/get: return 0");
  __CPROVER_assert(which <= 2 ? so == sv : io == iv, "globalattr: get returns what set stored (n_workers: exactly the number requested)");
  __CPROVER_assert(!(which == 2) || tgt->n_workers == iv || iv < 0, "globalattr: n_workers field holds exactly the requested number");
  if (fresh) {                                  /* the global object was initialised from the environment first */
    __CPROVER_assert(g_attr.initialized == 1, "globalattr: first touch of the global attributes initialises them");
    B.stacksize = myth_globalattr_default_stacksize(); B.guardsize = myth_globalattr_default_guardsize();   /* see h_attr_init */
    B.n_workers = spec_workers(); B.bind_workers = spec_flag(V_BIND_WORKERS, MYTH_DEFAULT_BIND_WORKERS);
    B.child_first = spec_flag(V_CHILD_FIRST, MYTH_CHILD_FIRST); B.initialized = 1;
  }
  __CPROVER_assert(which == 0 || tgt->stacksize == B.stacksize, "globalattr set: stacksize untouched by other setters");
  __CPROVER_assert(which == 1 || tgt->guardsize == B.guardsize, "globalattr set: guardsize untouched by other setters");
  __CPROVER_assert(which == 2 || tgt->n_workers == B.n_workers, "globalattr set: n_workers untouched by other setters");
  __CPROVER_assert(which == 3 || tgt->bind_workers == B.bind_workers, "globalattr set: bind_workers untouched by other setters");
  __CPROVER_assert(which == 4 || tgt->child_first == B.child_first, "globalattr set: child_first untouched by other setters");
  __CPROVER_assert(tgt->initialized == B.initialized, "globalattr set: initialised flag kept");
  VERIF_CANARY();
}
