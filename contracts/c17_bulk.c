/* C17 -- bulk fork-join helpers equal the sequential loop (DESIGN §4 C17).  C half only.
 *
 * Functions under contract (real, unmodified bodies from src/myth_sched_func.h):
 *   myth_create_join_various_ex_aux    recursive halving; --enforce-contract-rec, the syntactic recursive call
 *                                      aux(carg + 1) is replaced by the SAME contract (induction on b - a)
 *   myth_create_join_various_ex_body   against the contract proved for aux
 *   myth_create_join_many_ex_body      against the contract proved for various_ex_body (many = various, func stride 0)
 *
 * The UNIVERSE of one check (assigned once by the harness, in no assigns clause, hence invariant):
 *   five user arrays, each its own dynamic object of SYMBOLIC size (up to 2^50 bytes): ARGS (only addresses are taken),
 *   FUNCS (read), ATTRS (only addresses), RES (written), IDS (written);  g_res / g_ids / g_attrs = base pointer or NULL;  strides g_as, g_fs,
 *   g_ts, g_rs, g_is: args/attrs any, funcs 0 or a multiple of 8, results/ids a non-zero multiple of 8 when given
 *   (aligned, non-overlapping 8-byte slots), every item of [0, g_hb) inside its array; strides and n below 2^31 as
 *   soon as one array is really strided (i*stride does not overflow), n <= LONG_MAX/2 otherwise.
 *   The function table DEFINES f_i: f_{g_w} = F_watch and f_i = F_other for i != g_w (func stride >= 8); the one
 *   shared f = F_watch (func stride 0).  This is a universally quantified fact about user memory that nobody writes;
 *   h_aux assumes its instance at the only slot the call under proof can read itself (slot g_ha, read when the range
 *   is the single item g_ha) -- a weaker hypothesis than the quantified one.
 * Witness g_w >= 0 (chosen before the call; the code cannot see it).  IDENT = (arg stride >= 1 || func stride >= 8):
 *   the call of item g_w is recognisable (by its argument address g_warg = ARGS + g_w*g_as, or by its function).
 *   F_watch / F_other are the user's functions (harness stubs); they only count:
 *     g_count  number of user-function calls                                  -> + (b - a)             exactly n calls
 *     g_calls  number of calls F_watch(g_warg)                                -> + 1 iff a <= g_w < b  (IDENT)
 *     g_bad    F_other got g_warg (arg stride >= 1: item g_w handed to a function that is not f_{g_w}), or
 *              F_watch got another address although only item g_w has it (func stride >= 8)             -> stays 0
 *     g_wid    myth_self() at the instant of the call F_watch(g_warg): the thread that ran item g_w
 *   results: slot g_w == g_ret (what F_watch(g_warg) returned) iff in range, else unchanged;  ids: slot g_w == g_wid.
 *   Frame: guard cells RES[g_grc] / IDS[g_gic], cell g_grc = byte offset g_gri*g_rs + g_grd (0 <= g_grd < g_rs), an
 *   ARBITRARY 8-byte cell of the array: unchanged unless it is the slot of an item of [a, b) (a <= g_gri < b and
 *   g_grd == 0); every cell when the array is not given.  ARGS, FUNCS, ATTRS are in no assigns clause.
 * Threads: myth_create_ex_body / myth_join_body are replaced by contracts (ASSUMED: C01 + induction hypothesis):
 *   create requires func == aux, an argument block satisfying aux's precondition for a STRICTLY SMALLER range, the
 *   attribute slot of the first item of that range (or NULL); it records the child (g_ca, g_cb, token), g_pending + 1.
 *   join requires that token while outstanding, g_pending - 1, and grants aux's postcondition for [g_ca, g_cb):
 *   a created-and-joined thread running aux(arg) has run aux(arg) exactly once, complete when join returns (not before).
 *   The right half runs while the left child is outstanding (g_pending == g_p0 + 1): outstanding children are a counter.
 * Measure: ghost g_in_body is set at the first statement of aux's body (one-line ghost hook put there by a recorded
 *   must-fire rewrite, no other change of the text); a call from inside the body must lie within [g_ha, g_hb) (the
 *   range of the call under proof) and have b - a < g_hb - g_ha: decreases b - a.
 * Arithmetic: the only non-linear facts needed are instances of  x < y && s >= 0 ==> x*s + s <= y*s  (distinct items
 *   have disjoint slots).  SAT cannot prove that beyond ~9 bits; it is proved over the mathematical integers by job
 *   c17.lemma.mono (z3) and its instances for x = g_ha are assumed in h_aux (operands < 2^31: no overflow).
 */
#include "verif_common.h"
#include <limits.h>
#include <stdlib.h>

/* bounds of a STRIDED universe (some array really indexed): item numbers below 2^31, strides below 2^18 bytes; then
   i*stride < 2^49 never overflows and every array fits an object of the model (cbmc --object-bits 12: 2^51 bytes).
   Written on the bits so that the SAT solver sees them by unit propagation. */
#define SMALLN(x) (((unsigned long)(x) >> 31) == 0)
#define SMALLS(x) (((unsigned long)(x) >> 18) == 0)
#define PROD(i, s) ((long)((unsigned long)(i) * (unsigned long)(s)))            /* i*s exactly as the library computes it (long * size_t) */
#define SLACK (1L << 49)                                                         /* an array may be up to 2^49 bytes longer than its last slot */

/* ------------------------------------------------------------------ ghosts */
long   g_w;                            /* witness item */
long   g_ha, g_hb;                     /* range of the call under proof */
int    g_in_body;                      /* 1 from the first statement of aux's body */
size_t g_is, g_ts, g_fs, g_as, g_rs;   /* strides: ids, attrs, funcs, args, results */
void * g_ids, * g_attrs, * g_res;      /* base pointers or NULL */
long   g_count, g_c0; int g_calls, g_bad;
long   g_wrc, g_wic;                   /* cell index of item g_w's result / id slot (0 when there is none) */
void * g_warg, * g_ret, * g_ret_o;
void * g_wid;                          /* thread that ran item g_w */
void * g_self;                         /* what myth_self() returns in the thread under proof */
long   g_p0, g_pending;                /* outstanding children: level of the call under proof / now */
long   g_ca, g_cb;                     /* range of the outstanding child of this level */
long   g_gri, g_grd, g_grc, g_gii, g_gid, g_gic;     /* guard cells: cell g_grc of RES is byte offset g_gri*g_rs + g_grd */

char   RETCELL[2];
char   THR[3];                         /* thread tokens: THR[0] the thread under proof, THR[1] the child of this level, THR[2] deeper ones */

static inline void verif_aux_entered(void) { g_in_body = 1; }

#include "myth_sched_func.h"           /* the real code */

myth_thread_t myth_self(void) { return (myth_thread_t)g_self; }

/* the five user arrays: dynamic objects of SYMBOLIC size (g_na, g_nt bytes; g_nf, g_nr, g_ni cells of 8 bytes), built by setup() */
char          * ARGS;   long g_na;
myth_func_t   * FUNCS;  long g_nf;
char          * ATTRS;  long g_nt;
void         ** RES;    long g_nr;
myth_thread_t * IDS;    long g_ni;

/* ------------------------------------------------------------------ the user's functions */
#define IDENT (g_as >= 1 || g_fs >= 8)
#define STRIDED (g_as != 0 || g_fs != 0 || (g_attrs != 0 && g_ts != 0) || g_res != 0 || g_ids != 0)   /* some array is really indexed: n < 2^31 */
static void * F_watch(void * arg) {
  if (g_count < LONG_MAX) g_count++;
  if (!IDENT) return g_ret;
  if (arg == g_warg) { if (g_calls < 2) g_calls++; g_wid = g_self; return g_ret; }
  if (g_fs >= 8) g_bad = 1;
  return g_ret_o;
}
static void * F_other(void * arg) {
  if (g_count < LONG_MAX) g_count++;
  if (g_as >= 1 && arg == g_warg) g_bad = 1;
  return g_ret_o;
}

/* ------------------------------------------------------------------ specification */
#define MA(p)        ((myth_create_join_various_arg *)(p))
#define RESSLOT      RES[g_wrc]
#define IDSLOT       IDS[g_wic]
#define INR(a, b)    ((a) <= g_w && g_w < (b))
/* instances of the lemma  x < y && s >= 0 ==> x*s + s <= y*s  (job c17.lemma.mono); operands bounded: no overflow */
#define MONO1(x, y, s) ((x) < (y) ==> PROD(x, s) + (long)(s) <= PROD(y, s))
#define MONO(x, y, s)  ((SMALLN(x) && SMALLN(y) && SMALLS(s)) ==> (MONO1(x, y, s) && MONO1(y, x, s) && ((x) == (y) ==> PROD(x, s) == PROD(y, s))))   /* last: congruence, a tautology spelled out for the SAT solver */
/* the argument block of a call of aux describes the universe and a non-empty sub-range */
#define BLOCK_OK(m) \
  (MA(m)->ids == g_ids && MA(m)->attrs == g_attrs && MA(m)->args == (void *)ARGS && MA(m)->results == g_res && \
   MA(m)->id_stride == g_is && MA(m)->attr_stride == g_ts && MA(m)->func_stride == g_fs && \
   MA(m)->arg_stride == g_as && MA(m)->result_stride == g_rs && \
   (g_fs == 0 ? (__CPROVER_r_ok((myth_func_t *)MA(m)->funcs, sizeof(myth_func_t)) && *(myth_func_t *)MA(m)->funcs == F_watch) \
              : MA(m)->funcs == (void *)FUNCS) && \
   g_ha <= MA(m)->a && MA(m)->a < MA(m)->b && MA(m)->b <= g_hb && \
   (STRIDED ==> (SMALLN(MA(m)->a) && SMALLN(MA(m)->b))))
#define GHOSTS_OK \
  (0 <= g_c0 && g_c0 <= LONG_MAX / 2 && g_c0 <= g_count && g_count <= g_c0 + (g_hb - g_ha) && g_bad == 0 && 0 <= g_calls && g_calls <= 1 && \
   g_p0 >= 0 && g_p0 <= LONG_MAX / 2 && g_p0 <= g_pending && g_pending <= g_p0 + 1)
#define SMALLER(a, b) ((b) - (a) < g_hb - g_ha)

/* effect of running every item of [a, b) exactly once, as a list of ensures clauses; OLD(x) = value of x before */
#define RANGE_ENSURES_NP(a, b) \
  __CPROVER_ensures(g_count == OLD(g_count) + ((b) - (a)))                /* 1 exactly b - a user calls */ \
  __CPROVER_ensures(g_bad == 0)                                           /* 2 no item's argument given to another item's function */ \
  __CPROVER_ensures(g_calls == OLD(g_calls) + ((IDENT && INR(a, b)) ? 1 : 0))   /* 3 item g_w: exactly once iff in range */ \
  __CPROVER_ensures((IDENT && !INR(a, b)) ==> g_wid == OLD(g_wid))        /* 4 */ \
  __CPROVER_ensures(g_res != 0 && g_w < g_hb ==> RESSLOT == (INR(a, b) ? g_ret : OLD(RESSLOT)))      /* 5 result slot */ \
  __CPROVER_ensures(g_ids != 0 && g_w < g_hb ==> (INR(a, b) ? (IDENT ? (void *)IDSLOT == g_wid : 1) && IDSLOT != 0 : IDSLOT == OLD(IDSLOT)))  /* 6 id slot */ \
  __CPROVER_ensures((g_res == 0 || !((a) <= g_gri && g_gri < (b) && g_grd == 0)) ==> RES[g_grc] == OLD(RES[g_grc]))   /* 7 frame of results */ \
  __CPROVER_ensures((g_ids == 0 || !((a) <= g_gii && g_gii < (b) && g_gid == 0)) ==> IDS[g_gic] == OLD(IDS[g_gic]))   /* 8 frame of ids */

#define RANGE_ENSURES(a, b) RANGE_ENSURES_NP(a, b) \
  __CPROVER_ensures(g_pending == OLD(g_pending))                          /* 9 every child joined */
#define OLD(x) __CPROVER_old(x)

/* frame: the two output arrays when given (which bytes: closed by the guard bytes of RANGE_POST, an arbitrary byte each) */
#define RANGE_ASSIGNS \
   g_count, g_calls, g_bad, g_wid, g_pending, g_ca, g_cb; \
   g_res != 0: __CPROVER_object_whole(RES); \
   g_ids != 0: __CPROVER_object_whole(IDS)

void * aux_contract(void * meta_arg_)
  __CPROVER_requires(GHOSTS_OK)
  __CPROVER_requires(__CPROVER_r_ok(MA(meta_arg_), sizeof(myth_create_join_various_arg)))
  __CPROVER_requires(BLOCK_OK(meta_arg_))
  /* decreases b - a: the call under proof has the range [g_ha, g_hb); every call from inside its body is strictly smaller */
  __CPROVER_requires(g_in_body == 0 ? (MA(meta_arg_)->a == g_ha && MA(meta_arg_)->b == g_hb && g_pending == g_p0)
                                    : SMALLER(MA(meta_arg_)->a, MA(meta_arg_)->b))
  __CPROVER_requires(g_count + (MA(meta_arg_)->b - MA(meta_arg_)->a) <= g_c0 + (g_hb - g_ha))
  __CPROVER_assigns(g_in_body; RANGE_ASSIGNS)
  __CPROVER_ensures(__CPROVER_return_value == 0 && g_in_body == 1)
  RANGE_ENSURES(OLD(MA(meta_arg_)->a), OLD(MA(meta_arg_)->b))
  /* the child record of the level under proof is not touched by deeper levels (they keep their own) */
  __CPROVER_ensures(OLD(g_in_body) == 1 ==> (g_ca == OLD(g_ca) && g_cb == OLD(g_cb)));

/* ASSUMED (C01 + induction hypothesis): see header.  The child's effect is granted at join, not before. */
int create_contract(myth_thread_t * id, myth_thread_attr_t * attr, myth_func_t func, void * arg)
  __CPROVER_requires(GHOSTS_OK && g_in_body == 1)
  __CPROVER_requires(__CPROVER_w_ok(id, sizeof(myth_thread_t)))
  __CPROVER_requires(func == myth_create_join_various_ex_aux)
  __CPROVER_requires(__CPROVER_r_ok(MA(arg), sizeof(myth_create_join_various_arg)) && BLOCK_OK(arg))
  __CPROVER_requires(SMALLER(MA(arg)->a, MA(arg)->b))
  __CPROVER_requires(g_pending == g_p0)                                    /* this level has no child outstanding */
  __CPROVER_requires(attr == (g_attrs ? (myth_thread_attr_t *)(ATTRS + PROD(MA(arg)->a, g_ts)) : (myth_thread_attr_t *)0))
  __CPROVER_assigns(*id, g_pending, g_ca, g_cb)
  __CPROVER_ensures(__CPROVER_return_value == 0 && *id == (myth_thread_t)&THR[1])
  __CPROVER_ensures(g_pending == g_p0 + 1 && g_ca == OLD(MA(arg)->a) && g_cb == OLD(MA(arg)->b));

int join_contract(myth_thread_t th, void ** result)
  __CPROVER_requires(GHOSTS_OK && g_in_body == 1)
  __CPROVER_requires(th == (myth_thread_t)&THR[1] && g_pending == g_p0 + 1)   /* the outstanding child, once */
  __CPROVER_requires(result == 0)
  __CPROVER_requires(g_ha <= g_ca && g_ca < g_cb && g_cb <= g_hb && g_count + (g_cb - g_ca) <= g_c0 + (g_hb - g_ha))
  __CPROVER_assigns(RANGE_ASSIGNS)
  __CPROVER_ensures(__CPROVER_return_value == 0)
  __CPROVER_ensures(g_ca == OLD(g_ca) && g_cb == OLD(g_cb))
  RANGE_ENSURES_NP(OLD(g_ca), OLD(g_cb))
  __CPROVER_ensures((IDENT && INR(g_ca, g_cb)) ==> (g_wid == (void *)&THR[1] || g_wid == (void *)&THR[2]))
  __CPROVER_ensures(g_pending == g_p0);

/* the two public bodies: the sequential loop over [0, nthreads) */
#define PARAMS_OK \
  ((void *)ids == g_ids && (void *)attrs == g_attrs && args == (void *)ARGS && results == g_res && \
   id_stride == g_is && attr_stride == g_ts && arg_stride == g_as && result_stride == g_rs && \
   nthreads == g_hb && g_ha == 0 && g_in_body == 0 && g_pending == g_p0 && g_count == g_c0)
int various_contract(myth_thread_t * ids, myth_thread_attr_t * attrs, myth_func_t * funcs, void * args, void * results,
                     size_t id_stride, size_t attr_stride, size_t func_stride, size_t arg_stride, size_t result_stride,
                     long nthreads)
  __CPROVER_requires(GHOSTS_OK && PARAMS_OK && func_stride == g_fs)
  __CPROVER_requires(g_fs == 0 ? (__CPROVER_r_ok(funcs, sizeof(myth_func_t)) && *funcs == F_watch) : funcs == (myth_func_t *)FUNCS)
  __CPROVER_assigns(g_in_body; RANGE_ASSIGNS)
  __CPROVER_ensures(__CPROVER_return_value == 0)
  RANGE_ENSURES(0, g_hb);

int many_contract(myth_thread_t * ids, myth_thread_attr_t * attrs, myth_func_t func, void * args, void * results,
                  size_t id_stride, size_t attr_stride, size_t arg_stride, size_t result_stride, long nthreads)
  __CPROVER_requires(GHOSTS_OK && PARAMS_OK && g_fs == 0 && func == F_watch)
  __CPROVER_assigns(g_in_body; RANGE_ASSIGNS)
  __CPROVER_ensures(__CPROVER_return_value == 0)
  RANGE_ENSURES(0, g_hb);

/* keep every contract-replaced function referenced */
int (*keep_create)(myth_thread_t *, myth_thread_attr_t *, myth_func_t, void *) = myth_create_ex_body;
int (*keep_join)(myth_thread_t, void **) = myth_join_body;
void * (*keep_aux)(void *) = myth_create_join_various_ex_aux;

/* ------------------------------------------------------------------ harness: the universe, built constructively */
myth_create_join_various_arg H_ARG;

/* Two universes (one set of jobs each):
     UNI == 1  strided: item numbers below 2^31, strides below 2^18 bytes -- chosen as ZERO-EXTENDED narrow values, so that
               the upper bits of every multiplication operand are constants and CBMC builds 31x18-bit multipliers;
     UNI == 0  degenerate: every stride 0, no results / ids array: n up to LONG_MAX/2. */
#ifndef UNI
#define UNI 1
#endif
static long pick_index(void) {
#if UNI
  return (long)(nondet_unsigned() >> 1);
#else
  long v = nondet_long(); __CPROVER_assume(0 <= v && v <= LONG_MAX / 2); return v;
#endif
}
static size_t pick_stride(_Bool zero_ok, _Bool cells) {
#ifdef FIXSTRIDE
  return cells ? 16 : 24;
#elif UNI
  unsigned r = nondet_unsigned();
  size_t st = cells ? (size_t)((r >> 17) << 3) : (size_t)(r >> 14);
  __CPROVER_assume(zero_ok || st != 0);
  return st;
#else
  return 0;
#endif
}
/* bytes needed by an array whose items of w bytes lie st bytes apart (st: one of the stride ghosts, used when `given`),
   plus arbitrary slack.  A macro, so that every product is the same expression over the same ghosts: CBMC then
   builds ONE multiplier for it (two multipliers over equal-but-distinct inputs are a hard SAT problem) */
#define NEED(given, st, w) (((given) && (st) != 0 && g_hb != 0) ? SPROD(g_hb - 1, st) + (w) : (w))
static long pick_slack(void) {
  long extra = nondet_long();
  __CPROVER_assume(0 <= extra && extra <= SLACK);
  return extra;
}
#ifdef NOPROD
long nondet_long(void);
#define SPROD(i, s) (nondet_long())
#else
#define SPROD(i, s) PROD(i, s)
#endif
static void setup(void) {
  /* strides: args / attrs any; funcs 0 (one shared function) or aligned cells; results / ids aligned cells */
  _Bool with_attrs = nondet_bool();
#if UNI
  _Bool with_ids = nondet_bool(), with_res = nondet_bool();
#else
  _Bool with_ids = 0, with_res = 0;
#endif
  g_as = pick_stride(1, 0); g_fs = pick_stride(1, 1); g_ts = pick_stride(1, 0);
  g_rs = pick_stride(!with_res, 1); g_is = pick_stride(!with_ids, 1);
  /* range of the call under proof and witness */
  g_ha = pick_index(); g_hb = pick_index(); g_w = pick_index();
  __CPROVER_assume(g_ha <= g_hb);
  /* user memory: five dynamic objects of symbolic size (malloc(n * sizeof(T)) gives an array of n cells of type T) */
  g_na = NEED(1, g_as, 1) + pick_slack(); g_nt = NEED(with_attrs, g_ts, 1) + pick_slack();
  g_nf = (NEED(1, g_fs, 8) + pick_slack()) / 8 + 1; g_nr = (NEED(with_res, g_rs, 8) + pick_slack()) / 8 + 1;
  g_ni = (NEED(with_ids, g_is, 8) + pick_slack()) / 8 + 1;
  ARGS = malloc((size_t)g_na); ATTRS = malloc((size_t)g_nt);
  FUNCS = malloc((size_t)g_nf * sizeof(myth_func_t)); RES = malloc((size_t)g_nr * sizeof(void *)); IDS = malloc((size_t)g_ni * sizeof(myth_thread_t));
  __CPROVER_assume(ARGS != 0 && ATTRS != 0 && FUNCS != 0 && RES != 0 && IDS != 0);
  g_ids = with_ids ? (void *)IDS : 0; g_attrs = with_attrs ? (void *)ATTRS : 0; g_res = with_res ? (void *)RES : 0;
  /* witness item: its argument address and its cells */
  _Bool w_in = g_w < g_hb;
  g_warg = w_in ? (void *)(ARGS + SPROD(g_w, g_as)) : 0;
  g_wrc = (w_in && with_res) ? SPROD(g_w, g_rs) / 8 : 0;
  g_wic = (w_in && with_ids) ? SPROD(g_w, g_is) / 8 : 0;
  /* lemma instances: the witness lies below the last item */
  if (w_in) __CPROVER_assume(MONO(g_w, g_hb - 1, g_as) && MONO(g_w, g_hb - 1, g_rs) && MONO(g_w, g_hb - 1, g_is));
  /* cut: the witness cells lie inside the arrays (proved here once from the lemma instances, then used as a fact) */
  __CPROVER_assert(0 <= g_wrc && g_wrc < g_nr && 0 <= g_wic && g_wic < g_ni, "C17 universe: the slots of the witness item lie inside the arrays");
  __CPROVER_assume(0 <= g_wrc && g_wrc < g_nr && 0 <= g_wic && g_wic < g_ni);
  /* guard cells: any cell of RES / IDS, written as (item number, offset within the stride) */
  g_gri = g_grd = g_gii = g_gid = 0; g_grc = nondet_long(); g_gic = nondet_long();
  if (with_res) {
    g_gri = pick_index(); g_grd = (long)pick_stride(1, 1);
    __CPROVER_assume(g_grd < (long)g_rs);
    g_grc = (SPROD(g_gri, g_rs) + g_grd) / 8;
  }
  if (with_ids) {
    g_gii = pick_index(); g_gid = (long)pick_stride(1, 1);
    __CPROVER_assume(g_gid < (long)g_is);
    g_gic = (SPROD(g_gii, g_is) + g_gid) / 8;
  }
  __CPROVER_assume(0 <= g_grc && g_grc < g_nr && 0 <= g_gic && g_gic < g_ni);
  /* what the user's functions return, who we are, counters */
  g_ret = nondet_bool() ? (void *)&RETCELL[0] : 0;
  g_ret_o = g_ret ? (nondet_bool() ? (void *)&RETCELL[1] : 0) : (void *)&RETCELL[1];
  g_self = (void *)&THR[0];
  g_wid = 0; g_calls = 0; g_bad = 0; g_in_body = 0; g_ca = 0; g_cb = 0;
  g_p0 = nondet_long(); __CPROVER_assume(0 <= g_p0 && g_p0 <= LONG_MAX / 2); g_pending = g_p0;
  g_c0 = nondet_long(); __CPROVER_assume(0 <= g_c0 && g_c0 <= LONG_MAX / 2); g_count = g_c0;
  /* ARGS / FUNCS / ATTRS / RES / IDS: arbitrary content (fresh dynamic objects are nondet) */
}

#define FUNCSLOT(i) (FUNCS[PROD(i, g_fs) / 8])
void h_aux(void) {
  setup();
  __CPROVER_assume(g_ha < g_hb);
  /* lemma instances (distinct items have disjoint slots; the last item bounds every item) */
#ifndef NOMONO
  __CPROVER_assume(MONO(g_ha, g_hb - 1, g_fs) && MONO(g_ha, g_hb - 1, g_rs) && MONO(g_ha, g_hb - 1, g_is));
  __CPROVER_assume(g_w < g_hb ==> (MONO(g_ha, g_w, g_as) && MONO(g_ha, g_w, g_rs) && MONO(g_ha, g_w, g_is)));
  __CPROVER_assume(MONO(g_ha, g_gri, g_rs) && MONO(g_ha, g_gii, g_is));
#endif
  /* f_i is what the table holds (definition); instance for the one slot this call can read itself */
  __CPROVER_assume(FUNCSLOT(g_ha) == ((g_fs == 0 || g_ha == g_w) ? F_watch : F_other));
  H_ARG.ids = g_ids; H_ARG.attrs = g_attrs; H_ARG.funcs = (void *)FUNCS; H_ARG.args = (void *)ARGS; H_ARG.results = g_res;
  H_ARG.id_stride = g_is; H_ARG.attr_stride = g_ts; H_ARG.func_stride = g_fs; H_ARG.arg_stride = g_as; H_ARG.result_stride = g_rs;
  H_ARG.a = g_ha; H_ARG.b = g_hb;
  myth_create_join_various_ex_aux(&H_ARG);
  VERIF_CANARY();
}

void h_various(void) {
  setup();
  __CPROVER_assume(g_ha == 0);
  myth_create_join_various_ex_body((myth_thread_t *)g_ids, (myth_thread_attr_t *)g_attrs, (myth_func_t *)FUNCS, (void *)ARGS, g_res,
                                   g_is, g_ts, g_fs, g_as, g_rs, g_hb);
  VERIF_CANARY();
}

void h_many(void) {
  setup();
  __CPROVER_assume(g_ha == 0 && g_fs == 0);
  myth_create_join_many_ex_body((myth_thread_t *)g_ids, (myth_thread_attr_t *)g_attrs, F_watch, (void *)ARGS, g_res,
                                g_is, g_ts, g_as, g_rs, g_hb);
  VERIF_CANARY();
}

/* the arithmetic lemma behind MONO, over the mathematical integers (SMT back end) */
__CPROVER_integer nondet_integer(void);
void h_lemma_mono(void) {
  __CPROVER_integer x = nondet_integer(), y = nondet_integer(), st = nondet_integer();
  __CPROVER_assume(0 <= x && x < y && st >= 0);
  __CPROVER_assert(x * st + st <= y * st, "C17 lemma: x < y and s >= 0 imply x*s + s <= y*s (slots of distinct items are disjoint)");
  VERIF_CANARY();
}
