/* C17 -- bulk fork-join helpers equal the sequential loop (DESIGN §4 C17).  C half only.
 *
 * Functions under contract (real, unmodified bodies from src/myth_sched_func.h):
 *   myth_create_join_various_ex_aux    recursive halving; --enforce-contract-rec, the syntactic recursive call
 *                                      aux(carg + 1) is replaced by the SAME contract (induction on b - a)
 *   myth_create_join_various_ex_body   against the contract proved for aux
 *   myth_create_join_many_ex_body      against the contract proved for various_ex_body (many = various, func stride 0)
 *
 * The UNIVERSE of one check (assigned once by the harness, in no assigns clause, hence invariant):
 *   five user arrays, each its own object of ASZ bytes: ARGS (only addresses are taken), FUNCS (read), ATTRS (only
 *   addresses), RES (written), IDS (written);  g_res / g_ids / g_attrs = base pointer or NULL;  strides g_as, g_fs,
 *   g_ts, g_rs, g_is: args/attrs any, funcs 0 or >= 8, results/ids >= 8 when given (slots do not overlap), every
 *   item of [0, g_hb) inside its array.
 *   The function table DEFINES f_i: f_{g_w} = F_watch and f_i = F_other for i != g_w (func stride >= 8); the one
 *   shared f = F_watch (func stride 0).  This is a universally quantified fact about user memory that nobody writes;
 *   h_aux assumes its instance at the only slot the call under proof can read itself (slot g_ha, read when the range
 *   is the single item g_ha) -- a weaker hypothesis than the quantified one.
 * Witness g_w >= 0 (chosen before the call; the code cannot see it).  IDENT = (arg stride >= 1 || func stride >= 8):
 *   the call of item g_w is recognisable (by its argument address g_warg = ARGS + g_w*g_as, or by its function).
 *   F_watch / F_other are the user's functions (harness stubs); they only count:
 *     g_count  number of user-function calls                                  -> + (b - a)             exactly n calls
 *     g_calls  number of calls F_watch(g_warg)                                -> + 1 iff a <= g_w < b  (IDENT)
 *     g_bad    F_other got g_warg (arg stride >= 1: item g_w handed to a function that is not f_{g_w}), or
 *              F_watch got another address although only item g_w has it (func stride >= 8)             -> stays 0
 *     g_wid    myth_self() at the instant of the call F_watch(g_warg): the thread that ran item g_w
 *   results: slot g_w == g_ret (what F_watch(g_warg) returned) iff in range, else unchanged;  ids: slot g_w == g_wid.
 *   Frame: guard bytes RES[g_gro] / IDS[g_gio] with g_gro = g_gri*g_rs + g_grd (0 <= g_grd < g_rs) an ARBITRARY byte of
 *   the array: unchanged unless it lies in the slot of an item of [a, b) (a <= g_gri < b and g_grd < 8); every byte
 *   when the array is not given.  ARGS, FUNCS, ATTRS are in no assigns clause.
 * Threads: myth_create_ex_body / myth_join_body are replaced by contracts (ASSUMED: C01 + induction hypothesis):
 *   create requires func == aux, an argument block satisfying aux's precondition for a STRICTLY SMALLER range, the
 *   attribute slot of the first item of that range (or NULL); it records the child (g_ca, g_cb, token), g_pending + 1.
 *   join requires that token while outstanding, g_pending - 1, and grants aux's postcondition for [g_ca, g_cb):
 *   a created-and-joined thread running aux(arg) has run aux(arg) exactly once, complete when join returns (not before).
 *   The right half runs while the left child is outstanding (g_pending == g_p0 + 1): outstanding children are a counter.
 * Measure: ghost g_in_body is set at the first statement of aux's body (one-line ghost hook put there by a recorded
 *   must-fire rewrite, no other change of the text); a call from inside the body must lie within [g_ha, g_hb) (the
 *   range of the call under proof) and have b - a < g_hb - g_ha: decreases b - a.
 * Arithmetic: the only non-linear facts needed are instances of  x < y && s >= 0 ==> x*s + s <= y*s  (distinct items
 *   have disjoint slots).  SAT cannot prove that beyond ~9 bits; it is proved over the mathematical integers by job
 *   c17.lemma.mono (z3) and its instances for x = g_ha are assumed in h_aux (operands < 2^31: no overflow).
 */
#include "verif_common.h"
#include <limits.h>
#include <stdlib.h>

#ifndef ASZ
#define ASZ (1L << 30)                 /* size in bytes of each user array (the harness memory; see units/c17.py) */
#endif
#define SMALL(x) (((unsigned long)(x) & ~(unsigned long)(2 * ASZ - 1)) == 0)   /* bit-level form of 0 <= x < 2*ASZ: products of two such values do not overflow */
#define PROD(i, s) ((long)((unsigned long)(i) * (unsigned long)(s)))            /* i*s exactly as the library computes it (long * size_t) */

/* ------------------------------------------------------------------ ghosts */
long   g_w;                            /* witness item */
long   g_ha, g_hb;                     /* range of the call under proof */
int    g_in_body;                      /* 1 from the first statement of aux's body */
size_t g_is, g_ts, g_fs, g_as, g_rs;   /* strides: ids, attrs, funcs, args, results */
void * g_ids, * g_attrs, * g_res;      /* base pointers or NULL */
long   g_count, g_c0; int g_calls, g_bad;
long   g_wro, g_wio;                   /* byte offset of item g_w's result / id slot (0 when there is none) */
void * g_warg, * g_ret, * g_ret_o;
void * g_wid;                          /* thread that ran item g_w */
void * g_self;                         /* what myth_self() returns in the thread under proof */
long   g_p0, g_pending;                /* outstanding children: level of the call under proof / now */
long   g_ca, g_cb;                     /* range of the outstanding child of this level */
long   g_gri, g_grd, g_gro, g_gii, g_gid, g_gio;     /* guard bytes */

char   ARGS[ASZ];
char   FUNCS[ASZ];
char   ATTRS[ASZ];
char   RES[ASZ];
char   IDS[ASZ];
char   RETCELL[2];
char   THR[3];                         /* thread tokens: THR[0] the thread under proof, THR[1] the child of this level, THR[2] deeper ones */

static inline void verif_aux_entered(void) { g_in_body = 1; }

#include "myth_sched_func.h"           /* the real code */

myth_thread_t myth_self(void) { return (myth_thread_t)g_self; }

/* ------------------------------------------------------------------ the user's functions */
#define IDENT (g_as >= 1 || g_fs >= 8)
#define STRIDED (g_as != 0 || g_fs != 0 || (g_attrs != 0 && g_ts != 0) || g_res != 0 || g_ids != 0)   /* some array is really indexed: n <= ASZ */
static void * F_watch(void * arg) {
  if (g_count < LONG_MAX) g_count++;
  if (!IDENT) return g_ret;
  if (arg == g_warg) { if (g_calls < 2) g_calls++; g_wid = g_self; return g_ret; }
  if (g_fs >= 8) g_bad = 1;
  return g_ret_o;
}
static void * F_other(void * arg) {
  if (g_count < LONG_MAX) g_count++;
  if (g_as >= 1 && arg == g_warg) g_bad = 1;
  return g_ret_o;
}

/* ------------------------------------------------------------------ specification */
#define MA(p)        ((myth_create_join_various_arg *)(p))
#define SLOT8(base, off) (*(void **)((char *)(base) + (off)))
#define RESSLOT      SLOT8(RES, g_wro)
#define IDSLOT       SLOT8(IDS, g_wio)
#define INR(a, b)    ((a) <= g_w && g_w < (b))
#define STRIDE_OK(s, min)  ((s) >= (min) && (s) <= ASZ && SMALL(s))
/* the universe is well formed: every item of [0, g_hb) has its slots inside the arrays; slots of results / ids / funcs
   are aligned cells of 8 bytes that do not overlap (stride >= 8, multiple of 8) */
#define FITS(s, w)   ((s) == 0 || (1 <= g_hb && g_hb <= ASZ && SMALL(g_hb) && SMALL(g_ha) && SMALL(s) && PROD(g_hb - 1, s) + (w) <= ASZ))
#define CONFIG_OK \
  (0 <= g_ha && g_ha <= g_hb && g_hb <= LONG_MAX / 2 && 0 <= g_w && \
   (g_hb == 0 || ( \
   g_as <= ASZ && FITS(g_as, 1) && \
   (g_fs == 0 || STRIDE_OK(g_fs, 8)) && FITS(g_fs, 8) && \
   (g_attrs == 0 || (g_ts <= ASZ && FITS(g_ts, 1))) && \
   (g_res == 0 || (STRIDE_OK(g_rs, 8) && FITS(g_rs, 8))) && \
   (g_ids == 0 || (STRIDE_OK(g_is, 8) && FITS(g_is, 8))))) && \
   (g_attrs == 0 || g_attrs == (void *)ATTRS) && (g_res == 0 || g_res == (void *)RES) && (g_ids == 0 || g_ids == (void *)IDS) && \
   g_warg == (g_w < g_hb ? (g_as == 0 ? (void *)ARGS : (void *)(ARGS + PROD(g_w, g_as))) : (void *)0) && \
   g_wro == ((g_w < g_hb && g_res != 0) ? PROD(g_w, g_rs) : 0) && g_wio == ((g_w < g_hb && g_ids != 0) ? PROD(g_w, g_is) : 0) && \
   0 <= g_gro && g_gro < ASZ && 0 <= g_gio && g_gio < ASZ && 0 <= g_gri && 0 <= g_grd && 0 <= g_gii && 0 <= g_gid && \
   (g_res != 0 && g_hb != 0 ==> (g_grd < (long)g_rs && g_gri <= ASZ && SMALL(g_gri) && g_gro == PROD(g_gri, g_rs) + g_grd)) && \
   (g_ids != 0 && g_hb != 0 ==> (g_gid < (long)g_is && g_gii <= ASZ && SMALL(g_gii) && g_gio == PROD(g_gii, g_is) + g_gid)) && \
   g_ret != g_ret_o && g_self == (void *)&THR[0])
/* instances of the lemma  x < y && s >= 0 ==> x*s + s <= y*s  (job c17.lemma.mono) for operands below 2*ASZ = 2^31 */
#define MONO1(x, y, s) ((x) < (y) ==> PROD(x, s) + (long)(s) <= PROD(y, s))
#define MONO(x, y, s)  ((SMALL(x) && SMALL(y) && SMALL(s)) ==> (MONO1(x, y, s) && MONO1(y, x, s)))
/* the argument block of a call of aux describes the universe and a non-empty sub-range */
#define BLOCK_OK(m) \
  (MA(m)->ids == g_ids && MA(m)->attrs == g_attrs && MA(m)->args == (void *)ARGS && MA(m)->results == g_res && \
   MA(m)->id_stride == g_is && MA(m)->attr_stride == g_ts && MA(m)->func_stride == g_fs && \
   MA(m)->arg_stride == g_as && MA(m)->result_stride == g_rs && \
   (g_fs == 0 ? (__CPROVER_r_ok((myth_func_t *)MA(m)->funcs, sizeof(myth_func_t)) && *(myth_func_t *)MA(m)->funcs == F_watch) \
              : MA(m)->funcs == (void *)FUNCS) && \
   g_ha <= MA(m)->a && MA(m)->a < MA(m)->b && MA(m)->b <= g_hb && \
   (STRIDED ==> (SMALL(MA(m)->a) && SMALL(MA(m)->b))))
#define GHOSTS_OK \
  (0 <= g_c0 && g_c0 <= LONG_MAX / 2 && g_c0 <= g_count && g_count <= g_c0 + (g_hb - g_ha) && g_bad == 0 && 0 <= g_calls && g_calls <= 1 && \
   g_p0 >= 0 && g_p0 <= LONG_MAX / 2 && g_p0 <= g_pending && g_pending <= g_p0 + 1)
#define SMALLER(a, b) ((b) - (a) < g_hb - g_ha)

/* effect of running every item of [a, b) exactly once, as a list of ensures clauses; OLD(x) = value of x before */
#define RANGE_ENSURES_NP(a, b) \
  __CPROVER_ensures(g_count == OLD(g_count) + ((b) - (a)))                /* 1 exactly b - a user calls */ \
  __CPROVER_ensures(g_bad == 0)                                           /* 2 no item's argument given to another item's function */ \
  __CPROVER_ensures(g_calls == OLD(g_calls) + ((IDENT && INR(a, b)) ? 1 : 0))   /* 3 item g_w: exactly once iff in range */ \
  __CPROVER_ensures((IDENT && !INR(a, b)) ==> g_wid == OLD(g_wid))        /* 4 */ \
  __CPROVER_ensures(g_res != 0 && g_w < g_hb ==> RESSLOT == (INR(a, b) ? g_ret : OLD(RESSLOT)))      /* 5 result slot */ \
  __CPROVER_ensures(g_ids != 0 && g_w < g_hb ==> (INR(a, b) ? (IDENT ? IDSLOT == g_wid : 1) && IDSLOT != 0 : IDSLOT == OLD(IDSLOT)))  /* 6 id slot */ \
  __CPROVER_ensures((g_res == 0 || !((a) <= g_gri && g_gri < (b) && g_grd < 8)) ==> RES[g_gro] == OLD(RES[g_gro]))   /* 7 frame of results */ \
  __CPROVER_ensures((g_ids == 0 || !((a) <= g_gii && g_gii < (b) && g_gid < 8)) ==> IDS[g_gio] == OLD(IDS[g_gio]))   /* 8 frame of ids */

#define RANGE_ENSURES(a, b) RANGE_ENSURES_NP(a, b) \
  __CPROVER_ensures(g_pending == OLD(g_pending))                          /* 9 every child joined */
#define OLD(x) __CPROVER_old(x)

/* frame: the two output arrays when given (which bytes: closed by the guard bytes of RANGE_POST, an arbitrary byte each) */
#define RANGE_ASSIGNS \
   g_count, g_calls, g_bad, g_wid, g_pending, g_ca, g_cb; \
   g_res != 0: __CPROVER_object_whole(RES); \
   g_ids != 0: __CPROVER_object_whole(IDS)

void * aux_contract(void * meta_arg_)
  __CPROVER_requires(GHOSTS_OK)
  __CPROVER_requires(__CPROVER_r_ok(MA(meta_arg_), sizeof(myth_create_join_various_arg)))
  __CPROVER_requires(BLOCK_OK(meta_arg_))
  /* decreases b - a: the call under proof has the range [g_ha, g_hb); every call from inside its body is strictly smaller */
  __CPROVER_requires(g_in_body == 0 ? (MA(meta_arg_)->a == g_ha && MA(meta_arg_)->b == g_hb && g_pending == g_p0)
                                    : SMALLER(MA(meta_arg_)->a, MA(meta_arg_)->b))
  __CPROVER_requires(g_count + (MA(meta_arg_)->b - MA(meta_arg_)->a) <= g_c0 + (g_hb - g_ha))
  __CPROVER_assigns(g_in_body; RANGE_ASSIGNS)
  __CPROVER_ensures(__CPROVER_return_value == 0 && g_in_body == 1)
  RANGE_ENSURES(OLD(MA(meta_arg_)->a), OLD(MA(meta_arg_)->b))
  /* the child record of the level under proof is not touched by deeper levels (they keep their own) */
  __CPROVER_ensures(OLD(g_in_body) == 1 ==> (g_ca == OLD(g_ca) && g_cb == OLD(g_cb)));

/* ASSUMED (C01 + induction hypothesis): see header.  The child's effect is granted at join, not before. */
int create_contract(myth_thread_t * id, myth_thread_attr_t * attr, myth_func_t func, void * arg)
  __CPROVER_requires(GHOSTS_OK && g_in_body == 1)
  __CPROVER_requires(__CPROVER_w_ok(id, sizeof(myth_thread_t)))
  __CPROVER_requires(func == myth_create_join_various_ex_aux)
  __CPROVER_requires(__CPROVER_r_ok(MA(arg), sizeof(myth_create_join_various_arg)) && BLOCK_OK(arg))
  __CPROVER_requires(SMALLER(MA(arg)->a, MA(arg)->b))
  __CPROVER_requires(g_pending == g_p0)                                    /* this level has no child outstanding */
  __CPROVER_requires(attr == (g_attrs ? (myth_thread_attr_t *)(ATTRS + PROD(MA(arg)->a, g_ts)) : (myth_thread_attr_t *)0))
  __CPROVER_assigns(*id, g_pending, g_ca, g_cb)
  __CPROVER_ensures(__CPROVER_return_value == 0 && *id == (myth_thread_t)&THR[1])
  __CPROVER_ensures(g_pending == g_p0 + 1 && g_ca == OLD(MA(arg)->a) && g_cb == OLD(MA(arg)->b));

int join_contract(myth_thread_t th, void ** result)
  __CPROVER_requires(GHOSTS_OK && g_in_body == 1)
  __CPROVER_requires(th == (myth_thread_t)&THR[1] && g_pending == g_p0 + 1)   /* the outstanding child, once */
  __CPROVER_requires(result == 0)
  __CPROVER_requires(g_ha <= g_ca && g_ca < g_cb && g_cb <= g_hb && g_count + (g_cb - g_ca) <= g_c0 + (g_hb - g_ha))
  __CPROVER_assigns(RANGE_ASSIGNS)
  __CPROVER_ensures(__CPROVER_return_value == 0)
  __CPROVER_ensures(g_ca == OLD(g_ca) && g_cb == OLD(g_cb))
  RANGE_ENSURES_NP(OLD(g_ca), OLD(g_cb))
  __CPROVER_ensures((IDENT && INR(g_ca, g_cb)) ==> (g_wid == (void *)&THR[1] || g_wid == (void *)&THR[2]))
  __CPROVER_ensures(g_pending == g_p0);

/* the two public bodies: the sequential loop over [0, nthreads) */
#define PARAMS_OK \
  ((void *)ids == g_ids && (void *)attrs == g_attrs && args == (void *)ARGS && results == g_res && \
   id_stride == g_is && attr_stride == g_ts && arg_stride == g_as && result_stride == g_rs && \
   nthreads == g_hb && g_ha == 0 && g_in_body == 0 && g_pending == g_p0 && g_count == g_c0)
int various_contract(myth_thread_t * ids, myth_thread_attr_t * attrs, myth_func_t * funcs, void * args, void * results,
                     size_t id_stride, size_t attr_stride, size_t func_stride, size_t arg_stride, size_t result_stride,
                     long nthreads)
  __CPROVER_requires(GHOSTS_OK && PARAMS_OK && func_stride == g_fs)
  __CPROVER_requires(g_fs == 0 ? (__CPROVER_r_ok(funcs, sizeof(myth_func_t)) && *funcs == F_watch) : funcs == (myth_func_t *)FUNCS)
  __CPROVER_assigns(g_in_body; RANGE_ASSIGNS)
  __CPROVER_ensures(__CPROVER_return_value == 0)
  RANGE_ENSURES(0, g_hb);

int many_contract(myth_thread_t * ids, myth_thread_attr_t * attrs, myth_func_t func, void * args, void * results,
                  size_t id_stride, size_t attr_stride, size_t arg_stride, size_t result_stride, long nthreads)
  __CPROVER_requires(GHOSTS_OK && PARAMS_OK && g_fs == 0 && func == F_watch)
  __CPROVER_assigns(g_in_body; RANGE_ASSIGNS)
  __CPROVER_ensures(__CPROVER_return_value == 0)
  RANGE_ENSURES(0, g_hb);

/* keep every contract-replaced function referenced */
int (*keep_create)(myth_thread_t *, myth_thread_attr_t *, myth_func_t, void *) = myth_create_ex_body;
int (*keep_join)(myth_thread_t, void **) = myth_join_body;
void * (*keep_aux)(void *) = myth_create_join_various_ex_aux;

/* ------------------------------------------------------------------ harness: the universe, built constructively */
myth_create_join_various_arg H_ARG;

static void setup(void) {
  g_is = nondet_ulong(); g_ts = nondet_ulong(); g_fs = nondet_ulong(); g_as = nondet_ulong(); g_rs = nondet_ulong();
  g_ids = nondet_bool() ? (void *)IDS : 0;
  g_attrs = nondet_bool() ? (void *)ATTRS : 0;
  g_res = nondet_bool() ? (void *)RES : 0;
  g_ha = nondet_long(); g_hb = nondet_long(); g_w = nondet_long();
  g_ret = nondet_bool() ? (void *)&RETCELL[0] : 0;
  g_ret_o = g_ret ? (nondet_bool() ? (void *)&RETCELL[1] : 0) : (void *)&RETCELL[1];
  g_self = (void *)&THR[0];
  g_wid = 0; g_calls = 0; g_bad = 0; g_in_body = 0; g_ca = 0; g_cb = 0;
  g_p0 = nondet_long(); __CPROVER_assume(0 <= g_p0 && g_p0 <= LONG_MAX / 2); g_pending = g_p0;
  g_gri = nondet_long(); g_grd = nondet_long(); g_gro = nondet_long();
  g_gii = nondet_long(); g_gid = nondet_long(); g_gio = nondet_long();
  g_warg = 0; g_wro = nondet_long(); g_wio = nondet_long();
  g_c0 = nondet_long(); __CPROVER_assume(0 <= g_c0 && g_c0 <= LONG_MAX / 2); g_count = g_c0;
  __CPROVER_assume(0 <= g_w && 0 <= g_ha && g_ha <= g_hb && g_hb <= LONG_MAX / 2);
  __CPROVER_assume(g_hb == 0 || (g_as <= ASZ && FITS(g_as, 1)));
  if (g_w < g_hb) g_warg = (g_as == 0) ? (void *)ARGS : (void *)(ARGS + PROD(g_w, g_as));
  __CPROVER_assume(CONFIG_OK);
  /* ARGS / FUNCS / ATTRS / RES / IDS: arbitrary content (static objects start nondet under --dfcc) */
}

#define FUNCSLOT(i) (*(myth_func_t *)(FUNCS + PROD(i, g_fs)))
void h_aux(void) {
  setup();
  __CPROVER_assume(g_ha < g_hb);
  /* f_i is what the table holds (definition); instance for the one slot this call can read itself */
  __CPROVER_assume(FUNCSLOT(g_ha) == ((g_fs == 0 || g_ha == g_w) ? F_watch : F_other));
  /* lemma instances (distinct items have disjoint slots; the last item bounds every item) */
  __CPROVER_assume(MONO(g_ha, g_hb - 1, g_as) && MONO(g_ha, g_hb - 1, g_fs) && MONO(g_ha, g_hb - 1, g_rs) && MONO(g_ha, g_hb - 1, g_is));
  __CPROVER_assume(g_w < g_hb ==> (MONO(g_ha, g_w, g_as) && MONO(g_ha, g_w, g_fs) && MONO(g_ha, g_w, g_rs) && MONO(g_ha, g_w, g_is)));
  __CPROVER_assume(MONO(g_ha, g_gri, g_rs) && MONO(g_ha, g_gii, g_is));
  H_ARG.ids = g_ids; H_ARG.attrs = g_attrs; H_ARG.funcs = (void *)FUNCS; H_ARG.args = (void *)ARGS; H_ARG.results = g_res;
  H_ARG.id_stride = g_is; H_ARG.attr_stride = g_ts; H_ARG.func_stride = g_fs; H_ARG.arg_stride = g_as; H_ARG.result_stride = g_rs;
  H_ARG.a = g_ha; H_ARG.b = g_hb;
  myth_create_join_various_ex_aux(&H_ARG);
  VERIF_CANARY();
}

void h_various(void) {
  setup();
  __CPROVER_assume(g_ha == 0);
  myth_create_join_various_ex_body((myth_thread_t *)g_ids, (myth_thread_attr_t *)g_attrs, (myth_func_t *)FUNCS, (void *)ARGS, g_res,
                                   g_is, g_ts, g_fs, g_as, g_rs, g_hb);
  VERIF_CANARY();
}

void h_many(void) {
  setup();
  __CPROVER_assume(g_ha == 0 && g_fs == 0);
  myth_create_join_many_ex_body((myth_thread_t *)g_ids, (myth_thread_attr_t *)g_attrs, F_watch, (void *)ARGS, g_res,
                                g_is, g_ts, g_as, g_rs, g_hb);
  VERIF_CANARY();
}

/* the arithmetic lemma behind MONO, over the mathematical integers (SMT back end) */
__CPROVER_integer nondet_integer(void);
void h_lemma_mono(void) {
  __CPROVER_integer x = nondet_integer(), y = nondet_integer(), st = nondet_integer();
  __CPROVER_assume(0 <= x && x < y && st >= 0);
  __CPROVER_assert(x * st + st <= y * st, "C17 lemma: x < y and s >= 0 imply x*s + s <= y*s (slots of distinct items are disjoint)");
  VERIF_CANARY();
}
