/* C17 -- bulk fork-join helpers equal the sequential loop (DESIGN §4 C17).  C half only.
 *
 * Functions under contract (real bodies from src/myth_sched_func.h):
 *   myth_create_join_various_ex_aux    recursive halving; --enforce-contract-rec, the syntactic recursive call
 *                                      aux(carg + 1) is replaced by the SAME contract (induction on b - a)
 *   myth_create_join_various_ex_body   against the contract proved for aux
 *   myth_create_join_many_ex_body      against the contract proved for various_ex_body (many = various, func stride 0)
 *
 * The UNIVERSE of one check (assigned once by setup(), in no assigns clause, hence invariant):
 *   five user arrays, each its own dynamic object of SYMBOLIC size (up to 2^50 bytes): ARGS and ATTRS (only addresses
 *   are taken), FUNCS (read), RES (written), IDS (written);  g_res / g_ids / g_attrs = base pointer or NULL;  strides
 *   g_as, g_ts any, g_fs 0 or a multiple of 8, g_rs / g_is a non-zero multiple of 8 when the array is given (aligned,
 *   non-overlapping 8-byte slots); every item of [0, g_hb) inside its array; strides and n below 2^31 as soon as one
 *   array is really strided (then i*stride < 2^62 does not overflow), n <= LONG_MAX/2 when every stride is 0.
 *   The function table DEFINES f_i: f_{g_w} = F_watch and f_i = F_other for i != g_w (func stride >= 8); the one
 *   shared f = F_watch (func stride 0).  That is a universally quantified fact about user memory nobody writes;
 *   h_aux assumes its instance at the only slot the call under proof reads itself (slot g_ha, read when the range is
 *   the single item g_ha) -- a weaker hypothesis than the quantified one.
 * Witness g_w >= 0 (chosen before the call; the code cannot see it).  IDENT = (arg stride >= 1 || func stride >= 8):
 *   the call of item g_w is recognisable (by its argument address g_warg = ARGS + g_w*g_as, or by its function).
 *   F_watch / F_other are the user's functions (harness stubs); they only count:
 *     g_count  number of user-function calls                                  -> + (b - a)             exactly n calls
 *     g_calls  number of calls F_watch(g_warg)                                -> + 1 iff a <= g_w < b  (IDENT)
 *     g_bad    F_other got g_warg (arg stride >= 1: item g_w handed to a function that is not f_{g_w}), or
 *              F_watch got another address although only item g_w has it (func stride >= 8)             -> stays 0
 *     g_wid    myth_self() at the instant of the call F_watch(g_warg): the thread that ran item g_w
 *   results: slot g_w == g_ret (what F_watch(g_warg) returned) iff in range, else unchanged;  ids: slot g_w == g_wid.
 *   Frame: guard cells RES[g_grc] / IDS[g_gic], cell g_grc = byte offset g_gri*g_rs + g_grd (0 <= g_grd < g_rs), an
 *   ARBITRARY 8-byte cell of the array: unchanged unless it is the slot of an item of [a, b) (a <= g_gri < b and
 *   g_grd == 0); every cell when the array is not given.  ARGS, FUNCS, ATTRS are in no assigns clause.
 * Threads: myth_create_ex_body / myth_join_body are replaced by contracts (ASSUMED: C01 + induction hypothesis):
 *   create requires func == aux, an argument block satisfying aux's precondition for a STRICTLY SMALLER range, the
 *   attribute slot of the first item of that range (or NULL); it records the child (g_ca, g_cb, token), g_pending + 1.
 *   join requires that token while outstanding, g_pending - 1, and grants aux's postcondition for [g_ca, g_cb):
 *   a created-and-joined thread running aux(arg) has run aux(arg) exactly once, complete when join returns (not before).
 *   The right half runs while the left child is outstanding (g_pending == g_p0 + 1): outstanding children are a counter.
 * Measure: ghost g_in_body is set at the first statement of aux's body (one-line ghost hook put there by a recorded
 *   must-fire rewrite, no other change of the text); a call from inside the body must lie within [g_ha, g_hb) (the
 *   range of the call under proof) and have b - a < g_hb - g_ha: decreases b - a.
 * Arithmetic.  Everything the proof needs about i*stride is: equal operands give equal products, and
 *   x < y && s >= 0 ==> x*s + s <= y*s  (slots of distinct items are disjoint, the last item bounds every item).
 *   A SAT solver cannot derive either from multiplier circuits (the second not beyond ~9 bits, the first -- two
 *   multipliers over the same operands -- not within minutes at 31x18 bits; both probed).  Therefore
 *   VMUL == 1 (jobs c17.aux, c17.various, c17.many): the five products  a * <x>_stride  of aux are taken through
 *             verif_mul (recorded must-fire rewrite  `a * id_stride` -> `verif_mul(a, id_stride, 0)` etc.), an
 *             UNINTERPRETED multiplication: it returns the universe's product table entry for the operands
 *             (g_ha, stride of that array) and an arbitrary value for any other operands; the table entries
 *             (products of g_ha, g_w, g_hb - 1 and the guard item with each stride) are arbitrary numbers subject
 *             to the two facts above (AXIOM).  Real multiplication is one such table: the proof covers it.
 *             The lemma is proved over the mathematical integers by job c17.lemma.mono (z3).
 *   VMUL == 0 (jobs c17.aux.s*, bounded cross-check): the unrewritten text with REAL multiplication for a few constant
 *             stride tuples; the table is computed (i*const).  These jobs also see mutations of the multiplication
 *             sites.  Jobs c17.axioms.*: every AXIOM is an assertion over the computed table, i.e. the axioms are
 *             checked against machine arithmetic for three constant tuples.
 */
#include "verif_common.h"
#include <limits.h>
#include <stdlib.h>

#ifndef VMUL
#define VMUL 1
#endif
#define SMALLN(x) (((unsigned long)(x) >> 31) == 0)                              /* 0 <= x < 2^31 */
#define PROD(i, s) ((long)((unsigned long)(i) * (unsigned long)(s)))            /* i*s exactly as the library computes it (long * size_t) */
#define PMAX  (1L << 49)                                                         /* no table product exceeds 2^49 ... */
#define SLACK (1L << 49)                                                         /* ... and an array may be up to 2^49 bytes longer than its last slot: objects <= 2^50 bytes */

/* ------------------------------------------------------------------ ghosts */
long   g_w;                            /* witness item */
long   g_ha, g_hb;                     /* range of the call under proof */
int    g_in_body;                      /* 1 from the first statement of aux's body */
size_t g_is, g_fs, g_as, g_rs, g_ts;   /* strides: ids, funcs, args, results, attrs */
void * g_ids, * g_attrs, * g_res;      /* base pointers or NULL */
unsigned long g_count;                /* user-function calls, modulo 2^64 (n < 2^63: exact) */
int    g_calls, g_bad;
long   g_wrc, g_wic;                   /* cell index of item g_w's result / id slot (0 when there is none) */
void * g_warg, * g_ret, * g_ret_o;
void * g_wid;                          /* thread that ran item g_w */
void * g_self;                         /* what myth_self() returns in the thread under proof */
long   g_p0, g_pending;                /* outstanding children: level of the call under proof / now */
long   g_ca, g_cb;                     /* range of the outstanding child of this level */
long   g_gri, g_grd, g_grc, g_gii, g_gid, g_gic;     /* guard cells: cell g_grc of RES is byte offset g_gri*g_rs + g_grd */
/* product table of the universe: g_ha * stride (by array: 0 ids, 1 funcs, 2 args, 3 results, 4 attrs) */
enum { X_IDS = 0, X_FUNCS = 1, X_ARGS = 2, X_RES = 3, X_ATTRS = 4 };
long   g_Pha_i, g_Pha_f, g_Pha_a, g_Pha_r, g_Pha_t;
long   g_Pw_a, g_Pw_r, g_Pw_i;         /* g_w * stride */
long   g_Pl_f, g_Pl_r, g_Pl_i;         /* (g_hb - 1) * stride */
long   g_Pg_r, g_Pg_i;                 /* guard item * stride */

char   RETCELL[2];
char   THR[3];                         /* thread tokens: THR[0] the thread under proof, THR[1] the child of this level, THR[2] deeper ones */

static inline void verif_aux_entered(void) { g_in_body = 1; }

unsigned long nondet_ulong(void);
/* uninterpreted multiplication (VMUL jobs): the table entry for the universe's operands, anything otherwise */
static inline unsigned long verif_mul(long i, unsigned long s, int which) {
  unsigned long r = nondet_ulong();
  if (i == g_ha) {
    if (which == X_IDS   && s == g_is) r = (unsigned long)g_Pha_i;
    if (which == X_FUNCS && s == g_fs) r = (unsigned long)g_Pha_f;
    if (which == X_ARGS  && s == g_as) r = (unsigned long)g_Pha_a;
    if (which == X_RES   && s == g_rs) r = (unsigned long)g_Pha_r;
    if (which == X_ATTRS && s == g_ts) r = (unsigned long)g_Pha_t;
  }
  return r;
}

#include "myth_sched_func.h"           /* the real code */

myth_thread_t myth_self(void) { return (myth_thread_t)g_self; }

/* the five user arrays: dynamic objects of SYMBOLIC size (g_nf, g_nr, g_ni cells of 8 bytes), built by setup() */
char          * ARGS;
myth_func_t   * FUNCS;  long g_nf;
char          * ATTRS;
void         ** RES;    long g_nr;
myth_thread_t * IDS;    long g_ni;

/* ------------------------------------------------------------------ the user's functions */
#define IDENT (g_as >= 1 || g_fs >= 8)
static void * F_watch(void * arg) {
  g_count++;
  if (!IDENT) return g_ret;
  if (arg == g_warg) { if (g_calls < 2) g_calls++; g_wid = g_self; return g_ret; }
  if (g_fs >= 8) g_bad = 1;
  return g_ret_o;
}
static void * F_other(void * arg) {
  g_count++;
  if (g_as >= 1 && arg == g_warg) g_bad = 1;
  return g_ret_o;
}

/* ------------------------------------------------------------------ specification */
#define MA(p)        ((myth_create_join_various_arg *)(p))
#define RESSLOT      RES[g_wrc]
#define IDSLOT       IDS[g_wic]
#define INR(a, b)    ((a) <= g_w && g_w < (b))
/* the argument block of a call of aux describes the universe and a non-empty sub-range */
#define BLOCK_OK(m) \
  (MA(m)->ids == g_ids && MA(m)->attrs == g_attrs && MA(m)->args == (void *)ARGS && MA(m)->results == g_res && \
   MA(m)->id_stride == g_is && MA(m)->attr_stride == g_ts && MA(m)->func_stride == g_fs && \
   MA(m)->arg_stride == g_as && MA(m)->result_stride == g_rs && \
   (g_fs == 0 ? (__CPROVER_r_ok((myth_func_t *)MA(m)->funcs, sizeof(myth_func_t)) && *(myth_func_t *)MA(m)->funcs == F_watch) \
              : MA(m)->funcs == (void *)FUNCS) && \
   g_ha <= MA(m)->a && MA(m)->a < MA(m)->b && MA(m)->b <= g_hb)
#define GHOSTS_OK \
  (g_bad == 0 && 0 <= g_calls && g_calls <= 1 && \
   g_p0 >= 0 && g_p0 <= LONG_MAX / 2 && g_p0 <= g_pending && g_pending <= g_p0 + 1)
#define SMALLER(a, b) ((b) - (a) < g_hb - g_ha)
#define OLD(x) __CPROVER_old(x)

/* effect of running every item of [a, b) exactly once, as a list of ensures clauses */
#define RANGE_ENSURES_NP(a, b) \
  __CPROVER_ensures(g_count == OLD(g_count) + (unsigned long)((b) - (a)))   /* 1 exactly b - a user calls */ \
  __CPROVER_ensures(g_bad == 0)                                           /* 2 no item's argument given to another item's function */ \
  __CPROVER_ensures(g_calls == OLD(g_calls) + ((IDENT && INR(a, b)) ? 1 : 0))   /* 3 item g_w: exactly once iff in range */ \
  __CPROVER_ensures((IDENT && !INR(a, b)) ==> g_wid == OLD(g_wid))        /* 4 */ \
  __CPROVER_ensures(g_res != 0 && g_w < g_hb ==> RESSLOT == (INR(a, b) ? g_ret : OLD(RESSLOT)))      /* 5 result slot */ \
  __CPROVER_ensures(g_ids != 0 && g_w < g_hb ==> (INR(a, b) ? (IDENT ? (void *)IDSLOT == g_wid : 1) && IDSLOT != 0 : IDSLOT == OLD(IDSLOT)))  /* 6 id slot */ \
  __CPROVER_ensures((g_res == 0 || !((a) <= g_gri && g_gri < (b) && g_grd == 0)) ==> RES[g_grc] == OLD(RES[g_grc]))   /* 7 frame of results */ \
  __CPROVER_ensures((g_ids == 0 || !((a) <= g_gii && g_gii < (b) && g_gid == 0)) ==> IDS[g_gic] == OLD(IDS[g_gic]))   /* 8 frame of ids */

#define RANGE_ENSURES(a, b) RANGE_ENSURES_NP(a, b) \
  __CPROVER_ensures(g_pending == OLD(g_pending))                          /* 9 every child joined */

/* frame: the two output arrays when given (which cells: closed by the guard cells above, an arbitrary cell each) */
#define RANGE_ASSIGNS \
   g_count, g_calls, g_bad, g_wid, g_pending, g_ca, g_cb; \
   g_res != 0: __CPROVER_object_whole(RES); \
   g_ids != 0: __CPROVER_object_whole(IDS)

/* the range descriptor handed to the new thread: that thread reads its bounds when it STARTS RUNNING, which (help-first
   creation, or a stolen child) may be any time before it is joined -- so the creator must leave the descriptor alone
   until then.  Recorded by a wrapper with a body around the create contract (a pointer that a contract merely constrains
   cannot be dereferenced in CBMC), checked by a wrapper around the join contract; written only by the level under proof. */
myth_create_join_various_arg * g_carg;
int verif_create_c(myth_thread_t * id, myth_thread_attr_t * attr, myth_func_t func, void * arg);
int verif_join_c(myth_thread_t th, void ** result);
int verif_create_stub(myth_thread_t * id, myth_thread_attr_t * attr, myth_func_t func, void * arg) {
  g_carg = (myth_create_join_various_arg *)arg;
  return verif_create_c(id, attr, func, arg);
}
int verif_join_stub(myth_thread_t th, void ** result) {
  __CPROVER_assert(g_carg->a == g_ca && g_carg->b == g_cb,
                   "the range descriptor handed to a created thread is left untouched until that thread has been joined");
  return verif_join_c(th, result);
}

void * aux_contract(void * meta_arg_)
  __CPROVER_requires(GHOSTS_OK)
  __CPROVER_requires(__CPROVER_r_ok(MA(meta_arg_), sizeof(myth_create_join_various_arg)))
  __CPROVER_requires(BLOCK_OK(meta_arg_))
  /* decreases b - a: the call under proof has the range [g_ha, g_hb); every call from inside its body is strictly smaller */
  __CPROVER_requires(g_in_body == 0 ? (MA(meta_arg_)->a == g_ha && MA(meta_arg_)->b == g_hb && g_pending == g_p0)
                                    : SMALLER(MA(meta_arg_)->a, MA(meta_arg_)->b))
  __CPROVER_requires(g_in_body == 0 || g_pending == g_p0 || MA(meta_arg_) != g_carg)   /* never on the descriptor of an outstanding child */
  __CPROVER_assigns(g_in_body; g_in_body == 0: g_carg; RANGE_ASSIGNS)
  __CPROVER_ensures(__CPROVER_return_value == 0 && g_in_body == 1)
  RANGE_ENSURES(OLD(MA(meta_arg_)->a), OLD(MA(meta_arg_)->b))
  /* the child record of the level under proof is not touched by deeper levels (they keep their own) */
  __CPROVER_ensures(OLD(g_in_body) == 1 ==> (g_ca == OLD(g_ca) && g_cb == OLD(g_cb)));

/* byte offset of the attribute slot of item i (VMUL: the only item whose product is in the table is g_ha) */
#if VMUL
#define ATTR_ITEM_OK(i) ((i) == g_ha)
#define ATTR_OFF(i)     g_Pha_t
#else
#define ATTR_ITEM_OK(i) 1
#define ATTR_OFF(i)     PROD(i, g_ts)
#endif
/* ASSUMED (C01 + induction hypothesis): see header.  The child's effect is granted at join, not before. */
int create_contract(myth_thread_t * id, myth_thread_attr_t * attr, myth_func_t func, void * arg)
  __CPROVER_requires(GHOSTS_OK && g_in_body == 1)
  __CPROVER_requires(__CPROVER_w_ok(id, sizeof(myth_thread_t)))
  __CPROVER_requires(func == myth_create_join_various_ex_aux)
  __CPROVER_requires(__CPROVER_r_ok(MA(arg), sizeof(myth_create_join_various_arg)) && BLOCK_OK(arg))
  __CPROVER_requires(SMALLER(MA(arg)->a, MA(arg)->b))
  __CPROVER_requires(g_pending == g_p0)                                    /* this level has no child outstanding */
  /* the new thread gets the attributes of the first item it is responsible for */
  __CPROVER_requires(g_attrs == 0 ? attr == 0 : (ATTR_ITEM_OK(MA(arg)->a) && attr == (myth_thread_attr_t *)(ATTRS + ATTR_OFF(MA(arg)->a))))
  __CPROVER_assigns(*id, g_pending, g_ca, g_cb)
  __CPROVER_ensures(__CPROVER_return_value == 0 && *id == (myth_thread_t)&THR[1])
  __CPROVER_ensures(g_pending == g_p0 + 1 && g_ca == OLD(MA(arg)->a) && g_cb == OLD(MA(arg)->b));

int join_contract(myth_thread_t th, void ** result)
  __CPROVER_requires(GHOSTS_OK && g_in_body == 1)
  __CPROVER_requires(th == (myth_thread_t)&THR[1] && g_pending == g_p0 + 1)   /* the outstanding child, once */
  __CPROVER_requires(result == 0)                                              /* aux returns nothing of interest */
  __CPROVER_requires(g_ha <= g_ca && g_ca < g_cb && g_cb <= g_hb)
  __CPROVER_assigns(RANGE_ASSIGNS)
  __CPROVER_ensures(__CPROVER_return_value == 0)
  __CPROVER_ensures(g_ca == OLD(g_ca) && g_cb == OLD(g_cb))
  RANGE_ENSURES_NP(OLD(g_ca), OLD(g_cb))
  __CPROVER_ensures((IDENT && INR(g_ca, g_cb)) ==> (g_wid == (void *)&THR[1] || g_wid == (void *)&THR[2]))
  __CPROVER_ensures(g_pending == g_p0);

/* the two public bodies: the sequential loop over [0, nthreads) */
#define PARAMS_OK \
  ((void *)ids == g_ids && (void *)attrs == g_attrs && args == (void *)ARGS && results == g_res && \
   id_stride == g_is && attr_stride == g_ts && arg_stride == g_as && result_stride == g_rs && \
   nthreads == g_hb && g_ha == 0 && g_in_body == 0 && g_pending == g_p0)
int various_contract(myth_thread_t * ids, myth_thread_attr_t * attrs, myth_func_t * funcs, void * args, void * results,
                     size_t id_stride, size_t attr_stride, size_t func_stride, size_t arg_stride, size_t result_stride,
                     long nthreads)
  __CPROVER_requires(GHOSTS_OK && PARAMS_OK && func_stride == g_fs)
  __CPROVER_requires(g_fs == 0 ? (__CPROVER_r_ok(funcs, sizeof(myth_func_t)) && *funcs == F_watch) : funcs == (myth_func_t *)FUNCS)
  __CPROVER_assigns(g_in_body, g_carg; RANGE_ASSIGNS)
  __CPROVER_ensures(__CPROVER_return_value == 0)
  RANGE_ENSURES(0, g_hb);

int many_contract(myth_thread_t * ids, myth_thread_attr_t * attrs, myth_func_t func, void * args, void * results,
                  size_t id_stride, size_t attr_stride, size_t arg_stride, size_t result_stride, long nthreads)
  __CPROVER_requires(GHOSTS_OK && PARAMS_OK && g_fs == 0 && func == F_watch)
  __CPROVER_assigns(g_in_body, g_carg; RANGE_ASSIGNS)
  __CPROVER_ensures(__CPROVER_return_value == 0)
  RANGE_ENSURES(0, g_hb);

/* keep every contract-replaced function referenced */
int (*keep_create)(myth_thread_t *, myth_thread_attr_t *, myth_func_t, void *) = myth_create_ex_body;
int (*keep_join)(myth_thread_t, void **) = myth_join_body;
int (*keep_create_c)(myth_thread_t *, myth_thread_attr_t *, myth_func_t, void *) = verif_create_c;
int (*keep_join_c)(myth_thread_t, void **) = verif_join_c;
int (*keep_create_s)(myth_thread_t *, myth_thread_attr_t *, myth_func_t, void *) = verif_create_stub;
int (*keep_join_s)(myth_thread_t, void **) = verif_join_stub;
void * (*keep_aux)(void *) = myth_create_join_various_ex_aux;

/* ------------------------------------------------------------------ harness: the universe, built constructively */
myth_create_join_various_arg H_ARG;

/* a product table entry: VMUL: an arbitrary number in [0, 2^49] (constrained only by the AXIOMs below);
   otherwise the machine product (the stride is a constant there) */
#if VMUL
static long table_entry(void) { long p = nondet_long(); __CPROVER_assume(0 <= p && p <= PMAX); return p; }
#define TBL(i, s) table_entry()
#define AXIOM(x, txt) __CPROVER_assume(x)
#else
#define TBL(i, s) PROD(i, s)
#ifdef AXIOM_ASSERT   /* job c17.axioms.*: every axiom is checked against the machine products */
#define AXIOM(x, txt) { __CPROVER_assert(x, "C17 axiom holds for machine multiplication: " txt); __CPROVER_assume(x); }
#else                 /* true of the computed products; stated so that the SAT solver need not rediscover it */
#define AXIOM(x, txt) __CPROVER_assume(x)
#endif
#endif
/* the two facts about products i*s, j*s of one stride s (job c17.lemma.mono): congruence and strict monotonicity with gap s */
#define REL(i, pi, j, pj, s) \
  (((i) == (j) ==> (pi) == (pj)) && ((i) < (j) ==> (pi) + (long)(s) <= (pj)) && ((j) < (i) ==> (pj) + (long)(s) <= (pi)))
#define ZERO(i, p, s) (((s) == 0 || (i) == 0) ==> (p) == 0)

#ifndef SAMPLE
#define SAMPLE 0
#endif
static size_t pick_stride(int k, _Bool zero_ok, _Bool cells) {
#if VMUL
  size_t st = nondet_ulong();
  __CPROVER_assume(SMALLN(st) && (zero_ok || st != 0) && (!cells || st % 8 == 0));
  (void)k;
  return st;
#else
  /* SAMPLE selects a tuple of constant strides: (ids, funcs, args, results, attrs) */
  (void)zero_ok; (void)cells;
  return SAMPLE == 0 ? (k == X_IDS ? 8 : k == X_FUNCS ? 0 : k == X_ARGS ? 1 : k == X_RES ? 8 : 0)
       : SAMPLE == 1 ? (k == X_IDS ? 16 : k == X_FUNCS ? 8 : k == X_ARGS ? 4 : k == X_RES ? 32 : 2)
       :               (k == X_IDS ? 24 : k == X_FUNCS ? 16 : k == X_ARGS ? 40 : k == X_RES ? 32 : 48);
#endif
}
/* an item number: any long (VMUL); below 2^16, zero-extended, in the bounded cross-check (keeps the real multipliers small) */
static long pick_item(void) {
#if VMUL
  return nondet_long();
#else
  return (long)(nondet_unsigned() >> 16);
#endif
}
static long pick_slack(void) {
  long extra = nondet_long();
  __CPROVER_assume(0 <= extra && extra <= SLACK);
  return extra;
}
static void setup(void) {
  _Bool with_ids = nondet_bool(), with_attrs = nondet_bool(), with_res = nondet_bool();
  /* strides: args / attrs any; funcs 0 (one shared function) or aligned cells; results / ids aligned non-empty cells */
  g_is = pick_stride(X_IDS, !with_ids, 1); g_fs = pick_stride(X_FUNCS, 1, 1); g_as = pick_stride(X_ARGS, 1, 0);
  g_rs = pick_stride(X_RES, !with_res, 1); g_ts = pick_stride(X_ATTRS, 1, 0);
  /* range of the call under proof and witness */
  g_ha = pick_item(); g_hb = pick_item(); g_w = pick_item();
  __CPROVER_assume(0 <= g_w && 0 <= g_ha && g_ha <= g_hb && g_hb <= LONG_MAX / 2);
  _Bool strided = g_as != 0 || g_fs != 0 || (with_attrs && g_ts != 0) || with_res || with_ids;
  if (strided) __CPROVER_assume(SMALLN(g_hb));
  _Bool w_in = g_w < g_hb, some = g_hb != 0;
  long last = some ? g_hb - 1 : 0;
  /* guard items: any item number (also beyond the range: the slack of the array) and an aligned offset within the stride */
  g_gri = g_grd = g_gii = g_gid = 0;
  if (with_res) { g_gri = pick_item(); g_grd = nondet_long(); __CPROVER_assume(0 <= g_gri && SMALLN(g_gri) && 0 <= g_grd && g_grd < (long)g_rs && g_grd % 8 == 0); }
  if (with_ids) { g_gii = pick_item(); g_gid = nondet_long(); __CPROVER_assume(0 <= g_gii && SMALLN(g_gii) && 0 <= g_gid && g_gid < (long)g_is && g_gid % 8 == 0); }
  /* the product table: entries that are never used (array absent, witness outside, empty range) are 0 */
  g_Pha_a = some ? TBL(g_ha, g_as) : 0;               g_Pw_a = w_in ? TBL(g_w, g_as) : 0;
  g_Pha_f = some ? TBL(g_ha, g_fs) : 0;               g_Pl_f = some ? TBL(last, g_fs) : 0;
  g_Pha_t = (some && with_attrs) ? TBL(g_ha, g_ts) : 0;
  g_Pha_r = (some && with_res) ? TBL(g_ha, g_rs) : 0; g_Pw_r = (w_in && with_res) ? TBL(g_w, g_rs) : 0;
  g_Pl_r  = (some && with_res) ? TBL(last, g_rs) : 0; g_Pg_r = with_res ? TBL(g_gri, g_rs) : 0;
  g_Pha_i = (some && with_ids) ? TBL(g_ha, g_is) : 0; g_Pw_i = (w_in && with_ids) ? TBL(g_w, g_is) : 0;
  g_Pl_i  = (some && with_ids) ? TBL(last, g_is) : 0; g_Pg_i = with_ids ? TBL(g_gii, g_is) : 0;
  if (some) {
    AXIOM(ZERO(g_ha, g_Pha_a, g_as) && ZERO(g_ha, g_Pha_f, g_fs) && ZERO(last, g_Pl_f, g_fs), "zero");
    AXIOM(REL(g_ha, g_Pha_f, last, g_Pl_f, g_fs), "funcs: g_ha / last");
    AXIOM(g_Pha_f % 8 == 0 && g_Pl_f % 8 == 0, "funcs: aligned");
    if (w_in) AXIOM(ZERO(g_w, g_Pw_a, g_as) && REL(g_ha, g_Pha_a, g_w, g_Pw_a, g_as), "args: g_ha / g_w");
    if (with_attrs) AXIOM(ZERO(g_ha, g_Pha_t, g_ts), "attrs: zero");
  }
  if (with_res) {
    AXIOM(g_Pg_r % 8 == 0, "results: aligned");
    if (some) {
      AXIOM(g_Pha_r % 8 == 0 && g_Pl_r % 8 == 0, "results: aligned");
      AXIOM(REL(g_ha, g_Pha_r, last, g_Pl_r, g_rs) && REL(g_ha, g_Pha_r, g_gri, g_Pg_r, g_rs) && REL(last, g_Pl_r, g_gri, g_Pg_r, g_rs), "results: g_ha / last / guard");
      if (w_in) AXIOM(g_Pw_r % 8 == 0 && REL(g_ha, g_Pha_r, g_w, g_Pw_r, g_rs) && REL(g_w, g_Pw_r, last, g_Pl_r, g_rs) && REL(g_w, g_Pw_r, g_gri, g_Pg_r, g_rs), "results: g_w");
    }
  }
  if (with_ids) {
    AXIOM(g_Pg_i % 8 == 0, "ids: aligned");
    if (some) {
      AXIOM(g_Pha_i % 8 == 0 && g_Pl_i % 8 == 0, "ids: aligned");
      AXIOM(REL(g_ha, g_Pha_i, last, g_Pl_i, g_is) && REL(g_ha, g_Pha_i, g_gii, g_Pg_i, g_is) && REL(last, g_Pl_i, g_gii, g_Pg_i, g_is), "ids: g_ha / last / guard");
      if (w_in) AXIOM(g_Pw_i % 8 == 0 && REL(g_ha, g_Pha_i, g_w, g_Pw_i, g_is) && REL(g_w, g_Pw_i, last, g_Pl_i, g_is) && REL(g_w, g_Pw_i, g_gii, g_Pg_i, g_is), "ids: g_w");
    }
  }
#if !VMUL
  __CPROVER_assume(g_Pl_f <= PMAX && g_Pl_r <= PMAX && g_Pl_i <= PMAX && g_Pg_r <= PMAX && g_Pg_i <= PMAX);   /* objects of the model hold at most 2^50 bytes */
#endif
  /* user memory: dynamic objects of symbolic size: every item of [0, g_hb) inside, plus arbitrary slack
     (malloc(n * sizeof(T)) gives an array of n cells of type T); ARGS / ATTRS are never dereferenced: any size */
  g_nf = (g_Pl_f + 8 + pick_slack()) / 8; g_nr = (g_Pl_r + 8 + pick_slack()) / 8; g_ni = (g_Pl_i + 8 + pick_slack()) / 8;
  { long na = nondet_long(), nt = nondet_long(); __CPROVER_assume(1 <= na && na <= SLACK && 1 <= nt && nt <= SLACK);
    ARGS = malloc((size_t)na); ATTRS = malloc((size_t)nt); }
  FUNCS = malloc((size_t)g_nf * sizeof(myth_func_t)); RES = malloc((size_t)g_nr * sizeof(void *)); IDS = malloc((size_t)g_ni * sizeof(myth_thread_t));
  __CPROVER_assume(ARGS != 0 && ATTRS != 0 && FUNCS != 0 && RES != 0 && IDS != 0);
  g_ids = with_ids ? (void *)IDS : 0; g_attrs = with_attrs ? (void *)ATTRS : 0; g_res = with_res ? (void *)RES : 0;
  /* witness item: its argument address and its cells; guard cells (inside the array) */
  g_warg = w_in ? (void *)(ARGS + g_Pw_a) : 0;
  g_wrc = g_Pw_r / 8; g_wic = g_Pw_i / 8;
  g_grc = with_res ? (g_Pg_r + g_grd) / 8 : nondet_long();
  g_gic = with_ids ? (g_Pg_i + g_gid) / 8 : nondet_long();
  __CPROVER_assume(0 <= g_grc && g_grc < g_nr && 0 <= g_gic && g_gic < g_ni);
  /* what the user's functions return, who we are, counters */
  g_ret = nondet_bool() ? (void *)&RETCELL[0] : 0;
  g_ret_o = g_ret ? (nondet_bool() ? (void *)&RETCELL[1] : 0) : (void *)&RETCELL[1];
  g_self = (void *)&THR[0];
  g_wid = 0; g_calls = 0; g_bad = 0; g_in_body = 0; g_ca = 0; g_cb = 0;
  g_p0 = nondet_long(); __CPROVER_assume(0 <= g_p0 && g_p0 <= LONG_MAX / 2); g_pending = g_p0;
  g_count = nondet_ulong();
  /* ARGS / FUNCS / ATTRS / RES / IDS: arbitrary content (fresh dynamic objects are nondet) */
}

void h_aux(void) {
  setup();
  __CPROVER_assume(g_ha < g_hb);
  /* the two cases of the induction can be checked by separate jobs: PART 1 the single item, PART 2 the split */
#if defined(PART) && PART == 1
  __CPROVER_assume(g_hb - g_ha == 1);
#elif defined(PART) && PART == 2
  __CPROVER_assume(g_hb - g_ha >= 2);
#endif
  /* f_i is what the table holds (definition); instance for the one slot this call can read itself */
  __CPROVER_assume(FUNCS[g_Pha_f / 8] == ((g_fs == 0 || g_ha == g_w) ? F_watch : F_other));
  H_ARG.ids = g_ids; H_ARG.attrs = g_attrs; H_ARG.funcs = (void *)FUNCS; H_ARG.args = (void *)ARGS; H_ARG.results = g_res;
  H_ARG.id_stride = g_is; H_ARG.attr_stride = g_ts; H_ARG.func_stride = g_fs; H_ARG.arg_stride = g_as; H_ARG.result_stride = g_rs;
  H_ARG.a = g_ha; H_ARG.b = g_hb;
  myth_create_join_various_ex_aux(&H_ARG);
  VERIF_CANARY();
}

/* the axioms of the product table against machine arithmetic (VMUL == 0, AXIOM_ASSERT) */
void h_axioms(void) {
  setup();
  VERIF_CANARY();
}

void h_various(void) {
  setup();
  __CPROVER_assume(g_ha == 0);
  myth_create_join_various_ex_body((myth_thread_t *)g_ids, (myth_thread_attr_t *)g_attrs, FUNCS, (void *)ARGS, g_res,
                                   g_is, g_ts, g_fs, g_as, g_rs, g_hb);
  VERIF_CANARY();
}

void h_many(void) {
  setup();
  __CPROVER_assume(g_ha == 0 && g_fs == 0);
  myth_create_join_many_ex_body((myth_thread_t *)g_ids, (myth_thread_attr_t *)g_attrs, F_watch, (void *)ARGS, g_res,
                                g_is, g_ts, g_as, g_rs, g_hb);
  VERIF_CANARY();
}

/* ---- re-entrancy of create_join_many: a user function may itself make a bulk call (nested parallel loops), and two
   threads may be inside bulk calls at the same time.  The function slot `many` hands to the engine is read by the
   items while they run, i.e. any time before the call returns: it must be private to the invocation.  Model: the engine
   is a stub with a body in which "an item" of the outer call makes another bulk call with a different function; the
   outer call's slot must still hold the outer function afterwards. */
int g_re_depth, g_re_calls;
int verif_various_reent(myth_thread_t * ids, myth_thread_attr_t * attrs, myth_func_t * funcs, void * args, void * results,
                        size_t id_stride, size_t attr_stride, size_t func_stride, size_t arg_stride, size_t result_stride, long nthreads) {
  myth_func_t mine = g_re_depth == 0 ? F_watch : F_other;
  if (g_re_calls < 3) g_re_calls++;
  __CPROVER_assert(func_stride == 0 && funcs != 0 && *funcs == mine, "many: hands the engine one shared slot that holds the function of THIS call");
  if (g_re_depth == 0) {
    g_re_depth = 1;
    (void)myth_create_join_many_ex_body(0, 0, F_other, args, 0, 0, 0, 1, 0, 1);      /* an item of the outer call runs a bulk call of its own */
    g_re_depth = 0;
    __CPROVER_assert(*funcs == mine, "many: the function slot is private to the invocation: it still holds this call's function after one of its items has made another bulk call");
  }
  return 0;
}
int (*keep_various_reent)(myth_thread_t *, myth_thread_attr_t *, myth_func_t *, void *, void *, size_t, size_t, size_t, size_t, size_t, long) = verif_various_reent;
void h_many_reentrant(void) {
  g_re_depth = 0; g_re_calls = 0;
  int r = myth_create_join_many_ex_body(0, 0, F_watch, (void *)ARGS, 0, 0, 0, 1, 0, 2);
  __CPROVER_assert(r == 0 && g_re_calls == 2, "many (re-entrancy model): the outer and the nested call each reach the engine once");
  VERIF_CANARY();
}

/* the arithmetic lemma behind REL, over the mathematical integers (SMT back end) */
__CPROVER_integer nondet_integer(void);
void h_lemma_mono(void) {
  __CPROVER_integer x = nondet_integer(), y = nondet_integer(), st = nondet_integer();
  __CPROVER_assume(0 <= x && x < y && st >= 0);
  __CPROVER_assert(x * st + st <= y * st, "C17 lemma: x < y and s >= 0 imply x*s + s <= y*s (slots of distinct items are disjoint)");
  __CPROVER_integer k = nondet_integer();
  __CPROVER_assume(k >= 0);
  __CPROVER_assert(x * (8 * k) == 8 * (x * k), "C17 lemma: a multiple of 8 times anything is a multiple of 8 (slots stay aligned)");
  __CPROVER_assert(x * 0 == 0 && 0 * st == 0, "C17 lemma: products with 0");
  VERIF_CANARY();
}
