/* C19 (b) -- "edges are grouped by source node" (DESIGN §4 C19).
 *
 * Functions under contract (real, unmodified bodies from src/profiler/dr_dump.c):
 *   edge_cmp                   the comparator dr_pi_dag_sort_edges hands to qsort
 *   dr_pi_dag_set_edge_ptrs    per-node ranges [edges_begin, edges_end) into the sorted edge array
 *
 * h_edge_cmp_lemmas (loop-free, every value of the six long fields and of the kinds): edge_cmp returns -1 / 0 / 1, is the
 * sign of the lexicographic comparison of (u, v), hence a total preorder (reflexive, antisymmetric as a sign function,
 * transitive) that ignores the edge kind; an array sorted by it (cmp(E[j], E[j+1]) <= 0 for adjacent elements, which
 * is what libc qsort -- TRUSTED -- guarantees for a total preorder) is sorted by source node.
 *
 * h_set_edge_ptrs_lc: dr_pi_dag_set_edge_ptrs under LOOP CONTRACTS on its three loops (invariants in units/c19.py; nothing
 * of the function is unwound).  For EVERY edge array with sources in [0, n) that is sorted by source, every node w and
 * every edge index k:
 *   edges_begin[w] <= k < edges_end[w]  <=>  E[k].u == w,     0 <= begin <= end <= m,
 *   begin[0] == 0, end[n-1] == m, begin[w+1] == end[w] (the ranges tile the edge array in node order).
 * Labelled bounded: the two universal preconditions are spelled out over the harness arrays (LC_N nodes, LC_M edges),
 * so n <= LC_N and m <= LC_M.  Preconditions (stated): n >= 1 (a DAG has a root; with n == 0 the function writes
 * T[-1]), every source inside the DAG (decided for the real enumeration on the concrete DAG states in c19_dag.c).
 */
#include "verif_common.h"
#include "dr_dump.c"                            /* the real code */

dr_global_state GS;

void verif_exit(int c) {
  __CPROVER_assert(0, "a dr_check of the recorder fails (exit(1))");
  __CPROVER_assume(0);
}

dr_dag_edge_kind_t nondet_edge_kind(void);

static int lex(long u1, long v1, long u2, long v2) {          /* specification: sign of the lexicographic comparison */
  return u1 < u2 ? -1 : u1 > u2 ? 1 : v1 < v2 ? -1 : v1 > v2 ? 1 : 0;
}

void h_edge_cmp_lemmas(void) {
  dr_pi_dag_edge e, f, g;
  e.kind = nondet_edge_kind(); e.u = nondet_long(); e.v = nondet_long();
  f.kind = nondet_edge_kind(); f.u = nondet_long(); f.v = nondet_long();
  g.kind = nondet_edge_kind(); g.u = nondet_long(); g.v = nondet_long();
  int ef = edge_cmp(&e, &f), fe = edge_cmp(&f, &e), fg = edge_cmp(&f, &g), eg = edge_cmp(&e, &g), ee = edge_cmp(&e, &e);
  __CPROVER_assert(ef == lex(e.u, e.v, f.u, f.v), "edge_cmp: is the sign of the lexicographic comparison of (u, v); the kind is ignored");
  __CPROVER_assert(ee == 0, "edge_cmp: reflexive");
  __CPROVER_assert(ef == -fe && -1 <= ef && ef <= 1, "edge_cmp: antisymmetric (cmp(e,f) == -cmp(f,e)), total");
  __CPROVER_assert((ef == 0) == (e.u == f.u && e.v == f.v), "edge_cmp: 0 exactly for equal (u, v)");
  __CPROVER_assert(!(ef <= 0 && fg <= 0) || eg <= 0, "edge_cmp: transitive");
  __CPROVER_assert(!(ef <= 0 && fg <= 0 && (ef < 0 || fg < 0)) || eg < 0, "edge_cmp: transitive, strict when one step is strict");
  __CPROVER_assert(!(ef <= 0) || e.u <= f.u, "edge_cmp: sorted by edge_cmp implies sorted by source node (grouping)");
  __CPROVER_assert(!(ef <= 0 && e.u == f.u) || e.v <= f.v, "edge_cmp: within one source, sorted by target");
  VERIF_CANARY();
}

/* ------------------------------------------------------------------ dr_pi_dag_set_edge_ptrs under LOOP CONTRACTS
   The three loops (nested pair + tail) carry invariants supplied from units/c19.py; nothing is unwound in the function.
   Witnesses g_w (node) and g_k (edge index) stand for "every node, every edge".  Sortedness is used only between the
   loop's current edge and the witness edge, so it is assumed in that form: for every j, (j <= k ==> u_j <= u_k) and
   (j >= k ==> u_j >= u_k) -- a consequence of "sorted by source" for each k.  The only bound left is the size of the
   two harness arrays (LC_N nodes, LC_M edges), over which the two universal preconditions are spelled out. */
#ifndef LC_N
#define LC_N 4
#endif
#ifndef LC_M
#define LC_M 16
#endif
dr_pi_dag_node LN[LC_N + 1];
dr_pi_dag_edge LE[LC_M + 1];
dr_pi_dag GL;
long g_w, g_k;

void h_set_edge_ptrs_lc(void) {
  dr_global_state z = {0};
  GS = z;
  GS.opts.chk_level = nondet_char();
  long n = nondet_long(), m = nondet_long();
  __CPROVER_assume(1 <= n && n <= LC_N && 0 <= m && m <= LC_M);
  g_w = nondet_long(); g_k = nondet_long();
  __CPROVER_assume(0 <= g_w && g_w < n && 0 <= g_k && g_k < (m > 0 ? m : 1));
  for (int j = 0; j <= LC_M; j++) { LE[j].kind = nondet_edge_kind(); LE[j].u = nondet_long(); LE[j].v = nondet_long(); }
  for (int j = 0; j < LC_M; j++) {
    if (j < m) {
      __CPROVER_assume(0 <= LE[j].u && LE[j].u < n);                                    /* sources inside the DAG */
      __CPROVER_assume(j <= g_k ? LE[j].u <= LE[g_k].u : LE[j].u >= LE[g_k].u);        /* sorted by source, as seen from edge k */
    }
  }
  dr_pi_dag_node zn = {0};
  for (int i = 0; i <= LC_N; i++) { LN[i] = zn; LN[i].edges_begin = nondet_long(); LN[i].edges_end = nondet_long(); }
  GL.n = n; GL.m = m; GL.T = LN; GL.E = LE; GL.S = 0; GL.start_clock = 0; GL.num_workers = 1;
  long uk = LE[g_k].u;

  dr_pi_dag_set_edge_ptrs(&GL);

  __CPROVER_assert(m == 0 || LE[g_k].u == uk, "set_edge_ptrs: the edge array is not changed");
  long bw = LN[g_w].edges_begin, ew = LN[g_w].edges_end, bw1 = LN[g_w + 1].edges_begin;
  __CPROVER_assert(0 <= bw && bw <= ew && ew <= m, "set_edge_ptrs: 0 <= edges_begin <= edges_end <= m for every node");
  __CPROVER_assert(m == 0 || (bw <= g_k && g_k < ew) == (uk == g_w),
                   "set_edge_ptrs: [edges_begin, edges_end) of node w holds exactly the edges whose source is w");
  __CPROVER_assert(g_w != 0 || bw == 0, "set_edge_ptrs: the ranges start at 0");
  __CPROVER_assert(g_w != n - 1 || ew == m, "set_edge_ptrs: the ranges end at m");
  __CPROVER_assert(g_w + 1 >= n || bw1 == ew, "set_edge_ptrs: the ranges tile the edge array in node order");
  VERIF_CANARY();
}
