/* C16 (d) -- compile-time lemma, compiled NATIVELY by gcc from the unit's pre() hook (units/c16.py), not by CBMC:
 * every MassiveThreads object that the adapter overlays on the storage of a pthread object fits into it and is not more
 * strictly aligned; the static initialisers of the system header denote, seen through the overlay, what the adapter
 * expects (mutex: "not converted yet"; condition variable and once control: MassiveThreads' own initial state, because
 * no conversion step exists for them).
 * One lemma per compilation: -DLEMMA=<n>; -DLEMMA=0 compiles the declarations only (tells a broken header from a false
 * lemma); -DLEMMA=100 builds the run-time part (initialiser bytes).
 */
#include <pthread.h>
#include <string.h>
#include <stdio.h>
#include "myth/myth.h"

#define FITS(m, p) _Static_assert(sizeof(m) <= sizeof(p) && _Alignof(m) <= _Alignof(p), #m " fits in " #p)
#if LEMMA == 1
FITS(myth_mutex_t, pthread_mutex_t);
#elif LEMMA == 2
FITS(myth_cond_t, pthread_cond_t);
#elif LEMMA == 3
FITS(myth_barrier_t, pthread_barrier_t);
#elif LEMMA == 4
FITS(myth_spinlock_t, pthread_spinlock_t);
#elif LEMMA == 5
FITS(myth_once_t, pthread_once_t);
#elif LEMMA == 6
FITS(myth_key_t, pthread_key_t);
#elif LEMMA == 7
FITS(myth_thread_t, pthread_t);
#elif LEMMA == 8
_Static_assert(PTHREAD_ONCE_INIT == myth_once_state_init, "PTHREAD_ONCE_INIT is MassiveThreads' initial once state");
#elif LEMMA == 9
_Static_assert(MYTH_BARRIER_SERIAL_THREAD != 0 && PTHREAD_BARRIER_SERIAL_THREAD != 0, "serial-thread marks are distinguishable from 0");
#elif LEMMA == 10
_Static_assert(PTHREAD_MUTEX_DEFAULT == PTHREAD_MUTEX_NORMAL && MYTH_MUTEX_DEFAULT == MYTH_MUTEX_NORMAL, "the default mutex type is the normal one on both sides");
#endif

#if LEMMA == 100
int main(void) {
  int bad = 0;
  pthread_mutex_t pm = PTHREAD_MUTEX_INITIALIZER;
  int magic; memcpy(&magic, &pm, sizeof magic);
  if (magic == myth_mutex_magic_no || magic == myth_mutex_magic_no_initializing) { printf("PTHREAD_MUTEX_INITIALIZER looks converted (magic %d)\n", magic); bad = 1; }
  pthread_cond_t pc = PTHREAD_COND_INITIALIZER;
  myth_cond_t mc = MYTH_COND_INITIALIZER;
  myth_cond_t seen; memcpy(&seen, &pc, sizeof seen);
  if (seen.sleep_q[0].head != mc.sleep_q[0].head || seen.sleep_q[0].tail != mc.sleep_q[0].tail ||
      seen.sleep_q[0].ilock[0].locked != mc.sleep_q[0].ilock[0].locked) { printf("PTHREAD_COND_INITIALIZER is not an empty MassiveThreads condition variable\n"); bad = 1; }
  pthread_once_t po = PTHREAD_ONCE_INIT;
  myth_once_t mo; memcpy(&mo, &po, sizeof mo);
  if (mo.state != myth_once_state_init) { printf("PTHREAD_ONCE_INIT is not MassiveThreads' initial once state\n"); bad = 1; }
  printf(bad ? "initialisers: MISMATCH\n" : "initialisers: ok\n");
  return bad;
}
#endif
