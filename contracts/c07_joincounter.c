/* C07 -- join counter (DESIGN §4 C07).  Functions under contract (real bodies from src/myth_sync_func.h):
 *   calc_bits, myth_join_counter_init_body, myth_join_counter_dec_body, myth_join_counter_wait_body,
 *   myth_wake_many_from_queue (bounded).
 *
 * Protocol word: jc->state = (waiters << b) | decrements,  b = calc_bits(N), mask = 2^b - 1.
 * Rely/guarantee (DESIGN §3.3): g_A is the value of the word I and the environment last agreed on.
 *   INV:   0 <= low(g_A) <= N - g_tok   (g_tok = decrement tokens I still hold: the N decrements are
 *          distributed over the threads; the environment can perform at most N - g_tok of them)
 *          0 <= hi(g_A) < 2^31          (stated bound on simultaneous waiters)
 *   R (environment step): low grows (by decrements, never beyond N - g_tok), hi grows (by announces) --
 *          and an announce happens only on a word whose low != N, i.e. once low == N the word is frozen.
 *   G (my CAS): dec:      s -> s+1 with low(s) < N             (consumes my token)
 *               announce: s -> s + 2^b with low(s) != N
 */
#include "verif_common.h"

/* ---- ghosts ---- */
long g_A;            /* agreed value of jc->state */
long g_N;            /* n_threads */
int  g_b;            /* n_threads_bits */
long g_mask;
int  g_tok;          /* decrement tokens held by me (0/1) */
int  g_seat;         /* waiter seats I may still claim (0/1): fewer than 2^31 waiters in total, I am one of them */
int  g_cas_dec;      /* number of my successful dec CASes */
int  g_cas_ann;      /* number of my successful announce CASes */
long g_replaced;     /* the word my dec CAS replaced */
int  g_wake_calls;   /* calls of myth_wake_many_from_queue */
long g_wake_n;
int  g_block_calls;  /* calls of myth_block_on_queue */
int  g_saw_N;        /* a read of the word with low == N was agreed */
int  g_exit_calls;

#define LOW(s)  ((s) & g_mask)
#define HI(s)   ((s) >> g_b)
#define JC_INV  (g_A >= 0 && LOW(g_A) <= g_N - g_tok && (g_seat == 0 || g_seat == 1) && HI(g_A) < (1L << 31) - g_seat)

struct myth_join_counter;
extern struct myth_join_counter JC;
volatile long * verif_word(void);

/* environment step on the word (contract only; --replace-call-with-contract) */
void myth_verif_env_step(volatile long *p)
  __CPROVER_requires(*p == g_A && JC_INV)
  __CPROVER_assigns(*p, g_A)
  __CPROVER_ensures(*p == g_A && JC_INV)
  __CPROVER_ensures(LOW(g_A) >= LOW(__CPROVER_old(g_A)) && HI(g_A) >= HI(__CPROVER_old(g_A)))
  /* an announce needs low != N, a decrement low < N: once low == N the word is frozen */
  __CPROVER_ensures(LOW(__CPROVER_old(g_A)) == g_N ==> g_A == __CPROVER_old(g_A));

static inline _Bool myth_verif_cas_long(volatile long *p, long o, long n) {
  myth_verif_env_step(p);
  _Bool r = __sync_bool_compare_and_swap(p, o, n);
  if (r) {
    if (n == o + 1 && LOW(o) < g_N && g_tok == 1 && g_cas_dec == 0) {
      g_tok = 0; g_cas_dec = 1; g_replaced = o;                      /* decrement */
    } else if (n == o + (1L << g_b) && LOW(o) != g_N && g_seat == 1) {
      g_cas_ann++; g_seat = 0;                                                  /* announce  */
    } else {
      __CPROVER_assert(0, "GUARANTEE join-counter: own CAS is neither a legal decrement nor a legal announce");
    }
    g_A = n;
  }
  return r;
}
#define __sync_bool_compare_and_swap(p,o,n) myth_verif_cas_long((volatile long*)(p),(long)(o),(long)(n))
/* R4 read hook: an environment step precedes every read of the protocol word by the code under proof */
static inline void myth_verif_rd(volatile void *p) { if (p == (volatile void *)verif_word()) myth_verif_env_step((volatile long *)p); }

#include "myth_sync_func.h"                       /* the real code */

#undef __sync_bool_compare_and_swap
void (*keep_env)(volatile long*) = myth_verif_env_step;   /* keeps the contract symbol referenced */

myth_join_counter_t JC;
volatile long * verif_word(void) { return &JC.state; }
struct myth_running_env ENVS2[2];
#define ENV (ENVS2[0])       /* ENVS2[1]: the worker a thread may find itself on after a yield */
#ifndef WM_N
#define WM_N 4
#endif
#define WM_N_MAX (WM_N + 2)
struct myth_thread TH[WM_N_MAX];        /* WM_N_MAX >= WM_N + 2 */

/* ---------------- contracts of callees ---------------- */

/* calc_bits: proved in job calc_bits, used by init */
int calc_bits_contract(long x)
  __CPROVER_requires(0 <= x && x < (1L << 62))
  __CPROVER_assigns()
  __CPROVER_ensures(0 <= __CPROVER_return_value && __CPROVER_return_value <= 62)
  __CPROVER_ensures(x < (1L << __CPROVER_return_value))
  __CPROVER_ensures(__CPROVER_return_value == 0 || x >= (1L << (__CPROVER_return_value - 1)));

/* the final decrementer wakes exactly the waiters counted in the word it replaced */
int wake_many_q_contract(myth_sleep_queue_t * q, callback_on_wakeup_t callback, void * arg, long n)
  __CPROVER_requires(q == JC.sleep_q && callback == 0)
  __CPROVER_requires(g_wake_calls == 0 && g_cas_dec == 1)
  __CPROVER_requires(LOW(g_replaced) == g_N - 1 && n == HI(g_replaced))
  __CPROVER_assigns(g_wake_calls, g_wake_n)
  __CPROVER_ensures(g_wake_calls == 1 && g_wake_n == n);

/* blocking: exactly once after a successful announce; a sleeper is resumed only by the wake-up issued by the
   final decrementer (assumed scheduler fact, C02/C04), so on return the word shows N decrements */
void block_on_queue_contract(myth_sleep_queue_t * q, myth_mutex_t * m)
  __CPROVER_requires(q == JC.sleep_q && m == 0)
  __CPROVER_requires(g_cas_ann == g_block_calls + 1)
  __CPROVER_requires(JC.state == g_A && JC_INV)
  __CPROVER_assigns(g_block_calls, JC.state, g_A)
  __CPROVER_ensures(g_block_calls == __CPROVER_old(g_block_calls) + 1)
  __CPROVER_ensures(JC.state == g_A && JC_INV && LOW(g_A) == g_N)
  __CPROVER_ensures(HI(g_A) >= HI(__CPROVER_old(g_A)));

/* exit(1) is the library's reaction to an excess decrement: not reachable for a caller holding a token */
void exit_contract(int c)
  __CPROVER_requires(0 && "the excess-threads abort is unreachable for an entitled caller")
  __CPROVER_assigns(g_exit_calls)
  __CPROVER_ensures(0);

int fprintf_contract(FILE *f, const char *fmt, ...)
  __CPROVER_requires(1) __CPROVER_assigns() __CPROVER_ensures(1);

/* other wake-up primitives, should the final decrementer use them: wake_one waits for a queued sleeper and wakes
   exactly one; wake_all / wake_if_any wake those that are queued at that moment -- a waiter that has announced itself
   in the word but not yet enqueued (the late-waiter race) is NOT among them, so the number woken is anything between
   0 and the number still owed.  The obligation "wakes exactly the counted waiters" in h_dec then decides. */
int wake_one_q_contract(myth_sleep_queue_t * q, callback_on_wakeup_t callback, void * arg)
  __CPROVER_requires(q == JC.sleep_q && callback == 0)
  __CPROVER_requires(g_cas_dec == 1 && LOW(g_replaced) == g_N - 1)
  __CPROVER_requires(0 <= g_wake_n && g_wake_n < HI(g_replaced) && "wake_one spins until a sleeper is queued: one must still be owed")
  __CPROVER_assigns(g_wake_calls, g_wake_n)
  __CPROVER_ensures(g_wake_calls == 1 && g_wake_n == __CPROVER_old(g_wake_n) + 1);
int wake_queued_only_contract(myth_sleep_queue_t * q, callback_on_wakeup_t callback, void * arg)
  __CPROVER_requires(q == JC.sleep_q && callback == 0)
  __CPROVER_requires(g_cas_dec == 1 && LOW(g_replaced) == g_N - 1)
  __CPROVER_requires(0 <= g_wake_n && g_wake_n <= HI(g_replaced))
  __CPROVER_assigns(g_wake_calls, g_wake_n)
  __CPROVER_ensures(g_wake_calls == 1 && __CPROVER_old(g_wake_n) <= g_wake_n && g_wake_n <= HI(g_replaced));
int wake_queued_only_contract2(myth_sleep_queue_t * q, callback_on_wakeup_t callback, void * arg)
  __CPROVER_requires(q == JC.sleep_q && callback == 0)
  __CPROVER_requires(g_cas_dec == 1 && LOW(g_replaced) == g_N - 1)
  __CPROVER_requires(0 <= g_wake_n && g_wake_n <= HI(g_replaced))
  __CPROVER_assigns(g_wake_calls, g_wake_n)
  __CPROVER_ensures(g_wake_calls == 1 && __CPROVER_old(g_wake_n) <= g_wake_n && g_wake_n <= HI(g_replaced));

int (*keep_wake_all)(myth_sleep_queue_t *, callback_on_wakeup_t, void *) = myth_wake_all_from_queue;
int (*keep_wake_one)(myth_sleep_queue_t *, callback_on_wakeup_t, void *) = myth_wake_one_from_queue;
int (*keep_wake_if_any)(myth_sleep_queue_t *, callback_on_wakeup_t, void *) = myth_wake_if_any_from_queue;

int dec_contract(myth_join_counter_t * jc)
  __CPROVER_requires(jc == &JC)
  __CPROVER_assigns(JC.state, g_A, g_tok, g_cas_dec, g_cas_ann, g_replaced, g_wake_calls, g_wake_n)
  __CPROVER_ensures(__CPROVER_return_value == 0);

int wait_contract(myth_join_counter_t * jc)
  __CPROVER_requires(jc == &JC)
  __CPROVER_assigns(JC.state, g_A, g_cas_ann, g_block_calls, g_seat)
  __CPROVER_ensures(__CPROVER_return_value == 0);

/* ---------------- harnesses ---------------- */

void h_calc_bits(void) {
  long x = nondet_long();
  __CPROVER_assume(0 <= x && x < (1L << 62));
  int b = calc_bits(x);
  __CPROVER_assert(0 <= b && b <= 62, "calc_bits: result in [0,62]");
  __CPROVER_assert(x < (1L << b), "calc_bits: x < 2^b");
  __CPROVER_assert(b == 0 || x >= (1L << (b - 1)), "calc_bits: b minimal (x >= 2^(b-1))");
  VERIF_CANARY();
}

void h_init(void) {
  long n = nondet_long();
  __CPROVER_assume(0 <= n && n < (1L << 62));
  _Bool with_attr = nondet_bool();
  myth_join_counterattr_t at;
  at.unused = 0;
  myth_join_counter_init_body(&JC, with_attr ? &at : 0, n);
  __CPROVER_assert(JC.n_threads == n, "init: n_threads stored");
  __CPROVER_assert(JC.state == 0, "init: no decrement, no waiter recorded");
  __CPROVER_assert(JC.state_mask == (1L << JC.n_threads_bits) - 1, "init: mask == 2^bits - 1");
  __CPROVER_assert((n & JC.state_mask) == n, "init: N fits the decrement field");
  __CPROVER_assert(JC.n_threads_bits == 0 || n >= (1L << (JC.n_threads_bits - 1)), "init: field as narrow as possible");
  __CPROVER_assert(JC.sleep_q->head == 0 && JC.sleep_q->tail == 0 && JC.sleep_q->ilock->locked == 0,
                   "init: sleep queue empty and unlocked");
  VERIF_CANARY();
}

static void setup_jc(void) {
  g_N = nondet_long(); g_b = nondet_int();
  __CPROVER_assume(0 <= g_N && g_N < (1L << 31));
  __CPROVER_assume(0 <= g_b && g_b <= 31);
  __CPROVER_assume(g_N < (1L << g_b) && (g_b == 0 || g_N >= (1L << (g_b - 1))));   /* = init's postcondition */
  g_mask = (1L << g_b) - 1;
  JC.n_threads = g_N; JC.n_threads_bits = g_b; JC.state_mask = g_mask;
  g_A = nondet_long();
  JC.state = g_A;
  g_cas_dec = 0; g_cas_ann = 0; g_wake_calls = 0; g_block_calls = 0; g_exit_calls = 0; g_replaced = -1; g_wake_n = 0;
}

void h_dec(void) {
  setup_jc();
  g_tok = 1; g_seat = 0;
  __CPROVER_assume(JC_INV);
  int r = myth_join_counter_dec_body(&JC);
  __CPROVER_assert(r == 0, "dec: returns 0");
  __CPROVER_assert(g_cas_dec == 1 && g_tok == 0, "dec: exactly one decrement performed");
  __CPROVER_assert(g_cas_ann == 0, "dec: never announces a waiter");
  __CPROVER_assert(JC.state == g_A, "dec: no unannounced (non-atomic) write to the word");
  __CPROVER_assert(g_wake_calls == 0 || LOW(g_replaced) == g_N - 1, "dec: wakes only if it performed the N-th decrement");
  __CPROVER_assert(LOW(g_replaced) != g_N - 1 || g_wake_n == HI(g_replaced), "dec: the N-th decrement wakes exactly the waiters counted in the word it replaced");
  __CPROVER_assert(g_block_calls == 0, "dec: does not block");
  VERIF_CANARY();
}

void h_wait(void) {
  setup_jc();
  g_tok = 0; g_seat = 1;
  __CPROVER_assume(JC_INV);
  int r = myth_join_counter_wait_body(&JC);
  __CPROVER_assert(r == 0, "wait: returns 0");
  __CPROVER_assert(LOW(g_A) == g_N, "wait: returns only when N decrements are recorded in the agreed word");
  __CPROVER_assert(JC.state == g_A, "wait: no unannounced write to the word");
  __CPROVER_assert(g_cas_dec == 0, "wait: never decrements");
  __CPROVER_assert(g_block_calls == g_cas_ann && g_cas_ann <= 1, "wait: blocks exactly once per successful announce, announces at most once");
  VERIF_CANARY();
}

/* lemmas over all long values (loop free): G preserves INV; late waiter vs. final decrement */
void h_lemmas(void) {
  setup_jc();
  g_tok = nondet_int(); __CPROVER_assume(g_tok == 0 || g_tok == 1);
  g_seat = 1;
  __CPROVER_assume(JC_INV);
  long s = g_A;
  if (g_tok == 1) {           /* decrement keeps INV with the token consumed; no carry into the waiter field */
    long n = s + 1;
    __CPROVER_assert(LOW(s) < g_N, "lemma: a token holder always finds low < N (excess abort unreachable)");
    __CPROVER_assert(LOW(n) == LOW(s) + 1 && HI(n) == HI(s), "lemma: decrement does not carry into the waiter field");
    __CPROVER_assert(n >= 0 && LOW(n) <= g_N - 0 && HI(n) < (1L << 31), "lemma: decrement preserves INV");
  }
  if (LOW(s) != g_N) {        /* announce */
    long n = s + (1L << g_b);
    __CPROVER_assert(LOW(n) == LOW(s) && HI(n) == HI(s) + 1, "lemma: announce adds one waiter and leaves the decrement field");
    __CPROVER_assert(n >= 0 && HI(n) < (1L << 31), "lemma: announce preserves INV (below the stated waiter bound)");
  }
  /* late waiter vs. final decrement: if the final decrement replaced word s, every announce that succeeded did so
     on a word with low < N, hence before it, and is counted in HI(s); an announce attempted after it fails its
     guard because low == N */
  if (LOW(s) == g_N) {
    __CPROVER_assert(!(LOW(s) != g_N), "lemma: no announce is possible once N decrements are recorded");
  }
  VERIF_CANARY();
}

/* ---- bounded: myth_wake_many_from_queue, n <= 4 sleepers, at most K empty polls ---- */
#ifndef WM_N
#define WM_N 4
#endif
#ifndef WM_K
#define WM_K 2
#endif
int g_deq, g_empty_polls, g_pushed, g_push_order_ok, g_cb_calls, g_cb_after_deq;
myth_thread_t g_pushed_th[WM_N + 1];

myth_sleep_queue_item_t verif_deq(myth_sleep_queue_t * q) {
  __CPROVER_assert(q == JC.sleep_q, "wake_many: dequeues from the queue it was given");
  __CPROVER_assert(g_pushed == 0, "wake_many: no thread is made runnable before all n have been dequeued");
  if (g_empty_polls < WM_K && nondet_bool()) { g_empty_polls++; return 0; }   /* a late sleeper: not yet enqueued */
  __CPROVER_assume(g_deq < WM_N);
  myth_thread_t t = &TH[g_deq++];
  return (myth_sleep_queue_item_t)t;
}
void verif_push(myth_thread_queue_t q, myth_thread_t th) {
  __CPROVER_assert(q == &ENVS2[g_worker_rank].runnable_q, "wake_many: pushes to the run queue of the worker the caller is running on NOW (a run queue is pushed by its owner only)");
  __CPROVER_assert(g_pushed < WM_N && th == &TH[g_pushed], "wake_many: pushes exactly the dequeued threads, each once, in order");
  __CPROVER_assert(th->env == &ENVS2[g_worker_rank], "wake_many: woken thread is bound to the waking worker before it is published");
  g_pushed_th[g_pushed++] = th;
}
void * verif_cb(void * a) { g_cb_calls++; g_cb_after_deq = g_deq; __CPROVER_assert(g_pushed == 0, "wake_many: callback precedes the first push"); return 0; }

/* should the collector yield while it waits for a late sleeper: it may be resumed on another worker */
int verif_yield_wm(void) {
  if (nondet_bool()) { g_envs_sz = 2; ENVS2[1].rank = 1; g_worker_rank = 1; }
  return 0;
}
int (*keep_yield_wm)(void) = myth_yield_body;
int (*keep_yield_wm2)(void) = verif_yield_wm;
void h_wake_many(void) {
  long n = nondet_long();
  __CPROVER_assume(0 <= n && n <= WM_N);
  _Bool with_cb = nondet_bool();
  g_deq = 0; g_empty_polls = 0; g_pushed = 0; g_cb_calls = 0; g_cb_after_deq = -1;
  g_envs = ENVS2; g_envs_sz = 1; g_worker_rank = 0; ENV.rank = 0;
  int r = myth_wake_many_from_queue(JC.sleep_q, with_cb ? verif_cb : 0, 0, n);
  __CPROVER_assert(r == n, "wake_many: returns n");
  __CPROVER_assert(g_deq == n, "wake_many: dequeues exactly n sleepers (spinning for late ones)");
  __CPROVER_assert(g_pushed == n, "wake_many: makes exactly n threads runnable");
  __CPROVER_assert(g_cb_calls == (with_cb ? 1 : 0) && (!with_cb || g_cb_after_deq == n), "wake_many: callback once, after the n-th dequeue");
  VERIF_CANARY();
}
