/* C15 -- configuration parsing, part 1: the CPU-list parser and its consumer (DESIGN §4 C15).
 *
 * Functions under contract (real bodies, src/myth_bind_worker.c is #included unmodified):
 *   int_list_add, parse_error, parse_int, parse_range, parse_range_list, myth_parse_cpu_list (next_char, cur_char,
 *   set_ok_pos, init_char_stream, init_int_list are inlined into their callers), myth_get_available_cpus,
 *   myth_get_worker_cpu, myth_bind_worker.
 *
 * The input: ANY buffer g_S with a NUL at position g_len, 0 <= g_len <= INT_MAX-3 (no other assumption on the
 * contents: an earlier NUL just makes the C string shorter).  The output list: any capacity 0 <= g_n <= 2^24.
 * Universal statements use ghost witnesses chosen before the call (DESIGN §3.1):
 *   g_k  a position of the string   ("every consumed character ...")
 *   g_w  an index of the output     ("every element appended / every older element is preserved ...")
 *
 * What the property asks of the parser (statement of C15): no malformed value crashes or hangs the library --
 *   - no read beyond the terminator, no write outside a[0..n)            (CBMC pointer/bounds obligations)
 *   - no assert reachable                                                (next_char's assert: finding F5a)
 *   - every loop terminates                                              (decreases clauses)
 *   - a malformed value is rejected (-1) with a diagnostic (parse_error), a value is accepted only if the whole
 *     string up to its NUL was consumed and consists of the characters of the grammar a, a-b, a-b:c, commas
 *   - the caller (myth_get_available_cpus) treats -1 as "not specified" and keeps every index in bounds.
 * Numbers too large for int (x*10+d, a+1, x+=c) are well-formed-but-unusable requests, outside the property; the
 * postconditions below are written so that they hold under CBMC's wrap-around semantics for those, and the
 * signed-overflow obligations themselves are reported separately (benign list).
 */
#include "verif_common.h"

/* ---- ghosts ---- */
char * g_S;          /* the string */
int    g_len;        /* g_S[g_len] == 0 */
int  * g_A;          /* output array */
int    g_n;          /* its capacity */
int    g_diag;       /* parse_error was called (0/1) */
int    g_k;          /* witness position in the string */
int    g_w;          /* witness index in the output */
int    g_i0, g_li0; /* cs->i and il->i at the call of parse_range_list (named so that its loop invariant can refer to them) */
int    g_env_set;    /* getenv(var) returns g_S (1) or NULL (0) */
const char * g_var;  /* the name myth_parse_cpu_list is asked to read */
long   g_ncpu;       /* what sysconf(_SC_NPROCESSORS_ONLN) returns */
int    g_pcl_ret;    /* what the parser returns to myth_get_available_cpus */
int    g_affinity_calls, g_affinity_cpu;
int    g_c, g_c_in; /* witness CPU number, and whether the affinity mask contains it */

#include "myth_bind_worker.c"                       /* the real code */

#define LEN_MAX 2147483644                           /* INT_MAX - 3: parse_error computes 2 + cs->i */
#define N_MAX   (1 << 24)
#define STR_OK      (g_S != 0 && 0 <= g_len && g_len <= LEN_MAX && g_S[g_len] == 0)
#define CS_OK(cs)   ((cs)->a == g_S && 0 <= (cs)->ok_pos && (cs)->ok_pos <= (cs)->i && (cs)->i <= g_len)
#define IL_OK(il)   ((il)->a == g_A && g_A != 0 && (il)->n == g_n && 0 <= (il)->i && (il)->i <= (il)->n)
#define DIAG_OK     (g_diag == 0 || g_diag == 1)
#define WIT_OK      (0 <= g_k && g_k <= g_len && 0 <= g_w)
#define IS_DIGIT(c) ('0' <= (c) && (c) <= '9')
#define IN_ALPHA(c) (IS_DIGIT(c) || (c) == ',' || (c) == '-' || (c) == ':')

/* ---------------- contracts ---------------- */

int int_list_add_contract(int_list_t il, int x)
  __CPROVER_requires(IL_OK(il) && g_w >= 0)
  __CPROVER_assigns(il->i, __CPROVER_object_upto(g_A, (size_t)g_n * sizeof(int)))
  __CPROVER_ensures(IL_OK(il))
  __CPROVER_ensures(__CPROVER_return_value == (__CPROVER_old(il->i) < g_n ? 1 : 0))
  __CPROVER_ensures(il->i == __CPROVER_old(il->i) + __CPROVER_return_value)
  __CPROVER_ensures(__CPROVER_return_value == 1 ==> g_A[il->i - 1] == x)
  /* frame: every other cell keeps its value */
  __CPROVER_ensures((g_w < g_n && !(__CPROVER_return_value == 1 && g_w == __CPROVER_old(il->i))) ==> g_A[g_w] == __CPROVER_old(g_A[g_w < g_n ? g_w : 0]));

/* the diagnostic of the parser */
void parse_error_contract(char_stream_t cs, char * msg)
  __CPROVER_requires(STR_OK && CS_OK(cs) && DIAG_OK)
  __CPROVER_assigns(g_diag)
  __CPROVER_ensures(g_diag == 1);

int parse_int_contract(char_stream_t cs)
  __CPROVER_requires(STR_OK && CS_OK(cs) && DIAG_OK && WIT_OK)
  __CPROVER_assigns(cs->i, g_diag)
  __CPROVER_ensures(CS_OK(cs) && DIAG_OK && cs->i >= __CPROVER_old(cs->i) && cs->ok_pos == __CPROVER_old(cs->ok_pos))
  __CPROVER_ensures(!IS_DIGIT(g_S[cs->i]))                                             /* maximal munch */
  __CPROVER_ensures((__CPROVER_old(cs->i) <= g_k && g_k < cs->i) ==> IS_DIGIT(g_S[g_k]))   /* consumed digits only */
  __CPROVER_ensures(cs->i == __CPROVER_old(cs->i) ==> (__CPROVER_return_value == -1 && g_diag == 1))  /* no digit: -1 + diagnostic */
  __CPROVER_ensures(cs->i >  __CPROVER_old(cs->i) ==> (g_diag == __CPROVER_old(g_diag) && IS_DIGIT(g_S[__CPROVER_old(cs->i)]) && IS_DIGIT(g_S[cs->i - 1])));

int parse_range_contract(char_stream_t cs, int_list_t il)
  __CPROVER_requires(STR_OK && CS_OK(cs) && IL_OK(il) && DIAG_OK && WIT_OK && 0 <= g_n && g_n <= N_MAX)
  __CPROVER_requires((void *)cs != (void *)il)
  __CPROVER_assigns(cs->i, g_diag, il->i, __CPROVER_object_upto(g_A, (size_t)g_n * sizeof(int)))
  __CPROVER_ensures(__CPROVER_return_value == 0 || __CPROVER_return_value == 1)
  __CPROVER_ensures(CS_OK(cs) && IL_OK(il) && DIAG_OK)
  __CPROVER_ensures(cs->i >= __CPROVER_old(cs->i) && cs->ok_pos == __CPROVER_old(cs->ok_pos) && il->i >= __CPROVER_old(il->i))
  /* appends only: older elements are preserved */
  __CPROVER_ensures(g_w < __CPROVER_old(il->i) ==> g_A[g_w] == __CPROVER_old(g_A[g_w < il->i ? g_w : 0]))
  /* accepted: non-empty, starts and ends with a digit, only characters of the range grammar, no diagnostic */
  __CPROVER_ensures(__CPROVER_return_value == 1 ==> (cs->i > __CPROVER_old(cs->i) && g_diag == __CPROVER_old(g_diag)
                     && IS_DIGIT(g_S[__CPROVER_old(cs->i)]) && IS_DIGIT(g_S[cs->i - 1]) && !IS_DIGIT(g_S[cs->i])))
  __CPROVER_ensures((__CPROVER_return_value == 1 && __CPROVER_old(cs->i) <= g_k && g_k < cs->i) ==>
                     (IS_DIGIT(g_S[g_k]) || g_S[g_k] == '-' || g_S[g_k] == ':'))
  /* rejected: with a diagnostic, unless a number that was read evaluates to -1 (int overflow, outside the property) */
  __CPROVER_ensures(__CPROVER_return_value == 0 ==> (g_diag == 1 || cs->i > __CPROVER_old(cs->i)))
  /* does not start with a digit: rejected on the spot, nothing consumed, nothing appended */
  __CPROVER_ensures(!IS_DIGIT(g_S[__CPROVER_old(cs->i)]) ==> (__CPROVER_return_value == 0 && g_diag == 1 && cs->i == __CPROVER_old(cs->i) && il->i == __CPROVER_old(il->i)));

int parse_range_list_contract(char_stream_t cs, int_list_t il)
  __CPROVER_requires(STR_OK && CS_OK(cs) && IL_OK(il) && DIAG_OK && WIT_OK && 0 <= g_n && g_n <= N_MAX)
  __CPROVER_requires((void *)cs != (void *)il && cs->i == g_i0 && il->i == g_li0)
  __CPROVER_assigns(cs->i, cs->ok_pos, g_diag, il->i, __CPROVER_object_upto(g_A, (size_t)g_n * sizeof(int)))
  __CPROVER_ensures(__CPROVER_return_value == 0 || __CPROVER_return_value == 1)
  __CPROVER_ensures(CS_OK(cs) && IL_OK(il) && DIAG_OK)
  __CPROVER_ensures(cs->i >= __CPROVER_old(cs->i) && il->i >= __CPROVER_old(il->i))
  __CPROVER_ensures(g_w < __CPROVER_old(il->i) ==> g_A[g_w] == __CPROVER_old(g_A[g_w < il->i ? g_w : 0]))
  /* accepted <=> the whole string up to a NUL was consumed, it is non-empty, begins and ends with a digit and
     contains only characters of the grammar; no diagnostic was printed */
  __CPROVER_ensures(__CPROVER_return_value == 1 ==> (g_S[cs->i] == 0 && cs->ok_pos == cs->i && cs->i > __CPROVER_old(cs->i)
                     && g_diag == __CPROVER_old(g_diag) && IS_DIGIT(g_S[__CPROVER_old(cs->i)]) && IS_DIGIT(g_S[cs->i - 1])))
  __CPROVER_ensures((__CPROVER_return_value == 1 && __CPROVER_old(cs->i) <= g_k && g_k < cs->i) ==> IN_ALPHA(g_S[g_k]))
  __CPROVER_ensures(__CPROVER_return_value == 0 ==> (g_diag == 1 || cs->i > __CPROVER_old(cs->i)))
  __CPROVER_ensures(!IS_DIGIT(g_S[__CPROVER_old(cs->i)]) ==> (__CPROVER_return_value == 0 && g_diag == 1 && il->i == __CPROVER_old(il->i)));

int myth_parse_cpu_list_contract(const char * var, int * a, int n)
  __CPROVER_requires(var == g_var && a == g_A && g_A != 0 && n == g_n && 0 <= g_n && g_n <= N_MAX)
  __CPROVER_requires((g_env_set == 0 || (g_env_set == 1 && STR_OK)) && g_diag == 0 && WIT_OK && g_i0 == 0 && g_li0 == 0)
  __CPROVER_assigns(g_diag, __CPROVER_object_upto(g_A, (size_t)g_n * sizeof(int)))
  __CPROVER_ensures(__CPROVER_return_value == -1 || (0 <= __CPROVER_return_value && __CPROVER_return_value <= n))
  __CPROVER_ensures(DIAG_OK)
  /* variable not set: empty list, nothing written, nothing printed */
  __CPROVER_ensures(g_env_set == 0 ==> (__CPROVER_return_value == 0 && g_diag == 0 && (g_w < g_n ==> g_A[g_w] == __CPROVER_old(g_A[g_w < g_n ? g_w : 0]))))
  /* a list is returned only if the parser printed no diagnostic: a rejected string is never used */
  __CPROVER_ensures(__CPROVER_return_value >= 0 ==> g_diag == 0)
  /* the empty string, and any string that does not begin with a digit, is malformed: -1 and a diagnostic */
  __CPROVER_ensures((g_env_set == 1 && !IS_DIGIT(g_S[0])) ==> (__CPROVER_return_value == -1 && g_diag == 1));

/* ---- external functions ---- */
char * getenv_contract(const char * name)
  __CPROVER_requires(name == g_var)                       /* reads the variable it was asked to read */
  __CPROVER_assigns()
  __CPROVER_ensures(__CPROVER_return_value == (g_env_set ? g_S : (char *)0));

int fputc_contract(int c, FILE * f)
  __CPROVER_requires(1) __CPROVER_assigns() __CPROVER_ensures(1);

long sysconf_contract(int name)
  __CPROVER_requires(name == _SC_NPROCESSORS_ONLN)
  __CPROVER_assigns()
  __CPROVER_ensures(__CPROVER_return_value == g_ncpu);

/* the affinity mask S of the process: arbitrary; g_c is a witness CPU number, g_c_in says whether it is in S */
int sched_getaffinity_contract(pid_t pid, size_t sz, cpu_set_t * set)
  __CPROVER_requires(sz == sizeof(cpu_set_t) && __CPROVER_w_ok(set, sizeof(cpu_set_t)) && 0 <= g_c && g_c < CPU_SETSIZE)
  __CPROVER_assigns(__CPROVER_object_whole(set))
  __CPROVER_ensures(((set->__bits[g_c / 64] >> (g_c % 64)) & 1) == (unsigned long)g_c_in);

/* the parser as seen by its caller: anything its contract allows (proved in job c15.cpulist.entry) */
int pcl_for_caller_contract(const char * var, int * a, int n)
  __CPROVER_requires(a == myth_cpu_list && n == N_MAX_CPUS)
  __CPROVER_assigns(__CPROVER_object_whole(myth_cpu_list))
  __CPROVER_ensures(__CPROVER_return_value == g_pcl_ret && (g_pcl_ret == -1 || (0 <= g_pcl_ret && g_pcl_ret <= N_MAX_CPUS)));

int setaffinity_contract(pthread_t thread, size_t cpusetsize, const cpu_set_t * cpuset)
  __CPROVER_requires(cpusetsize == sizeof(cpu_set_t) && g_affinity_calls == 0)
  /* the mask handed to the OS contains exactly the CPU of this worker (g_c: witness for "no other bit") */
  __CPROVER_requires(g_affinity_cpu != -1 && 0 <= g_c && g_c < CPU_SETSIZE)
  __CPROVER_requires(((cpuset->__bits[g_c / 64] >> (g_c % 64)) & 1) == (g_c == g_affinity_cpu ? 1UL : 0UL))
  __CPROVER_assigns(g_affinity_calls)
  __CPROVER_ensures(g_affinity_calls == 1);

/* myth_get_worker_cpu as seen by myth_bind_worker: -1 or any number found in the list (its body is in job consumer) */
int get_worker_cpu_contract(int rank)
  __CPROVER_requires(rank >= 0) __CPROVER_assigns() __CPROVER_ensures(__CPROVER_return_value == g_affinity_cpu);

pid_t getpid_contract(void)
  __CPROVER_requires(1) __CPROVER_assigns() __CPROVER_ensures(1);

pthread_t pthread_self_contract(void)
  __CPROVER_requires(1) __CPROVER_assigns() __CPROVER_ensures(1);

/* keep contract-only symbols referenced */
void * keep_c15a[] = { (void *)getenv_contract, (void *)fputc_contract, (void *)sysconf_contract, (void *)sched_getaffinity_contract,
  (void *)pcl_for_caller_contract, (void *)get_worker_cpu_contract, (void *)getpid_contract, (void *)setaffinity_contract, (void *)pthread_self_contract, (void *)parse_error_contract,
  (void *)int_list_add_contract, (void *)parse_int_contract, (void *)parse_range_contract, (void *)parse_range_list_contract,
  (void *)myth_parse_cpu_list_contract };

/* ---------------- harnesses ---------------- */
char_stream CS;
int_list    IL;

static void setup_string(void) {
  g_len = nondet_int();
  __CPROVER_assume(0 <= g_len && g_len <= LEN_MAX);
  g_S = malloc((size_t)g_len + 1);                 /* contents arbitrary */
  __CPROVER_assume(g_S != 0);
  g_S[g_len] = 0;
  g_k = nondet_int();
  __CPROVER_assume(0 <= g_k && g_k <= g_len);
  g_diag = nondet_int();
  __CPROVER_assume(DIAG_OK);
}
static void setup_stream(void) {
  CS.a = g_S; CS.i = nondet_int(); CS.ok_pos = nondet_int();
  __CPROVER_assume(CS_OK(&CS));
}
static void setup_list(void) {
  g_n = nondet_int();
  __CPROVER_assume(0 <= g_n && g_n <= N_MAX);
  g_A = malloc(((size_t)g_n + 1) * sizeof(int));    /* one spare cell: a[n] must never be touched */
  __CPROVER_assume(g_A != 0);
  IL.a = g_A; IL.n = g_n; IL.i = nondet_int();
  __CPROVER_assume(IL_OK(&IL));
  g_w = nondet_int();
  __CPROVER_assume(0 <= g_w && g_w <= g_n);
}

void h_int_list_add(void) {
  setup_list();
  int x = nondet_int();
  int sentinel = g_A[g_n];
  int r = int_list_add(&IL, x);
  __CPROVER_assert(g_A[g_n] == sentinel, "int_list_add: the cell behind the capacity is untouched");
  VERIF_CANARY();
}

void h_parse_error(void) {
  setup_string(); setup_stream();
  char msg[2]; msg[0] = nondet_char(); msg[1] = 0;
  parse_error(&CS, msg);
  VERIF_CANARY();
}

void h_parse_int(void) {
  setup_string(); setup_stream();
  int r = parse_int(&CS);
  VERIF_CANARY();
}

void h_parse_range(void) {
  setup_string(); setup_stream(); setup_list();
  int r = parse_range(&CS, &IL);
  VERIF_CANARY();
}

void h_parse_range_list(void) {
  setup_string(); setup_stream(); setup_list();
  g_i0 = CS.i; g_li0 = IL.i;
  int r = parse_range_list(&CS, &IL);
  VERIF_CANARY();
}

void h_parse_cpu_list(void) {
  setup_string(); setup_list();
  g_diag = 0;
  g_env_set = nondet_int();
  __CPROVER_assume(g_env_set == 0 || g_env_set == 1);
  static const char name[] = "MYTH_CPU_LIST";
  g_var = name; g_i0 = 0; g_li0 = 0;
  int sentinel = g_A[g_n];
  int r = myth_parse_cpu_list(name, g_A, g_n);
  __CPROVER_assert(g_A[g_n] == sentinel, "myth_parse_cpu_list: a[n] untouched");
  VERIF_CANARY();
}

/* the consumer: every parser outcome, every CPU count the OS may report, every affinity mask */
void h_get_available_cpus(void) {
  g_pcl_ret = nondet_int();
  g_ncpu = nondet_long();
  __CPROVER_assume(g_ncpu == -1 || (1 <= g_ncpu && g_ncpu <= N_MAX_CPUS));
  g_c = nondet_int(); g_c_in = nondet_int(); g_w = nondet_int();
  __CPROVER_assume(0 <= g_c && g_c < CPU_SETSIZE && (g_c_in == 0 || g_c_in == 1) && 0 <= g_w);
  n_available_cpus = -1;
  myth_get_available_cpus();
  __CPROVER_assert(0 <= n_available_cpus && n_available_cpus <= N_MAX_CPUS, "get_available_cpus: 0 <= n_available_cpus <= N_MAX_CPUS");
  __CPROVER_assert(!(g_pcl_ret > 0) || n_available_cpus <= g_pcl_ret, "get_available_cpus: uses at most the CPUs that were listed");
  __CPROVER_assert(!(g_pcl_ret <= 0 && g_ncpu > 0) || n_available_cpus <= g_ncpu, "get_available_cpus: malformed (-1) or empty list falls back to the CPU count");
  __CPROVER_assert(!(g_pcl_ret <= 0 && g_ncpu == -1) || n_available_cpus == 0, "get_available_cpus: no list and unknown CPU count: no binding");
  __CPROVER_assert(!(g_pcl_ret <= 0 && g_ncpu > 0 && g_c < g_ncpu && g_c_in == 1) || n_available_cpus >= 1,
                   "get_available_cpus: a malformed (-1) or empty list is treated as unset: the CPUs 0..ncpu-1 of the affinity mask are used");
  /* binding: any rank */
  int rank = nondet_int();
  __CPROVER_assume(rank >= 0);
  int cpu = myth_get_worker_cpu(rank);
  __CPROVER_assert(!(n_available_cpus == 0) || cpu == -1, "get_worker_cpu: -1 (no binding) when there is nothing to bind to");
  __CPROVER_assert(!(rank < n_available_cpus) || cpu == worker_cpu[rank], "get_worker_cpu: the first workers get the CPUs in list order (docs/bind.txt)");
  VERIF_CANARY();
}

void h_bind_worker(void) {
  int rank = nondet_int();
  __CPROVER_assume(rank >= 0);
  g_affinity_calls = 0;
  g_c = nondet_int();
  __CPROVER_assume(0 <= g_c && g_c < CPU_SETSIZE);
  g_affinity_cpu = nondet_int();                 /* -1 (no binding) or ANY non-negative number the list contained */
  __CPROVER_assume(g_affinity_cpu >= -1);
  myth_bind_worker(rank);
  __CPROVER_assert(g_affinity_calls == (g_affinity_cpu != -1 ? 1 : 0), "bind_worker: binds iff there is a CPU to bind to");
  VERIF_CANARY();
}
