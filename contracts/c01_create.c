/* C01 -- creation side and "the start function runs exactly once" (DESIGN §4 C01).
 * Functions under contract (real bodies, src/myth_sched_func.h): myth_thread_attr_init_body and the attribute
 * setters/getters, myth_create_ex_body, myth_create_1, init_myth_thread_struct, myth_entry_point, myth_exit_body,
 * myth_join_1.  The finish side (myth_entry_point_cleanup, myth_entry_point_1/2) and the join side
 * (myth_join_body, myth_join_2/3) are under contract in unit C12 (release discipline: result read only after
 * FREE_READY2 is visible, FREE_READY2 published before the unlock, waiter registered under the lock).
 */
#include "verif_common.h"
#include "verif_ctx.h"
#include "myth_sched_func.h"

struct myth_running_env ENVS2[2];
#define ENV   (ENVS2[0])               /* the worker the operation starts on */
#define ENV_B (ENVS2[1])               /* the worker a thread may have migrated to while inside its start function */
int g_migrated;
struct myth_thread PARENT, NEW;
long STKBLOCK[64];                      /* the stack block handed out by the (separately proved, C12) stack allocator */
#define STK_TOP ((void *)&STKBLOCK[62])
/* custom data (the steal hint, myth_wsapi_get_hint_*) is carved from the top of the new stack: the initial stack pointer
   is lowered by 16 + the size rounded to 16; the RECORD keeps naming the stack as the allocator handed it out */
char CDATA[24]; size_t g_cd;
#define CD_CARVE (g_cd ? (16 + (((g_cd + 15) >> 4) << 4)) : 0)
#define STK_START ((void *)((char *)STK_TOP - CD_CARVE))

int g_child_first, g_with_attr;
myth_thread_attr_t ATTR;
void * g_arg; void * g_fn_ret;
int g_fn_calls; void * g_fn_arg;
int g_cleanup_calls, g_pushed_parent, g_pushed_new, g_ctx_kind, g_desc_calls, g_stack_calls, g_ensure;
size_t g_stack_req;

/* the user's start function */
int g_check_new_at_start;
#define NEW_READY (NEW.status == MYTH_STATUS_READY && NEW.join_thread == 0 && NEW.env == &ENV && NEW.stack == STK_TOP && \
                   NEW.cancelled == 0 && NEW.cancel_enabled == 1 && NEW.tls->root == 0 && NEW.tls->pre_alloc_p == NEW.tls->pre_alloc_buf && \
                   NEW.detached == ((g_with_attr && ATTR.detachstate) ? 1 : 0) && \
                   NEW.custom_data_size == g_cd && (g_cd == 0 || NEW.custom_data_ptr == (void *)((char *)STK_START + 16)))
static void * verif_user_fn(void * a) {
  /* child-first creation runs the function at once, on the creator's worker: by then the record must be complete (a
     recycled record holds garbage from its previous life: every field the rest of the library reads must have been set) */
  __CPROVER_assert(!g_check_new_at_start || (NEW_READY && ENV.this_thread == &NEW),
                   "create (child first): the record of the new thread is complete (status, joiner, detach state, cancellation, thread-specific data, stack, worker) when its function starts");
  g_fn_calls++; g_fn_arg = a;
  if (nondet_bool()) {
    /* the function blocked or spawned and its continuation was stolen: it returns on ANOTHER worker, while the worker it
       started on runs some other thread (or none).  Anything read from the old worker's descriptor is stale now. */
    g_migrated = 1; g_envs_sz = 2; g_worker_rank = 1; ENV_B.rank = 1;
    ENV_B.this_thread = ENV.this_thread; if (ENV.this_thread) ENV.this_thread->env = &ENV_B;
    ENV.this_thread = nondet_bool() ? &PARENT : 0;
  }
  return g_fn_ret;
}

/* ---- stubs with bodies (they return pointers the code dereferences) ---- */
myth_thread_t verif_new_desc(myth_running_env_t env) {
  __CPROVER_assert(env == &ENV, "create: the record comes from the current worker's pool");
  __CPROVER_assert(g_desc_calls == 0, "create: one record per thread");
  g_desc_calls++;
  __CPROVER_havoc_object(&NEW);           /* a recycled record: every field holds garbage from its previous life */
  NEW.lock.locked = 0;                    /* the allocator (C12) hands records out with a free lock */
  return &NEW;
}
void * verif_new_stack(myth_running_env_t env, size_t size_in_bytes) {
  __CPROVER_assert(env == &ENV && g_stack_calls == 0, "create: one stack per thread, from the current worker's pool");
  g_stack_calls++; g_stack_req = size_in_bytes;
  return STK_TOP;
}
int ensure_init_contract(void) __CPROVER_requires(1) __CPROVER_assigns(g_ensure) __CPROVER_ensures(1);

/* context construction is C03's subject: here only who/when */
void make_empty_contract(myth_context_t ctx, void * stack, size_t stacksize)
  __CPROVER_requires(ctx == &NEW.context && stack == STK_START && g_ctx_kind == 0 && g_child_first)
  __CPROVER_assigns(g_ctx_kind) __CPROVER_ensures(g_ctx_kind == 1);
void make_voidcall_contract(myth_context_t ctx, void_func_t func, void * stack, size_t stacksize)
  __CPROVER_requires(ctx == &NEW.context && stack == STK_START && g_ctx_kind == 0 && !g_child_first)
  __CPROVER_requires(func == myth_entry_point && "a parent-first thread starts in myth_entry_point")
  __CPROVER_assigns(g_ctx_kind) __CPROVER_ensures(g_ctx_kind == 2);

void push_contract(myth_thread_queue_t q, myth_thread_t th)
  __CPROVER_requires(q == &ENV.runnable_q)
  __CPROVER_requires(g_child_first ==> (th == &PARENT && g_pushed_parent == 0 && g_in_callback == 1 && g_ctx_saved == &PARENT.context &&
                                        ENV.this_thread == &PARENT && "child-first: the parent becomes stealable only after its context is saved, and before the worker is handed to the child"))
  __CPROVER_requires(!g_child_first ==> (th == &NEW && g_pushed_new == 0 && g_ctx_kind == 2 && NEW.entry_func == verif_user_fn && NEW.result == g_arg && NEW_READY &&
                                         "parent-first: the new thread is published only when its record and start context are complete"))
  __CPROVER_assigns(g_pushed_parent, g_pushed_new)
  __CPROVER_ensures(g_child_first ? (g_pushed_parent == 1 && g_pushed_new == __CPROVER_old(g_pushed_new)) : (g_pushed_new == 1 && g_pushed_parent == __CPROVER_old(g_pushed_parent)));
/* should a caller of the common exit path run the destructor walk itself: that is the walk's business (C11); here it is
   only kept from pulling the real walk into these jobs */
int g_c01_fini;
void tls_fini_c01_contract(myth_tls_tree_t * t, myth_tls_key_allocator_t * ka)
  __CPROVER_requires(1) __CPROVER_assigns(g_c01_fini) __CPROVER_ensures(g_c01_fini == 1);
void (*keep_tls_fini_c01)(myth_tls_tree_t *, myth_tls_key_allocator_t *) = myth_tls_tree_fini;
void cleanup_contract(myth_thread_t this_thread)
  __CPROVER_requires(this_thread == &NEW && g_cleanup_calls == 0)
  __CPROVER_requires(g_fn_calls == 1 && NEW.result == g_fn_ret && "the return value is stored in the record before the thread finishes")
  __CPROVER_assigns(g_cleanup_calls) __CPROVER_ensures(g_cleanup_calls == 1);
void suspend_resume_contract(myth_context_t from, myth_context_t to)
  __CPROVER_requires(from == &PARENT.context && to == &NEW.context && g_pushed_parent == 1 && g_ctx_kind == 1)
  __CPROVER_assigns(ENV.this_thread) __CPROVER_ensures(1);

static void world(void) {
  g_envs = ENVS2; g_envs_sz = 1; g_worker_rank = 0; ENV.rank = 0; g_migrated = 0; g_check_new_at_start = 0; ENV.this_thread = &PARENT; PARENT.env = &ENV;
  g_fn_calls = g_cleanup_calls = g_pushed_parent = g_pushed_new = g_ctx_kind = g_desc_calls = g_stack_calls = 0;
  g_ctx_saved = 0; g_switch_count = 0; g_in_callback = 0; g_jumped = 0;
  g_arg = nondet_bool() ? (void *)&STKBLOCK[0] : 0; g_fn_ret = nondet_bool() ? (void *)&STKBLOCK[1] : 0;
}

/* ================================================================== attribute objects */
void h_attr_init(void) {
  __CPROVER_havoc_object(&ATTR);                       /* arbitrary bytes, e.g. an uninitialised local */
  g_attr.stacksize = nondet_ulong(); g_attr.guardsize = nondet_ulong(); g_attr.child_first = nondet_int(); g_attr.initialized = 1;
  int r = myth_thread_attr_init_body(&ATTR);
  __CPROVER_assert(r == 0, "attr_init: returns 0");
  __CPROVER_assert(ATTR.stackaddr == 0 && ATTR.stacksize == g_attr.stacksize && ATTR.guardsize == g_attr.guardsize, "attr_init: default stack settings");
  __CPROVER_assert(ATTR.detachstate == 0 && ATTR.child_first == g_attr.child_first, "attr_init: joinable, default scheduling order");
  __CPROVER_assert(ATTR.custom_data_size == 0 && ATTR.custom_data == 0, "attr_init: EVERY field is initialised (creation reads custom_data_size/custom_data)");
  VERIF_CANARY();
}
void h_attr_setters(void) {
  myth_thread_attr_t a0;
  __CPROVER_havoc_object(&ATTR); a0 = ATTR;
  int which = nondet_int(); size_t v = nondet_ulong(); int d = nondet_int(); void * sa = nondet_bool() ? (void *)STKBLOCK : 0;
  if (which == 0) { myth_thread_attr_setstacksize_body(&ATTR, v); a0.stacksize = v; }
  else if (which == 1) { myth_thread_attr_setguardsize_body(&ATTR, v); a0.guardsize = v; }
  else if (which == 2) { myth_thread_attr_setdetachstate_body(&ATTR, d); a0.detachstate = d; }
  else { myth_thread_attr_setstack_body(&ATTR, sa, v); a0.stackaddr = sa; a0.stacksize = v; }
  __CPROVER_assert(ATTR.stackaddr == a0.stackaddr && ATTR.stacksize == a0.stacksize && ATTR.guardsize == a0.guardsize && ATTR.detachstate == a0.detachstate &&
                   ATTR.child_first == a0.child_first && ATTR.custom_data_size == a0.custom_data_size && ATTR.custom_data == a0.custom_data,
                   "attr setters: each public setter changes exactly its own field(s)");
  size_t gs = 0; int gd = 0;
  myth_thread_attr_getstacksize_body(&ATTR, &gs); myth_thread_attr_getdetachstate_body(&ATTR, &gd);
  __CPROVER_assert(gs == ATTR.stacksize && gd == ATTR.detachstate, "attr getters: read back what was set");
  VERIF_CANARY();
}

/* ================================================================== creation */
void h_create(void) {
  world();
  g_with_attr = nondet_bool(); g_check_new_at_start = 1;
  /* an attribute object prepared with the public functions only: attr_init's postcondition + setters */
  ATTR.stackaddr = 0; ATTR.stacksize = nondet_ulong(); ATTR.guardsize = nondet_ulong(); ATTR.detachstate = nondet_bool();
  g_cd = nondet_bool() ? 0 : (nondet_bool() ? 8 : 24);
  ATTR.child_first = nondet_bool(); ATTR.custom_data_size = g_cd; ATTR.custom_data = g_cd ? (void *)CDATA : 0;
  if (!g_with_attr) g_cd = 0;
  g_child_first = g_with_attr ? ATTR.child_first : 1;
  _Bool with_id = nondet_bool();
  myth_thread_t id = 0;
  int r = myth_create_ex_body(with_id ? &id : 0, g_with_attr ? &ATTR : 0, verif_user_fn, g_arg);
  __CPROVER_assert(r == 0, "create: returns 0");
  __CPROVER_assert(!with_id || id == &NEW, "create: the thread id is stored when an id pointer is given (NULL is documented and tolerated)");
  __CPROVER_assert(g_desc_calls == 1 && g_stack_calls == 1 && g_stack_req == (g_with_attr ? ATTR.stacksize : 0), "create: one record, one stack of the requested size (0 = default)");
  if (g_child_first) {
    __CPROVER_assert(g_switch_count == 1 && g_switch_to == &NEW.context && g_pushed_parent == 1 && g_pushed_new == 0, "create (child first): exactly one switch, parent -> child, parent left on the run queue");
    __CPROVER_assert(g_fn_calls == 1 && g_fn_arg == g_arg, "create (child first): the start function is invoked exactly once with the supplied argument");
    __CPROVER_assert(g_cleanup_calls == 1, "create (child first): the child finishes through the common exit path exactly once");
  } else {
    __CPROVER_assert(g_switch_count == 0 && g_pushed_new == 1 && g_pushed_parent == 0 && g_fn_calls == 0, "create (parent first): no switch; the new thread is published exactly once, not started by the creator");
  }
  VERIF_CANARY();
}

/* ================================================================== start of a parent-first thread, exit, join result */
void h_entry_point(void) {
  world();
  g_child_first = 0;
  ENV.this_thread = &NEW; NEW.env = &ENV; NEW.entry_func = verif_user_fn; NEW.result = g_arg;
  myth_entry_point();
  __CPROVER_assert(g_fn_calls == 1 && g_fn_arg == g_arg, "entry_point: the start function is invoked exactly once with the stored argument");
  __CPROVER_assert(g_cleanup_calls == 1, "entry_point: finishes through the common exit path exactly once, after the result has been stored");
  VERIF_CANARY();
}
void h_exit(void) {
  world();
  ENV.this_thread = &NEW; NEW.env = &ENV; g_fn_calls = 1;      /* the thread is inside its start function */
  NEW.result = g_arg;
  myth_exit_body(g_fn_ret);
  __CPROVER_assert(g_cleanup_calls == 1, "exit: the exit value is stored, then the thread finishes through the common exit path");
  VERIF_CANARY();
}
/* the third way a thread ends: it is cancelled and reaches a cancellation point */
void h_testcancel(void) {
  world();
  ENV.this_thread = &NEW; NEW.env = &ENV; g_fn_calls = 1;      /* the thread is inside its start function */
  NEW.lock.locked = 0; g_myth_init_state = myth_init_state_initialized;      /* a running thread: the library is initialised */
  NEW.cancel_enabled = nondet_uchar(); NEW.cancelled = nondet_uchar();
  _Bool hit = NEW.cancel_enabled && NEW.cancelled;
  g_fn_ret = MYTH_CANCELED; NEW.result = g_arg;
  myth_testcancel_body();
  __CPROVER_assert(g_cleanup_calls == (hit ? 1 : 0), "testcancel: a cancelled thread (and only a cancelled one) finishes through the common exit path, exactly once");
  __CPROVER_assert(!hit || NEW.result == MYTH_CANCELED, "testcancel: the joiner of a cancelled thread gets MYTH_CANCELED");
  __CPROVER_assert(NEW.lock.locked == 0, "testcancel: the record's lock is released again");
  VERIF_CANARY();
}
int g_desc_freed, g_with_out; void * g_out;
void free_desc_contract(myth_running_env_t e, myth_thread_t th)
  __CPROVER_requires(th == &NEW && e == &ENV && g_desc_freed == 0)
  __CPROVER_requires((!g_with_out || g_out == g_fn_ret) && "the exit value is read out of the record before the record is released")
  __CPROVER_assigns(g_desc_freed) __CPROVER_ensures(g_desc_freed == 1);
void h_join_1(void) {
  world();
  g_out = (void *)&STKBLOCK[5];
  g_with_out = nondet_bool();
  NEW.result = g_fn_ret; g_desc_freed = 0;
  myth_join_1(&ENV, &NEW, g_with_out ? &g_out : 0);
  __CPROVER_assert(!g_with_out || g_out == g_fn_ret, "join: yields exactly the value the thread returned / passed to exit");
  __CPROVER_assert(g_desc_freed == 1, "join: the record is released once, after the value has been read");
  VERIF_CANARY();
}
