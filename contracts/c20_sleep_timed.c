/* C20 -- sleeping and timed waits respect their deadlines (DESIGN §4 C20).
 *
 * Functions under contract (real, unmodified bodies):
 *   src/myth_sched_func.h : myth_timespec_add, myth_timespec_gt, myth_nanosleep_body, myth_usleep_body,
 *                           myth_sleep_body, myth_timedjoin_body, myth_yield_body
 *   src/myth_misc_func.h  : hr_gettime
 * (myth_mutex_timedlock_body: units/c04.py, job c04.timedlock.)
 *
 * The clock is a GHOST CLOCK (g_now_s, g_now_ns): hr_gettime is replaced by a contract that returns 0, delivers a
 * normalised reading (0 <= nsec <= 999 999 999) that is not earlier than the previous reading (monotone) and
 * otherwise ARBITRARY -- the clock may stand still for any number of readings or jump by any amount; that is the
 * quantification over "all schedules": whatever happens while the caller is descheduled is an arbitrary advance.
 *
 * Call-protocol ghosts (DESIGN §3.5) turn the ordering clauses of the statement into preconditions of the callees:
 *   sleep:  - no clock read for a malformed request            (gettime requires WELLFORMED(request))
 *           - the deadline is  (first reading) + request  in exact timespec arithmetic (carry form)
 *           - every reading after the first that is not strictly past the deadline is followed by exactly one
 *             yield before the next reading                    (g_need_yield; yield requires it, gettime forbids it)
 *           - 0 is returned only when the last reading was strictly past the deadline (g_past)
 *   join:   - the first attempt precedes the first clock read  (gettime requires g_try_ever)
 *           - every reading that is not past the deadline is followed by an attempt (g_must_try)
 *           - a failed polling attempt is followed by a yield before the next reading (g_need_yield), so that
 *             the target can use the worker (1 worker!)
 *           - no attempt after a successful one (the thread has been reaped)
 *           - non-zero only after a reading strictly past abstime; 0 iff an attempt succeeded
 *
 * Flags are 0/1(/2 saturating), never counters: the polling loops are unbounded and closed by loop contracts.
 */
#include "verif_common.h"
#include <errno.h>
#include <time.h>
#include <limits.h>

/* ------------------------------------------------------------------ ghosts */
long g_now_s, g_now_ns;      /* ghost clock: the last reading handed out (at entry: "now") */
long g_req_s, g_req_ns;      /* specification-side copy of the requested duration */
long g_dl_s, g_dl_ns;        /* deadline: sleep = first reading + request (set by the first reading); join = abstime */
int  g_reads;                /* sleep: 0 no reading yet, 1 the start reading was taken, 2 at least one deadline reading */
int  g_need_yield;           /* an unsuccessful poll has happened and the yield that must follow it has not */
int  g_past;                 /* the last reading was strictly later than the deadline */
int  g_yield_ever;
/* join */
int  g_try_ever, g_joined, g_finished, g_must_try, g_read_ever;
void ** g_resp;              /* the result pointer the caller passed */
/* hr_gettime / OS clock */
long g_os_s, g_os_ns; int g_os_ret, g_os_calls; long g_os_clk;

#define NS_MAX 999999999L
#define BILLION 1000000000L
#define NORM(ns)            (0 <= (ns) && (ns) <= NS_MAX)
#define GT(as,ans,bs,bns)   ((as) > (bs) || ((as) == (bs) && (ans) > (bns)))
#define GE(as,ans,bs,bns)   ((as) > (bs) || ((as) == (bs) && (ans) >= (bns)))
#define CARRY(x,y)          (((x) + (y)) >= BILLION ? 1L : 0L)
#define SUM_NS(x,y)         ((x) + (y) - (CARRY(x,y) ? BILLION : 0L))
#define SUM_S(a,x,b,y)      ((a) + (b) + CARRY(x,y))
/* malformed duration, as in the statement (POSIX nanosleep: EINVAL for tv_nsec outside [0, 999999999] or negative tv_sec) */
#define WELLFORMED(s,ns)    ((s) >= 0 && NORM(ns))
/* stated bounds (assumptions): the clock reads less than 2^62 s after the epoch, a request is shorter than 2^62 s;
   then  reading + request (+ carry)  is representable in time_t */
#define CLOCK_MAX ((1L << 62) - 1)
#ifdef C20_FULL_REQ_RANGE        /* diagnostic build: no bound on the request -> the deadline addition overflows (finding, see units/c20.py) */
#define REQ_MAX   LONG_MAX
#else
#define REQ_MAX   ((1L << 62) - 1)
#endif
#define CLOCK_OK  (0 <= g_now_s && g_now_s <= CLOCK_MAX && NORM(g_now_ns))

/* ------------------------------------------------------------------ contracts of the kernels (enforced AND used) */
/* exact, normalised sum in carry form; precondition: normalised inputs, tv_sec sum (+1) representable */
void timespec_add_contract(const struct timespec * a, const struct timespec * b, struct timespec * c)
  __CPROVER_requires(a != 0 && b != 0 && c != 0)
  __CPROVER_requires(NORM(a->tv_nsec) && NORM(b->tv_nsec))
  __CPROVER_requires(b->tv_sec >= 0 ? a->tv_sec <= LONG_MAX - 1 - b->tv_sec : a->tv_sec >= LONG_MIN - b->tv_sec)
  __CPROVER_assigns(*c)
  __CPROVER_ensures(c->tv_nsec == SUM_NS(__CPROVER_old(a->tv_nsec), __CPROVER_old(b->tv_nsec)))
  __CPROVER_ensures(c->tv_sec == SUM_S(__CPROVER_old(a->tv_sec), __CPROVER_old(a->tv_nsec), __CPROVER_old(b->tv_sec), __CPROVER_old(b->tv_nsec)))
  __CPROVER_ensures(NORM(c->tv_nsec));

/* strict lexicographic order on (tv_sec, tv_nsec), for ALL long values of the four fields */
int timespec_gt_contract(const struct timespec * a, const struct timespec * b)
  __CPROVER_requires(a != 0 && b != 0)
  __CPROVER_assigns()
  __CPROVER_ensures(__CPROVER_return_value == (GT(a->tv_sec, a->tv_nsec, b->tv_sec, b->tv_nsec) ? 1 : 0));

/* ------------------------------------------------------------------ sleep: clock and yield by contract */
int gettime_sleep_contract(struct timespec * ts)
  __CPROVER_requires(ts != 0)
  __CPROVER_requires(WELLFORMED(g_req_s, g_req_ns) && "the clock is not read for a malformed request")
  __CPROVER_requires(g_need_yield == 0 && "a yield separates an unsuccessful deadline reading from the next reading")
  __CPROVER_requires(CLOCK_OK && g_req_s <= REQ_MAX)
  __CPROVER_assigns(*ts, g_now_s, g_now_ns, g_reads, g_need_yield, g_past, g_dl_s, g_dl_ns)
  __CPROVER_ensures(__CPROVER_return_value == 0)
  __CPROVER_ensures(ts->tv_sec == g_now_s && ts->tv_nsec == g_now_ns && CLOCK_OK)
  __CPROVER_ensures(GE(g_now_s, g_now_ns, __CPROVER_old(g_now_s), __CPROVER_old(g_now_ns)))           /* monotone */
  /* first reading = start of the sleep; it fixes the deadline */
  __CPROVER_ensures(__CPROVER_old(g_reads) == 0 ==>
      (g_reads == 1 && g_need_yield == 0 && g_past == 0 &&
       g_dl_ns == SUM_NS(g_now_ns, g_req_ns) && g_dl_s == SUM_S(g_now_s, g_now_ns, g_req_s, g_req_ns)))
  /* later readings are deadline checks */
  __CPROVER_ensures(__CPROVER_old(g_reads) != 0 ==>
      (g_reads == 2 && g_dl_s == __CPROVER_old(g_dl_s) && g_dl_ns == __CPROVER_old(g_dl_ns) &&
       g_past == (GT(g_now_s, g_now_ns, g_dl_s, g_dl_ns) ? 1 : 0) && g_need_yield == 1 - g_past));

/* myth_yield_body(): the worker is handed to other runnable threads; whatever they do takes time (the clock advance
   is modelled at the next reading, which is arbitrary) */
int yield_sleep_contract(void)
  __CPROVER_requires(g_need_yield == 1 && "yields exactly once per unsuccessful deadline reading (and only then)")
  __CPROVER_assigns(g_need_yield, g_yield_ever)
  __CPROVER_ensures(g_need_yield == 0 && g_yield_ever == 1);

/* the contract of myth_nanosleep_body: enforced on the real body (job c20.nanosleep), used by usleep / sleep.
   g_req is the specification's name for the request.  GHOST PROLOGUE: "g_req := *req" belongs to the callee's
   specification; the enforcing harness executes it before the call (the body never touches a ghost), a caller that
   uses the contract gets it from assigns + the first ensures clause. */
int nanosleep_contract(const struct timespec * req, struct timespec * rem)
  __CPROVER_requires(req != 0)
  __CPROVER_requires(req->tv_sec <= REQ_MAX)                                   /* stated bound, see assumptions */
  __CPROVER_requires(g_reads == 0 && g_need_yield == 0 && g_past == 0 && g_yield_ever == 0)
  __CPROVER_requires(CLOCK_OK)
  __CPROVER_assigns(g_req_s, g_req_ns, g_now_s, g_now_ns, g_reads, g_need_yield, g_past, g_dl_s, g_dl_ns, g_yield_ever)
  __CPROVER_ensures(g_req_s == req->tv_sec && g_req_ns == req->tv_nsec)
  __CPROVER_ensures(__CPROVER_return_value == 0 || __CPROVER_return_value == EINVAL)
  /* EINVAL exactly for malformed durations ... */
  __CPROVER_ensures((__CPROVER_return_value == EINVAL) == !WELLFORMED(g_req_s, g_req_ns))
  /* ... decided before any clock read, without yielding */
  __CPROVER_ensures(__CPROVER_return_value == EINVAL ==> (g_reads == 0 && g_yield_ever == 0 &&
                    g_now_s == __CPROVER_old(g_now_s) && g_now_ns == __CPROVER_old(g_now_ns)))
  /* 0 only after a reading strictly later than (start reading) + request, all unsuccessful readings yielded */
  __CPROVER_ensures(__CPROVER_return_value == 0 ==> (g_reads == 2 && g_past == 1 && g_need_yield == 0 &&
                    GT(g_now_s, g_now_ns, g_dl_s, g_dl_ns)))
  /* property level: the clock at return is strictly later than the clock at the call + request */
  __CPROVER_ensures(__CPROVER_return_value == 0 ==>
      GT(g_now_s, g_now_ns,
         SUM_S(__CPROVER_old(g_now_s), __CPROVER_old(g_now_ns), g_req_s, g_req_ns), SUM_NS(__CPROVER_old(g_now_ns), g_req_ns)))
  __CPROVER_ensures(CLOCK_OK);

/* ------------------------------------------------------------------ timed join: clock, attempt and yield by contract */
int gettime_join_contract(struct timespec * ts)
  __CPROVER_requires(ts != 0)
  __CPROVER_requires(g_try_ever == 1 && "the first attempt precedes the first clock read (a finished thread is joined even with a past deadline)")
  __CPROVER_requires(g_must_try == 0 && "an attempt follows every reading that is not past the deadline")
  __CPROVER_requires(g_need_yield == 0 && "a yield separates a failed polling attempt from the next reading")
  __CPROVER_requires(g_joined == 0)
  __CPROVER_requires(NORM(g_now_ns))
  __CPROVER_assigns(*ts, g_now_s, g_now_ns, g_read_ever, g_past, g_must_try)
  __CPROVER_ensures(__CPROVER_return_value == 0 && g_read_ever == 1)
  __CPROVER_ensures(ts->tv_sec == g_now_s && ts->tv_nsec == g_now_ns && NORM(g_now_ns))
  __CPROVER_ensures(GE(g_now_s, g_now_ns, __CPROVER_old(g_now_s), __CPROVER_old(g_now_ns)))
  __CPROVER_ensures(g_past == (GT(g_now_s, g_now_ns, g_dl_s, g_dl_ns) ? 1 : 0) && g_must_try == 1 - g_past);

struct myth_thread;
extern struct myth_thread TH;

/* myth_tryjoin_body (C13): 0 iff the target has finished at this attempt (then it is reaped), else EBUSY.
   The target may finish at any moment (g_finished is monotone). */
int tryjoin_contract(struct myth_thread * th, void ** result)
  __CPROVER_requires(th == &TH && result == g_resp && "attempts are made on the caller's thread with the caller's result pointer")
  __CPROVER_requires(g_joined == 0 && "no attempt after a successful one: the descriptor has been reaped")
  __CPROVER_assigns(g_try_ever, g_joined, g_finished, g_must_try, g_need_yield)
  __CPROVER_ensures(g_try_ever == 1 && g_must_try == 0)
  __CPROVER_ensures((g_finished == 0 || g_finished == 1) && g_finished >= __CPROVER_old(g_finished))
  __CPROVER_ensures(__CPROVER_return_value == (g_finished ? 0 : EBUSY))
  __CPROVER_ensures(g_joined == g_finished)
  /* a failed POLLING attempt (one that follows a clock reading) owes a yield */
  __CPROVER_ensures(g_need_yield == ((g_finished == 0 && g_read_ever == 1) ? 1 : 0));

/* myth_yield_ex_body(opt): other threads -- the target among them -- run */
int yield_join_contract(int opt)
  __CPROVER_requires(0 <= opt && opt <= 4)
  __CPROVER_requires(g_joined == 0 && "does not keep polling after a successful join")
  __CPROVER_assigns(g_need_yield, g_yield_ever, g_finished)
  __CPROVER_ensures(g_need_yield == 0 && g_yield_ever == 1)
  __CPROVER_ensures((g_finished == 0 || g_finished == 1) && g_finished >= __CPROVER_old(g_finished));

int timedjoin_contract(struct myth_thread * th, void ** result, const struct timespec * abstime)
  __CPROVER_requires(th == &TH && result == g_resp && abstime != 0)
  __CPROVER_requires(g_dl_s == abstime->tv_sec && g_dl_ns == abstime->tv_nsec)      /* ANY long values */
  __CPROVER_requires(g_try_ever == 0 && g_joined == 0 && g_must_try == 0 && g_need_yield == 0 && g_read_ever == 0 &&
                     g_past == 0 && g_yield_ever == 0 && (g_finished == 0 || g_finished == 1) && NORM(g_now_ns))
  __CPROVER_assigns(g_now_s, g_now_ns, g_read_ever, g_past, g_must_try, g_try_ever, g_joined, g_finished, g_need_yield, g_yield_ever)
  /* 0 iff an attempt succeeded */
  __CPROVER_ensures((__CPROVER_return_value == 0) == (g_joined == 1))
  /* a (any) non-zero error only after a clock reading strictly later than the absolute deadline */
  __CPROVER_ensures(__CPROVER_return_value != 0 ==> (g_read_ever == 1 && g_past == 1 && GT(g_now_s, g_now_ns, g_dl_s, g_dl_ns)))
  /* and never without an attempt after the last reading that was still within the deadline */
  __CPROVER_ensures(g_try_ever == 1 && g_must_try == 0)
  /* a thread that has already finished is joined without looking at the clock, whatever the deadline */
  __CPROVER_ensures(__CPROVER_old(g_finished) == 1 ==> (__CPROVER_return_value == 0 && g_read_ever == 0 && g_yield_ever == 0));

/* ------------------------------------------------------------------ hr_gettime: the OS clock by (assumed) contract */
int os_clock_gettime_contract(clockid_t clk, struct timespec * ts)
  __CPROVER_requires(ts != 0 && g_os_calls == 0)
  __CPROVER_assigns(*ts, g_os_calls, g_os_clk)
  __CPROVER_ensures(g_os_calls == 1 && g_os_clk == clk)
  __CPROVER_ensures(__CPROVER_return_value == g_os_ret)
  __CPROVER_ensures(g_os_ret == 0 ==> (ts->tv_sec == g_os_s && ts->tv_nsec == g_os_ns));

int yield_ex_once_contract(int opt)
  __CPROVER_requires(0 <= opt && opt <= 4 && g_yield_ever == 0)
  __CPROVER_assigns(g_yield_ever)
  __CPROVER_ensures(g_yield_ever == 1 && __CPROVER_return_value == 0);

/* ------------------------------------------------------------------ the real code */
#include "myth_sched_func.h"
/* the same for a sleeper that polls with myth_yield_ex(option): every option but "steal only" gives the runnable threads
   of the sleeper's OWN run queue the worker; with "steal only" they run only if an idle thief happens to exist */
int yield_ex_sleep_contract(int opt)
  __CPROVER_requires(g_need_yield == 1 && "yields exactly once per unsuccessful deadline reading (and only then)")
  __CPROVER_requires(opt != myth_yield_option_steal_only && "the sleeper's yield lets the other runnable threads of its own worker run in the meantime")
  __CPROVER_assigns(g_need_yield, g_yield_ever)
  __CPROVER_ensures(g_need_yield == 0 && g_yield_ever == 1 && __CPROVER_return_value == 0);
int (*keep_yield_ex_c20)(int) = myth_yield_ex_body;

struct myth_thread TH;
void * RES;
struct timespec REM;

/* ------------------------------------------------------------------ harnesses */
static void clock_setup(void) {
  g_now_s = nondet_long(); g_now_ns = nondet_long();
  __CPROVER_assume(CLOCK_OK);
  g_reads = 0; g_need_yield = 0; g_past = 0; g_yield_ever = 0;
  g_dl_s = 0; g_dl_ns = 0;
  g_try_ever = g_joined = g_must_try = g_read_ever = 0; g_finished = 0;
}

/* myth_timespec_add against its contract: all normalised inputs whose tv_sec sum is representable */
void h_timespec_add(void) {
  struct timespec a, b, c;
  a.tv_sec = nondet_long(); a.tv_nsec = nondet_long();
  b.tv_sec = nondet_long(); b.tv_nsec = nondet_long();
  c.tv_sec = nondet_long(); c.tv_nsec = nondet_long();
  myth_timespec_add(&a, &b, &c);
  /* the same statement once more, outside the contract: carries at both ends */
  __CPROVER_assert(a.tv_nsec + b.tv_nsec < BILLION ? (c.tv_sec == a.tv_sec + b.tv_sec && c.tv_nsec == a.tv_nsec + b.tv_nsec)
                                                   : (c.tv_sec == a.tv_sec + b.tv_sec + 1 && c.tv_nsec == a.tv_nsec + b.tv_nsec - BILLION),
                   "timespec_add: exact sum with nanosecond carry");
  VERIF_CANARY();
}

/* myth_timespec_gt against its contract: all long values */
void h_timespec_gt(void) {
  struct timespec a, b;
  a.tv_sec = nondet_long(); a.tv_nsec = nondet_long();
  b.tv_sec = nondet_long(); b.tv_nsec = nondet_long();
  int r = myth_timespec_gt(&a, &b);
  __CPROVER_assert(r == 0 || r == 1, "timespec_gt: boolean result");
  __CPROVER_assert(!(a.tv_sec == b.tv_sec && a.tv_nsec == b.tv_nsec) || r == 0, "timespec_gt: strict (equal instants are not greater)");
  VERIF_CANARY();
}

/* myth_nanosleep_body against nanosleep_contract: ALL requests (well-formed and malformed), any clock behaviour */
void h_nanosleep(void) {
  struct timespec req;
  clock_setup();
  req.tv_sec = nondet_long(); req.tv_nsec = nondet_long();
  g_req_s = req.tv_sec; g_req_ns = req.tv_nsec;
  _Bool with_rem = nondet_bool();
  REM.tv_sec = -7; REM.tv_nsec = -7;
  int r = myth_nanosleep_body(&req, with_rem ? &REM : 0);
  __CPROVER_assert(req.tv_sec == g_req_s && req.tv_nsec == g_req_ns, "nanosleep: request not modified");
  __CPROVER_assert(REM.tv_sec == -7 && REM.tv_nsec == -7, "nanosleep: rem untouched (the sleep is never interrupted)");
  /* the clauses of nanosleep_contract once more, as individually named obligations on the real body */
  __CPROVER_assert(r == 0 || r == EINVAL, "nanosleep: returns 0 or EINVAL");
  __CPROVER_assert((r == EINVAL) == (req.tv_sec < 0 || req.tv_nsec < 0 || req.tv_nsec > NS_MAX), "nanosleep: EINVAL exactly for malformed durations");
  __CPROVER_assert(r != EINVAL || (g_reads == 0 && g_yield_ever == 0), "nanosleep: EINVAL before any clock read and without yielding");
  __CPROVER_assert(r != 0 || (g_reads == 2 && g_past == 1 && GT(g_now_s, g_now_ns, g_dl_s, g_dl_ns)),
                   "nanosleep: returns 0 only after a clock reading strictly later than start + duration");
  __CPROVER_assert(g_need_yield == 0, "nanosleep: every unsuccessful deadline reading was followed by its yield");
  VERIF_CANARY();
}

/* ---- usleep: exact unit conversion.
   Specification "from the answer": usec = s * 10^6 + us with 0 <= us < 10^6 (every useconds_t value has exactly one
   such decomposition); the duration is s seconds + us * 1000 nanoseconds.
   Proving  usec / 10^6 == s  asks the SAT solver to invert a multiplier; two universally valid facts (lemma
   h_lemma_mul: multiplication by 10^6 is strictly monotone on [0, 4294], proved for ALL a, b in its own job) are
   given to it as hints, after the cut "0 <= tv_sec <= 4294" has itself been proved (assert, then assume). */
#define US_PER_S 1000000u
#define MONO_HINT(a, b) (!((a) < (b)) || ((a) * US_PER_S + US_PER_S <= (b) * US_PER_S && (a) * US_PER_S + US_PER_S > (a) * US_PER_S))

void h_lemma_mul(void) {
  unsigned a = nondet_unsigned(), b = nondet_unsigned();
  __CPROVER_assume(a <= 4294u && b <= 4294u);
  __CPROVER_assert(MONO_HINT(a, b), "lemma: a < b <= 4294  ==>  a*10^6 + 10^6 <= b*10^6 without wrap-around (unsigned 32 bit)");
  VERIF_CANARY();
}

static unsigned g_us_s, g_us_us;
static useconds_t usleep_input(void) {
  g_us_s = nondet_unsigned(); g_us_us = nondet_unsigned();
  __CPROVER_assume(g_us_us <= 999999u && (g_us_s <= 4293u || (g_us_s == 4294u && g_us_us <= 967295u)));   /* s*10^6+us <= UINT_MAX */
  return g_us_s * US_PER_S + g_us_us;
}

void h_usleep(void) {
  clock_setup();
  g_req_s = -1; g_req_ns = -1;
  useconds_t usec = usleep_input();
  int r = myth_usleep_body(usec);
  __CPROVER_assert(0 <= g_req_s && g_req_s <= 4294, "usleep: seconds handed to nanosleep lie in [0, 4294]");
  __CPROVER_assume(0 <= g_req_s && g_req_s <= 4294);                                   /* cut: proved just above */
  unsigned q = (unsigned)g_req_s;
  __CPROVER_assume(MONO_HINT(q, g_us_s) && MONO_HINT(g_us_s, q));                      /* instances of h_lemma_mul */
  __CPROVER_assert(g_req_s == (long)g_us_s, "usleep: tv_sec handed to nanosleep == usec / 10^6 exactly");
  __CPROVER_assert(NORM(g_req_ns), "usleep: tv_nsec handed to nanosleep is normalised");
  __CPROVER_assert(r == 0, "usleep: every useconds_t value is a well-formed duration: returns 0, never EINVAL");
  __CPROVER_assert(g_reads == 2 && g_past == 1 && GT(g_now_s, g_now_ns, g_dl_s, g_dl_ns),
                   "usleep: returns only after a reading past start + the duration handed to nanosleep");
  VERIF_CANARY();
}

/* the nanosecond part, exactly:  tv_nsec == (usec mod 10^6) * 1000 */
void h_usleep_ns(void) {
  clock_setup();
  g_req_s = -1; g_req_ns = -1;
  useconds_t usec = usleep_input();
#ifdef C20_US_MAX
  __CPROVER_assume(usec <= C20_US_MAX);
#endif
  (void)myth_usleep_body(usec);
  __CPROVER_assert(g_req_ns == (long)(g_us_us * 1000u), "usleep: tv_nsec handed to nanosleep == (usec mod 10^6) * 1000 exactly");
  VERIF_CANARY();
}

/* myth_sleep_body: request is exactly s seconds */
void h_sleep(void) {
  clock_setup();
  g_req_s = -1; g_req_ns = -1;
  unsigned int s = nondet_unsigned();
  unsigned int r = myth_sleep_body(s);
  __CPROVER_assert(g_req_s == (long)s && g_req_ns == 0, "sleep: the duration handed to nanosleep is exactly s seconds");
  __CPROVER_assert(r == 0, "sleep: returns 0 (nothing left to sleep), never an error for any unsigned s");
  __CPROVER_assert(g_reads == 2 && g_past == 1 && GT(g_now_s, g_now_ns, g_dl_s, g_dl_ns), "sleep: returns only after a reading past start + s seconds");
  VERIF_CANARY();
}

/* myth_timedjoin_body against timedjoin_contract: ANY abstime (past, malformed nsec, extreme), any clock, target
   finishing at any moment or never */
void h_timedjoin(void) {
  struct timespec abst;
  clock_setup();
  g_now_s = nondet_long();                    /* no range needed here: nothing is added to the clock */
  abst.tv_sec = nondet_long(); abst.tv_nsec = nondet_long();
  g_dl_s = abst.tv_sec; g_dl_ns = abst.tv_nsec;
  g_finished = nondet_bool() ? 1 : 0;
  g_resp = nondet_bool() ? &RES : 0;
  int r = myth_timedjoin_body(&TH, g_resp, &abst);
  __CPROVER_assert(abst.tv_sec == g_dl_s && abst.tv_nsec == g_dl_ns, "timedjoin: deadline not modified");
  /* the clauses of timedjoin_contract once more, as individually named obligations on the real body */
  __CPROVER_assert((r == 0) == (g_joined == 1), "timedjoin: returns 0 iff an attempt succeeded (a timeout never swallows a join)");
  __CPROVER_assert(r == 0 || (g_read_ever == 1 && GT(g_now_s, g_now_ns, abst.tv_sec, abst.tv_nsec)),
                   "timedjoin: a timeout error only after a clock reading strictly later than abstime");
  __CPROVER_assert(g_try_ever == 1 && g_must_try == 0, "timedjoin: attempts at least once, and once more after each reading within the deadline");
  VERIF_CANARY();
}

/* hr_gettime: hands through the reading and the status of the OS clock; reads the clock absolute deadlines are
   expressed in (CLOCK_REALTIME, as for pthread_mutex_timedlock) */
void h_hr_gettime(void) {
  struct timespec ts;
  g_os_s = nondet_long(); g_os_ns = nondet_long(); g_os_ret = nondet_bool() ? 0 : -1; g_os_calls = 0; g_os_clk = -1;
  ts.tv_sec = 0; ts.tv_nsec = 0;
  int r = hr_gettime(&ts);
  __CPROVER_assert(g_os_calls == 1, "hr_gettime: reads the OS clock exactly once");
  __CPROVER_assert(r == g_os_ret, "hr_gettime: reports the status of the OS clock");
  __CPROVER_assert(r != 0 || (ts.tv_sec == g_os_s && ts.tv_nsec == g_os_ns), "hr_gettime: delivers the OS reading unchanged");
  __CPROVER_assert(g_os_clk == CLOCK_REALTIME, "hr_gettime: reads CLOCK_REALTIME, the clock absolute deadlines refer to");
  VERIF_CANARY();
}

/* myth_yield_body = one myth_yield_ex_body with a valid option */
void h_yield_body(void) {
  g_yield_ever = 0;
  int r = myth_yield_body();
  __CPROVER_assert(g_yield_ever == 1, "yield_body: yields exactly once");
  __CPROVER_assert(r == 0, "yield_body: returns 0");
  VERIF_CANARY();
}
