/* C18, recording side -- the open-section stack of a task (DESIGN §4 C18).
 *
 * The totals of a section reach the root only if the section is summarised when its wait returns; which node is
 * summarised is decided by the bookkeeping below.  Ghost view: the chain
 *        t->active_section -> parent_section -> parent_section -> ... -> t
 * is the stack of the task's open sections (innermost first); "active node" = its top (the task itself when no
 * section is open).
 *
 * Functions under contract (real, unmodified bodies from /repo/src/profiler/dag_recorder_inl.h, via dag_recorder.c):
 *   dr_task_active_node, dr_task_last_node, dr_push_back_section, dr_task_ensure_section, dr_begin_section__,
 *   dr_enter_wait_tasks__, dr_return_from_wait_tasks__, dr_enter_create_task__, dr_return_from_create_task__,
 *   dr_start_task__, dr_end_task__, dr_enter_other__, dr_return_from_other__, dr_enter_create_cilk_proc_task__,
 *   dr_start_cilk_proc__   (with the real dr_dag_node_list_push_back / dr_dag_node_alloc / dr_end_interval_ /
 *   dr_get_worker_specific_state under them)
 *
 * Memory: a one-level-down description of the stack, so the nesting depth is symbolic:
 *   TK  the task;  SA the innermost open section (when one is open), SA.parent_section = &TK or &SP;
 *   SP  an enclosing open section, SP.parent_section = &TK or &SG;  SG a further enclosing one (its own parent is not
 *   looked at by any function here).  The active node is &TK (no open section) or &SA (depth 1, 2 or >= 3).
 *   The active node's subgraph list is empty, or ends in AL (length 1 or arbitrary > 1, head AH).
 *   Fresh nodes come from the worker's free list (three nodes NEW0..NEW2; no function here allocates more than two).
 *
 * Specification source: the grammar of the property record (task ::= section* end; section ::= (section|create)* wait)
 * read as a stack discipline: begin pushes, wait pops exactly one level and closes exactly the popped section.
 */
#include "verif_common.h"
#include "dag_recorder.c"                       /* the real code */

/* ------------------------------------------------------------------ external functions */
int sched_getcpu(void) { return nondet_int(); }          /* libc; only feeds info.cpu */

/* dr_check_ -> exit(1): reaching it is an obligation failure (jobs without contract instrumentation use this stub
   through --replace-calls exit:verif_exit, the two jobs with a callee contract use exit_contract) */
void verif_exit(int c) {
  __CPROVER_assert(0, "a dr_check of the recorder fails (exit(1))");
  __CPROVER_assume(0);
}
int g_exit_calls;
void exit_contract(int c)
  __CPROVER_requires(0 && "a dr_check of the recorder fails (exit(1))")
  __CPROVER_assigns(g_exit_calls)
  __CPROVER_ensures(0);

dr_dag_node nondet_node(void);
dr_worker_specific_state nondet_wss(void);

/* ------------------------------------------------------------------ harness memory and ghosts */
#define CNT_OK(c) (0 <= (c) && (c) < (1LL << 58))
dr_worker_specific_state WSS[1];
dr_dag_node TK, SA, SP, SG;     /* task, innermost open section, enclosing open sections */
dr_dag_node AH, AL;             /* first / last subgraph of the active node (when it has any) */
dr_dag_node NEW0, NEW1, NEW2;    /* the worker's free list (separate objects: a symbolic index into an array of nodes exhausts CBMC) */
dr_dag_node * g_act;            /* the active node before the call: &TK or &SA */
dr_dag_node * g_par;            /* SA.parent_section before the call: &TK or &SP */
dr_dag_node * g_gpar;           /* SP.parent_section before the call: &TK or &SG */
long g_n;                       /* length of the active node's list before the call */
dr_dag_node * g_closed;         /* the section / task that must be summarised */
int g_sum_calls;

#define FLP (WSS[0].freelist)
#define PSP (WSS[0].prune_stack)

static dr_dag_node fresh_node(void) {         /* arbitrary summary, no wild pointers */
  dr_dag_node x = nondet_node();
  x.next = 0; x.forward = 0;
  x.subgraphs->n = 0; x.subgraphs->head = 0; x.subgraphs->tail = 0; x.parent_section = 0;
  return x;
}

static void setup_recorder(void) {
  dr_global_state z = {0};
  GS = z;
  GS.generation = 1;                                  /* profiling is on */
  GS.opts.chk_level = nondet_char();                  /* the recorder's own checks on or off */
  GS.opts.record_cpu = nondet_char();
  GS.opts.verbose_level = 0; GS.opts.dbg_level = 0;   /* diagnostics off */
  GS.opts.papi_on = 0;                                /* hardware counters off (dr_papi_read is external) */
  GS.start_clock = 1;
  WSS[0] = nondet_wss();
  WSS[0].next = 0; WSS[0].task = &TK; WSS[0].parent = 0; WSS[0].worker = 0; WSS[0].papi_td = 0;
  WSS[0].prune_stack->entries = 0; WSS[0].prune_stack->sz = 0; WSS[0].prune_stack->n = 0;
  GS.worker_specific_state_array = WSS; GS.worker_specific_state_array_sz = 1;
  NEW0 = fresh_node(); NEW1 = fresh_node(); NEW2 = fresh_node(); NEW0.next = &NEW1; NEW1.next = &NEW2; NEW2.next = 0;
  FLP->head = &NEW0; FLP->tail = &NEW2; FLP->pages = 0;
  g_exit_calls = 0; g_sum_calls = 0; g_closed = 0;
}

static void set_list(dr_dag_node * a, long n, dr_dag_node * head, dr_dag_node * tail) {
  a->subgraphs->n = n; a->subgraphs->head = n ? head : 0; a->subgraphs->tail = n ? tail : 0;
}

/* the task with its stack of open sections; the active node's list has g_n >= 0 elements (last one AL, not a section
   that is still open) */
static void build_stack(_Bool allow_task_active) {
  TK = fresh_node(); SA = fresh_node(); SP = fresh_node(); SG = fresh_node(); AH = fresh_node(); AL = fresh_node();
  TK.info.kind = dr_dag_node_kind_task; SA.info.kind = dr_dag_node_kind_section;
  SP.info.kind = dr_dag_node_kind_section; SG.info.kind = dr_dag_node_kind_section;
  int ek = nondet_int(); __CPROVER_assume(0 <= ek && ek < 5);
  TK.info.in_edge_kind = (dr_dag_edge_kind_t)ek;
  TK.info.start.worker = 0;                                              /* the running interval started on this worker */
  __CPROVER_assume(TK.info.first_ready_t > 0);
  for (int k = 0; k < 4; k++) __CPROVER_assume(CNT_OK(TK.info.start.counters[k]));
  g_gpar = nondet_bool() ? &TK : &SG;
  g_par = nondet_bool() ? &TK : &SP;
  g_act = (allow_task_active && nondet_bool()) ? &TK : &SA;
  SG.parent_section = &TK; set_list(&SG, 1, &SP, &SP);
  SP.parent_section = g_gpar; set_list(&SP, 1, &SA, &SA);
  SA.parent_section = g_par;
  /* the lists of the nodes on the stack end in the next open section (only the tails matter) */
  if (g_act == &SA) {
    if (g_par == &TK) set_list(&TK, 1, &SA, &SA);
    else if (g_gpar == &TK) set_list(&TK, 1, &SP, &SP);
    else set_list(&TK, 1, &SG, &SG);
  }
  g_n = nondet_long(); __CPROVER_assume(0 <= g_n && g_n < (1L << 40));
  int lk = nondet_int();                                                 /* the last finished subgraph of the active node */
  __CPROVER_assume(lk == dr_dag_node_kind_create_task || lk == dr_dag_node_kind_other || lk == dr_dag_node_kind_section);
  __CPROVER_assume(g_act != &TK || lk != dr_dag_node_kind_create_task);   /* a task has no create intervals of its own */
  AL.info.kind = (dr_dag_node_kind_t)lk; AH.info.kind = dr_dag_node_kind_other;
  AL.next = 0; AH.next = &AL;
  set_list(g_act, g_n, g_n == 1 ? &AL : &AH, &AL);
  TK.active_section = g_act;
}

/* the frame of the stack: nothing below the top changes */
#define ASSERT_STACK_FRAME(who) \
  __CPROVER_assert(SP.parent_section == g_gpar && SP.subgraphs->tail == &SA && SG.parent_section == &TK && SG.subgraphs->tail == &SP && \
                   (g_act == &TK || SA.parent_section == g_par) && SP.info.kind == dr_dag_node_kind_section && \
                   SA.info.kind == dr_dag_node_kind_section && TK.info.kind == dr_dag_node_kind_task, \
                   who ": the enclosing open sections and their links are unchanged")

/* ------------------------------------------------------------------ queries */
void h_queries(void) {
  setup_recorder();
  build_stack(1);
  __CPROVER_assume(g_n >= 1);
  __CPROVER_assert(dr_task_active_node(&TK) == g_act, "active_node: the top of the open-section stack");
  __CPROVER_assert(dr_task_last_node(&TK) == &AL, "last_node: the last subgraph of the ACTIVE node (innermost open section, or the task)");
  VERIF_CANARY();
}

/* ------------------------------------------------------------------ push: dr_begin_section__ / dr_push_back_section */
void h_begin_section(void) {
  setup_recorder();
  build_stack(1);
  dr_begin_section__(0);
  dr_dag_node * ns = TK.active_section;
  __CPROVER_assert(ns == &NEW0, "begin_section: a fresh node becomes the active section");
  __CPROVER_assert(ns->info.kind == dr_dag_node_kind_section && ns->subgraphs->n == 0 && ns->subgraphs->head == 0 && ns->subgraphs->tail == 0,
                   "begin_section: the new node is an empty section");
  __CPROVER_assert(ns->parent_section == g_act, "begin_section: the parent of the new section is the node that was active");
  __CPROVER_assert(g_act->subgraphs->n == g_n + 1 && g_act->subgraphs->tail == ns && ns->next == 0 &&
                   (g_n == 0 ? g_act->subgraphs->head == ns : (AL.next == ns && g_act->subgraphs->head == (g_n == 1 ? &AL : &AH))),
                   "begin_section: the new section is appended as the LAST subgraph of the node that was active");
  __CPROVER_assert(g_act == &TK || (TK.subgraphs->n == 1 && TK.subgraphs->tail == (g_par == &TK ? &SA : g_gpar == &TK ? &SP : &SG)),
                   "begin_section: the task's own list is untouched when a section was open");
  ASSERT_STACK_FRAME("begin_section");
  __CPROVER_assert(WSS[0].task == &TK, "begin_section: the worker's current task is unchanged");
  VERIF_CANARY();
}

void h_ensure_section(void) {
  setup_recorder();
  build_stack(1);
  dr_dag_node * r = dr_task_ensure_section(&TK, FLP);
  if (g_act == &TK) {
    __CPROVER_assert(r == &NEW0 && TK.active_section == r && r->parent_section == &TK && r->info.kind == dr_dag_node_kind_section &&
                     r->subgraphs->n == 0 && TK.subgraphs->tail == r && TK.subgraphs->n == g_n + 1,
                     "ensure_section: no section open -> a new empty section is pushed under the task and becomes active");
  } else {
    __CPROVER_assert(r == &SA && TK.active_section == &SA, "ensure_section: a section is open -> it is returned, the stack is unchanged");
    __CPROVER_assert(FLP->head == &NEW0 && SA.subgraphs->n == g_n && SA.subgraphs->tail == (g_n ? &AL : 0) && AL.next == 0,
                     "ensure_section: a section is open -> nothing is allocated or appended");
  }
  ASSERT_STACK_FRAME("ensure_section");
  VERIF_CANARY();
}

/* ------------------------------------------------------------------ wait: one level popped, the interval in the popped section */
void h_enter_wait(void) {
  setup_recorder();
  build_stack(1);
  dr_dag_node * r = dr_enter_wait_tasks__("f", 1, 0);
  dr_dag_node * sec = (g_act == &TK) ? &NEW0 : &SA;                    /* the section being closed */
  dr_dag_node * w = (g_act == &TK) ? &NEW1 : &NEW0;                  /* the wait interval */
  __CPROVER_assert(r == &TK && WSS[0].task == &TK, "enter_wait: returns the waiting task");
  __CPROVER_assert(sec->subgraphs->tail == w && w->next == 0 && w->info.kind == dr_dag_node_kind_wait_tasks &&
                   sec->subgraphs->n == (g_act == &TK ? 1 : g_n + 1),
                   "enter_wait: the wait interval is appended to the ACTIVE (innermost open) section");
  __CPROVER_assert(g_act != &SA || (g_n == 0 ? SA.subgraphs->head == w : (AL.next == w && SA.subgraphs->head == (g_n == 1 ? &AL : &AH))),
                   "enter_wait: the finished subgraphs of the closing section stay in place before the wait interval");
  __CPROVER_assert(TK.active_section == (g_act == &TK ? &TK : g_par),
                   "enter_wait: the active section becomes exactly the parent of the closed section (one level popped, not more)");
  __CPROVER_assert(g_act != &TK || (NEW0.parent_section == &TK && NEW0.info.kind == dr_dag_node_kind_section &&
                                    TK.subgraphs->tail == &NEW0 && TK.subgraphs->n == g_n + 1),
                   "enter_wait: without an open section the wait closes a new section appended to the task");
  __CPROVER_assert(w->info.t_1 == w->info.end.t - TK.info.start.t && w->info.t_inf == w->info.t_1 && w->info.logical_node_counts[dr_dag_node_kind_wait_tasks] == 1,
                   "enter_wait: the interval recorded is the one the task has been running since its last start");
  ASSERT_STACK_FRAME("enter_wait");
  VERIF_CANARY();
}

/* summarize as a callee contract whose precondition names the node */
void summarize_named_contract(dr_prune_nodes_stack * st, dr_dag_node * s, dr_dag_node_freelist * fl)
  __CPROVER_requires(s == g_closed && "summarises exactly the section the wait closed / the task that ends")
  __CPROVER_requires(st == PSP && fl == FLP && g_sum_calls == 0)
  __CPROVER_assigns(s->info, g_sum_calls)
  __CPROVER_ensures(g_sum_calls == 1)
  __CPROVER_ensures(s->info.kind == __CPROVER_old(s->info.kind));

/* state after enter_wait: the active node (task or enclosing section) ends in the closed section SA, whose list is
   [CR (create, child CC)]? W(wait)  -- bounded: at most one create before the wait */
dr_dag_node CR, CC, WT;
void h_return_from_wait(void) {
  setup_recorder();
  build_stack(0);                                   /* SA plays the closed section; its parent is the active node now */
  CR = fresh_node(); CC = fresh_node(); WT = fresh_node();
  CR.info.kind = dr_dag_node_kind_create_task; CR.child = &CC; CR.next = &WT; CC.info.kind = dr_dag_node_kind_task;
  WT.info.kind = dr_dag_node_kind_wait_tasks; WT.next = 0;
  __CPROVER_assume(WT.info.end.t > 0);
  _Bool with_create = nondet_bool();
  set_list(&SA, with_create ? 2 : 1, with_create ? &CR : &WT, &WT);
  TK.active_section = g_par;                        /* popped by enter_wait */
  g_closed = &SA;
  dr_return_from_wait_tasks__(&TK, "f", 2, 0);
  __CPROVER_assert(g_sum_calls == 1, "return_from_wait: exactly one section is summarised");
  __CPROVER_assert(TK.active_section == g_par && WSS[0].task == &TK, "return_from_wait: the stack is not changed again; the task is the worker's current task");
  __CPROVER_assert(TK.info.first_ready_t >= WT.info.end.t && TK.info.start.worker == 0 &&
                   ((int)TK.info.in_edge_kind == dr_dag_edge_kind_wait_cont || ((int)TK.info.in_edge_kind == dr_dag_edge_kind_end && with_create)),
                   "return_from_wait: the next interval starts on this worker, ready no earlier than the wait ended, resumed by the wait or by a child's end");
  __CPROVER_assert(SA.subgraphs->n == (with_create ? 2 : 1) && SA.parent_section == g_par && SP.parent_section == g_gpar,
                   "return_from_wait: the closed section stays where it is");
  VERIF_CANARY();
}

/* ------------------------------------------------------------------ create side */
void h_enter_create(void) {
  setup_recorder();
  build_stack(1);
  dr_dag_node * c = &TK;
  dr_dag_node * r = dr_enter_create_task__(&c, "f", 3, 0);
  dr_dag_node * sec = (g_act == &TK) ? &NEW0 : &SA;
  dr_dag_node * ct = (g_act == &TK) ? &NEW1 : &NEW0;
  __CPROVER_assert(r == &TK && c == ct, "enter_create: returns the task and hands out the create interval");
  __CPROVER_assert(sec->subgraphs->tail == ct && ct->next == 0 && ct->info.kind == dr_dag_node_kind_create_task && ct->child == 0 &&
                   sec->subgraphs->n == (g_act == &TK ? 1 : g_n + 1),
                   "enter_create: the create interval (no child yet) is appended to the innermost open section");
  __CPROVER_assert(TK.active_section == sec && sec->parent_section == (g_act == &TK ? &TK : g_par),
                   "enter_create: the section stays open and active (a new one under the task if none was open)");
  ASSERT_STACK_FRAME("enter_create");
  VERIF_CANARY();
}

void h_return_from_create(void) {
  setup_recorder();
  build_stack(0);
  __CPROVER_assume(g_n >= 1 && (int)AL.info.kind == dr_dag_node_kind_create_task && AL.info.end.t > 0);   /* the create interval ended at a positive clock */
  long n0 = SA.subgraphs->n;
  dr_return_from_create_task__(&TK, "f", 4, 0);
  __CPROVER_assert(TK.active_section == &SA && SA.subgraphs->n == n0 && SA.subgraphs->tail == &AL && SA.parent_section == g_par,
                   "return_from_create: the open-section stack and the section's list are unchanged");
  __CPROVER_assert(WSS[0].task == &TK && (int)TK.info.in_edge_kind == dr_dag_edge_kind_create_cont && TK.info.start.worker == 0,
                   "return_from_create: the task continues on this worker through a create_cont edge");
  ASSERT_STACK_FRAME("return_from_create");
  VERIF_CANARY();
}

void h_start_task(void) {
  setup_recorder();
  build_stack(0);
  __CPROVER_assume(g_n >= 1 && (int)AL.info.kind == dr_dag_node_kind_create_task && AL.info.end.t > 0);
  AL.child = 0;
  _Bool root = nondet_bool();
  dr_start_task__(root ? 0 : &AL, "f", 5, 0);
  dr_dag_node * nt = &NEW0;
  __CPROVER_assert(WSS[0].task == nt && nt->info.kind == dr_dag_node_kind_task, "start_task: a fresh task node is the worker's current task");
  __CPROVER_assert(nt->active_section == nt && nt->subgraphs->n == 0 && nt->subgraphs->head == 0 && nt->subgraphs->tail == 0,
                   "start_task: the new task has no open section (it is its own active node) and no subgraph");
  __CPROVER_assert(root ? AL.child == 0 : AL.child == nt, "start_task: the create interval of the parent points to the new task");
  __CPROVER_assert(TK.active_section == &SA && SA.subgraphs->tail == &AL && SA.parent_section == g_par, "start_task: the parent's stack is untouched");
  VERIF_CANARY();
}

void h_end_task(void) {
  setup_recorder();
  build_stack(1);
  __CPROVER_assume(g_act == &TK);                      /* well nested: no section is open when the task ends */
  __CPROVER_assume((int)AL.info.kind != dr_dag_node_kind_create_task);
  g_closed = &TK;
  dr_end_task__("f", 6, 0);
  dr_dag_node * e = &NEW0;
  __CPROVER_assert(TK.subgraphs->tail == e && e->next == 0 && e->info.kind == dr_dag_node_kind_end_task && TK.subgraphs->n == g_n + 1,
                   "end_task: the end interval is appended as the last subgraph of the task itself");
  __CPROVER_assert(g_sum_calls == 1 && TK.active_section == &TK, "end_task: exactly the task is summarised; no section is open");
  VERIF_CANARY();
}

/* ------------------------------------------------------------------ other intervals */
void h_enter_other(void) {
  setup_recorder();
  build_stack(1);
  dr_dag_node * r = dr_enter_other__("f", 7, 0);
  dr_dag_node * o = &NEW0;
  __CPROVER_assert(r == &TK && WSS[0].task == &TK, "enter_other: returns the running task");
  __CPROVER_assert(g_act->subgraphs->tail == o && o->next == 0 && o->info.kind == dr_dag_node_kind_other && g_act->subgraphs->n == g_n + 1 &&
                   (g_n == 0 ? g_act->subgraphs->head == o : (AL.next == o && g_act->subgraphs->head == (g_n == 1 ? &AL : &AH))),
                   "enter_other: the other interval is appended to the ACTIVE node (the task itself when no section is open, else the innermost open section)");
  __CPROVER_assert(TK.active_section == g_act, "enter_other: no section is opened or closed");
  __CPROVER_assert(FLP->head == &NEW1, "enter_other: exactly one node (the interval) is allocated");
  __CPROVER_assert(g_act == &TK || (TK.subgraphs->n == 1 && TK.subgraphs->tail == (g_par == &TK ? &SA : g_gpar == &TK ? &SP : &SG)),
                   "enter_other: the task's own list is untouched when a section is open");
  __CPROVER_assert(o->info.t_1 == o->info.end.t - TK.info.start.t && o->info.t_inf == o->info.t_1 && o->info.logical_node_counts[dr_dag_node_kind_other] == 1,
                   "enter_other: the interval recorded is the one the task has been running since its last start");
  ASSERT_STACK_FRAME("enter_other");
  VERIF_CANARY();
}

void h_return_from_other(void) {
  setup_recorder();
  build_stack(1);
  __CPROVER_assume(g_n >= 1 && (int)AL.info.kind == dr_dag_node_kind_other && AL.info.end.t > 0);
  dr_return_from_other__(&TK, "f", 8, 0);
  __CPROVER_assert(TK.active_section == g_act && g_act->subgraphs->n == g_n && g_act->subgraphs->tail == &AL && AL.next == 0 && FLP->head == &NEW0,
                   "return_from_other: the open-section stack and the active node's list are unchanged, nothing is allocated");
  __CPROVER_assert(WSS[0].task == &TK && (int)TK.info.in_edge_kind == dr_dag_edge_kind_other_cont && TK.info.start.worker == 0 &&
                   TK.info.first_ready_t == AL.info.end.t,
                   "return_from_other: the task continues on this worker through an other_cont edge, ready when the other interval ended");
  ASSERT_STACK_FRAME("return_from_other");
  VERIF_CANARY();
}

/* ------------------------------------------------------------------ Cilk flavour: the per-worker "I was spawned" slot wss->parent */
void h_enter_create_cilk(void) {
  setup_recorder();
  build_stack(1);
  dr_dag_node * r = dr_enter_create_cilk_proc_task__("f", 9, 0);
  dr_dag_node * sec = (g_act == &TK) ? &NEW0 : &SA;
  dr_dag_node * ct = (g_act == &TK) ? &NEW1 : &NEW0;
  __CPROVER_assert(r == &TK && WSS[0].task == &TK, "enter_create_cilk: returns the spawning task, which stays the worker's current task");
  __CPROVER_assert(WSS[0].parent == ct && ct->info.kind == dr_dag_node_kind_create_task && ct->child == 0,
                   "enter_create_cilk: the slot holds the create interval (no child yet)");
  __CPROVER_assert(sec->subgraphs->tail == ct && ct->next == 0 && TK.active_section == sec && sec->parent_section == (g_act == &TK ? &TK : g_par),
                   "enter_create_cilk: the create interval is the last subgraph of the innermost open section, which stays active");
  ASSERT_STACK_FRAME("enter_create_cilk");
  VERIF_CANARY();
}

void h_start_cilk_proc(void) {
  setup_recorder();
  build_stack(0);
  __CPROVER_assume(g_n >= 1 && (int)AL.info.kind == dr_dag_node_kind_create_task && AL.info.end.t > 0);
  AL.child = 0;
  _Bool spawned = nondet_bool();
  WSS[0].parent = spawned ? &AL : 0;
  int r = dr_start_cilk_proc__("f", 10, 0);
  __CPROVER_assert(WSS[0].parent == 0, "start_cilk_proc: the slot is empty afterwards (a later ordinary call starts nothing)");
  if (spawned) {
    __CPROVER_assert(r == 1, "start_cilk_proc: a spawned procedure reports 1");
    __CPROVER_assert(WSS[0].task == &NEW0 && NEW0.info.kind == dr_dag_node_kind_task && NEW0.active_section == &NEW0 && NEW0.subgraphs->n == 0 &&
                     AL.child == &NEW0 && FLP->head == &NEW1,
                     "start_cilk_proc: exactly one child task of the create interval in the slot is started");
  } else {
    __CPROVER_assert(r == 0, "start_cilk_proc: an ordinary call reports 0");
    __CPROVER_assert(WSS[0].task == &TK && FLP->head == &NEW0 && AL.child == 0, "start_cilk_proc: an ordinary call starts nothing and changes nothing");
  }
  __CPROVER_assert(TK.active_section == &SA && SA.subgraphs->tail == &AL && SA.parent_section == g_par, "start_cilk_proc: the spawning task's stack is untouched");
  VERIF_CANARY();
}
