/* C08 / C09 -- uncondition variable and full/empty lock (DESIGN §4 C08, C09).
 * Functions under contract (real bodies, src/myth_sync_func.h):
 *   myth_uncond_init_body, myth_uncond_wait_body, myth_uncond_wait_cb, myth_uncond_signal_body,
 *   myth_felock_init/lock/unlock/wait_and_lock/mark_and_signal/status_body.
 *
 * uncond: one word u->th (the single waiter, or NULL).  The waiter registers itself from the post-switch callback
 * (only after its context has been saved); the signaller spins until it sees the waiter, clears the word and only
 * then publishes the waiter on its run queue.
 */
#include "verif_common.h"
#define VERIF_HAS_ON_SAVE 1
#include "verif_ctx.h"
#include "myth_sync_func.h"

struct myth_running_env ENVS2[2];
#define ENV (ENVS2[0])       /* ENVS2[1]: the worker a thread may find itself on after a yield */
struct myth_thread TH0, TH1;
myth_uncond_t U;

static void env_setup(void) {
  g_envs = ENVS2; g_envs_sz = 1; g_worker_rank = 0; ENV.rank = 0;
  ENV.this_thread = &TH0; TH0.env = &ENV;
}

/* ================================================================== uncond wait */
int g_popped_next;
myth_thread_t verif_pop(myth_thread_queue_t q) {
  __CPROVER_assert(q == &ENV.runnable_q && g_ctx_saved == 0, "uncond_wait: the next thread is popped from the caller's run queue, before the switch");
  if (nondet_bool()) { g_popped_next = 1; return &TH1; }
  g_popped_next = 0; return 0;
}
void verif_on_save(myth_context_t from) {
  __CPROVER_assert(U.th == 0, "uncond_wait: the waiter is not visible to a signaller before its context has been saved");
}
void suspend_resume_contract(myth_context_t from, myth_context_t to)
  __CPROVER_requires(from == &TH0.context)
  __CPROVER_requires(to == (g_popped_next ? &TH1.context : &ENV.sched.context) && "the worker continues with the next runnable thread or the scheduler")
  __CPROVER_requires(ENV.this_thread == (g_popped_next ? &TH1 : 0) && (!g_popped_next || TH1.env == &ENV))
  __CPROVER_requires(U.th == &TH0 && "the waiter registered itself (from the post-switch callback)")
  __CPROVER_assigns(ENV.this_thread, TH0.env, TH1.env, U.th)
  __CPROVER_ensures(1);

void h_uncond_wait(void) {
  env_setup();
  U.th = 0; g_popped_next = 0; g_ctx_saved = 0; g_switch_count = 0; g_in_callback = 0; g_jumped = 0;
  int r = myth_uncond_wait_body(&U);
  __CPROVER_assert(r == 0 && g_switch_count == 1 && !g_jumped, "uncond_wait: exactly one context switch with the caller's context saved");
  VERIF_CANARY();
}
void h_uncond_init(void) {
  U.th = &TH1;
  __CPROVER_assert(myth_uncond_init_body(&U) == 0 && U.th == 0, "uncond_init: no waiter");
  VERIF_CANARY();
}

/* ================================================================== uncond signal */
int g_pushed, g_polls, g_arrived;
#ifndef SPIN_K
#define SPIN_K 3
#endif
/* the waiter arrives (registers itself) at some point: before the call or between two polls.  Stub WITH a body so
   that the pointer is assigned, not assumed. */
static inline void verif_rd_th(volatile void * p) {
  if (p != (volatile void *)&U.th) return;
#ifdef SPIN_ANY   /* job c08.signal.any_polls: no budget -- the waiter arrives whenever it likes (loop under contract) */
  if (U.th == 0 && nondet_bool()) { U.th = &TH0; g_arrived = 1; }
#else
  if (g_polls < SPIN_K) g_polls++;
  if (U.th == 0 && (nondet_bool() || g_polls >= SPIN_K)) { U.th = &TH0; g_arrived = 1; }
#endif
}
void push_contract(myth_thread_queue_t q, myth_thread_t th)
  __CPROVER_requires(q == &ENVS2[g_worker_rank].runnable_q && th == &TH0 && g_pushed == 0 && "signal hands exactly the waiter over, once, on the run queue of the worker the signaller is running on NOW")
  __CPROVER_requires(U.th == 0 && "the word is cleared BEFORE the waiter is published (a resumed waiter may wait again at once)")
  __CPROVER_requires(TH0.env == &ENVS2[g_worker_rank] && "the waiter is bound to the signalling worker before it becomes stealable")
  __CPROVER_assigns(g_pushed)
  __CPROVER_ensures(g_pushed == 1);

/* should the signaller yield while it spins for a late waiter: it may be resumed on another worker */
int verif_yield_sig(void) {
  if (nondet_bool()) { g_envs_sz = 2; ENVS2[1].rank = 1; g_worker_rank = 1; }
  return 0;
}
int (*keep_yield_sig)(void) = myth_yield_body;
int (*keep_yield_sig2)(void) = verif_yield_sig;
void h_uncond_signal(void) {
  env_setup();
  TH0.env = 0;
  g_pushed = 0; g_polls = 0; g_arrived = 0;
  U.th = nondet_bool() ? &TH0 : 0;            /* signal after / before the waiter has suspended */
  int r = myth_uncond_signal_body(&U);
  __CPROVER_assert(r == 0 && g_pushed == 1, "uncond_signal: does not return before it has handed the waiter to the scheduler, exactly once");
  __CPROVER_assert(U.th == 0, "uncond_signal: leaves the variable without waiter");
  VERIF_CANARY();
}

/* ---- no return from inside the spin: for ANY number of polls (loop contract with an inferred frame: whatever the loop
   writes -- the local it spins on, a poll counter somebody may add -- is arbitrary at the loop head).  The pointer the
   loop leaves behind is therefore arbitrary too, so this job looks at control flow only: safety checks are off, the push
   is accepted with any arguments, and the one obligation is "signal does not return without having called the push". */
int g_ner_pushed;
void push_any_contract(myth_thread_queue_t q, myth_thread_t th)
  __CPROVER_requires(1) __CPROVER_assigns(g_ner_pushed) __CPROVER_ensures(g_ner_pushed == 1);
static inline void verif_rd_th_any(volatile void * p) {
  if (p != (volatile void *)&U.th) return;
  if (nondet_bool()) U.th = &TH0;
}
void h_uncond_signal_no_early_return(void) {
  env_setup();
  g_ner_pushed = 0;
  U.th = nondet_bool() ? &TH0 : 0;
  (void)myth_uncond_signal_body(&U);
  __CPROVER_assert(g_ner_pushed == 1, "uncond_signal: never returns without having handed a waiter to the scheduler, however long it has been polling");
  VERIF_CANARY();
}

/* ================================================================== full/empty lock */
myth_felock_t FE;
int g_hold, g_waits, g_signalled, g_unlocked;
int fe_lock_contract(myth_mutex_t * m)
  __CPROVER_requires(m == FE.mutex && g_hold == 0)
  __CPROVER_assigns(g_hold, FE.status)                    /* whatever the previous holders did */
  __CPROVER_ensures(g_hold == 1 && __CPROVER_return_value == 0);
int fe_unlock_contract(myth_mutex_t * m)
  __CPROVER_requires(m == FE.mutex && g_hold == 1)
  __CPROVER_assigns(g_hold, g_unlocked)
  __CPROVER_ensures(g_hold == 0 && g_unlocked == 1 && 0 <= __CPROVER_return_value && __CPROVER_return_value < (1 << 20));
int g_wait_idx;
int fe_cond_wait_contract(myth_cond_t * c, myth_mutex_t * m)
  __CPROVER_requires(m == FE.mutex && g_hold == 1 && "waits only while holding the lock")
  __CPROVER_requires(c == &FE.cond[g_wait_idx] && "waits on the condition of the awaited status")
  __CPROVER_assigns(FE.status, g_waits)                   /* anything may happen while sleeping; returns holding (C05) */
  __CPROVER_ensures(g_waits == 1);
int g_sig_idx;
/* should wait_and_lock sleep on the queue directly: the waiter must enter the queue while it still holds the lock
   (myth_block_on_queue releases the mutex it is given only after the enqueue) -- otherwise a mark_and_signal between
   the release and the enqueue finds nobody to wake and the waiter sleeps forever */
void fe_block_contract(myth_sleep_queue_t * q, myth_mutex_t * m)
  __CPROVER_requires(q == FE.cond[g_wait_idx].sleep_q && "sleeps on the condition of the awaited status")
  __CPROVER_requires(m == FE.mutex && g_hold == 1 && "the waiter enqueues itself before the lock is released (no lost wake-up)")
  __CPROVER_assigns(FE.status, g_waits, g_hold)
  __CPROVER_ensures(g_waits == 1 && g_hold == 0);

int fe_cond_signal_contract(myth_cond_t * c)
  __CPROVER_requires(c == &FE.cond[g_sig_idx] && "signals the condition of the published status")
  /* (signalling after the unlock would also be correct: only "published before signalled" is demanded) */
  __CPROVER_requires(FE.status == g_sig_idx && g_signalled == 0 && "the status is published before the waiter is signalled")
  __CPROVER_assigns(g_signalled)
  __CPROVER_ensures(g_signalled == 1);
int (*keep_cw)(myth_cond_t *, myth_mutex_t *) = myth_cond_wait;
int (*keep_cs)(myth_cond_t *) = myth_cond_signal;

void h_fe_wait_and_lock(void) {
  int s = nondet_int();
  __CPROVER_assume(s == 0 || s == 1);
  g_hold = 0; g_waits = 0; g_wait_idx = s; FE.status = nondet_int();
  int r = myth_felock_wait_and_lock_body(&FE, s);
  __CPROVER_assert(r == 0 && g_hold == 1, "wait_and_lock: returns with the lock held exclusively");
  __CPROVER_assert(FE.status == s, "wait_and_lock: returns only when the status equals the awaited one");
  VERIF_CANARY();
}
void h_fe_mark_and_signal(void) {
  int t = nondet_int();
  __CPROVER_assume(t == 0 || t == 1);
  g_hold = 1; g_signalled = 0; g_unlocked = 0; g_sig_idx = t; FE.status = nondet_int();
  myth_felock_mark_and_signal_body(&FE, t);
  __CPROVER_assert(FE.status == t, "mark_and_signal: publishes the status");
  __CPROVER_assert(g_signalled == 1, "mark_and_signal: lets a thread waiting for that status proceed (one signal on its condition)");
  __CPROVER_assert(g_hold == 0 && g_unlocked == 1, "mark_and_signal: releases the lock");
  VERIF_CANARY();
}
/* plain lock / unlock take and release the lock whatever the status is: they never sleep on a status condition (a plain
   locker that waited for "the status it saw" would sleep for ever once the status has moved on) */
int fe_never_waits_contract(myth_cond_t * c, myth_mutex_t * m)
  __CPROVER_requires(0 && "felock_lock / felock_unlock never wait for a status")
  __CPROVER_assigns() __CPROVER_ensures(1);
void h_fe_lock_unlock(void) {
  g_hold = 0; g_unlocked = 0;
  int r = myth_felock_lock_body(&FE);
  __CPROVER_assert(r == 0 && g_hold == 1, "felock_lock: acquires the underlying mutex");
  myth_felock_unlock_body(&FE);
  __CPROVER_assert(g_hold == 0, "felock_unlock: releases it");
  __CPROVER_assert(myth_felock_status_body(&FE) == FE.status, "felock_status: reads the status");
  VERIF_CANARY();
}
/* public forwarder of src/myth_if_native.c (one line there); needed because felock_init calls the public name */
int myth_felockattr_init(myth_felockattr_t * attr) { return myth_felockattr_init_body(attr); }
void h_fe_init(void) {
  __CPROVER_havoc_object(&FE);
  myth_felockattr_t fat_; _Bool with_fattr = nondet_bool();
  myth_felock_init_body(&FE, with_fattr ? &fat_ : 0);
  __CPROVER_assert(FE.status == 0 && FE.mutex->state == 0, "felock_init: empty (status 0), unlocked");
  __CPROVER_assert(FE.cond[0].sleep_q->head == 0 && FE.cond[1].sleep_q->head == 0 && FE.mutex->sleep_q->head == 0, "felock_init: no sleepers");
  VERIF_CANARY();
}
