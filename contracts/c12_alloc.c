/* C12 (part 1) -- allocator arithmetic and block identity (DESIGN §4 C12).
 *
 * Real bodies analysed (src/myth_misc_func.h, src/myth_sched_func.h), nothing copied:
 *   MYTH_MALLOC_SIZE_TO_INDEX / _INDEX_TO_RSIZE / _SIZE_TO_RSIZE (macros, expanded in h_sizeclass),
 *   myth_freelist_push, myth_freelist_pop, myth_flmalloc, myth_flfree, myth_mmap,
 *   get_new_myth_thread_struct_stack, free_myth_thread_struct_stack,
 *   get_new_myth_thread_struct_desc,  free_myth_thread_struct_desc.
 *
 * What "never reused while in use / never overlapping / released at most once" means at this level:
 *   (A1) size classes: for 2 <= s <= 2^30 the class index is in [0,FREE_LIST_NUM), 2^idx >= s and minimal;
 *        page rounding gives a multiple of 4096 in [s, s+4095]; a rounded stack size always lands in a class whose
 *        block is a whole number of pages (the library's own asserts in myth_flmalloc become obligations).
 *        PRECONDITION (stated): s <= 2^30.  MYTH_MALLOC_SIZE_TO_INDEX feeds a size_t into the 32-bit __builtin_clz:
 *        above 2^30 the index is 31 or 32 (outside the array of FREE_LIST_NUM lists), above 2^32 the size is truncated.
 *   (A2) free list: push writes exactly fl->head and the FIRST WORD of the cell (frame: every other byte of the cell,
 *        in particular the size word of a parked default stack, and every other cell are untouched), pop returns the
 *        last pushed cell and restores the previous head (LIFO), an empty list yields 0 and is not written.
 *        From the frame + LIFO facts: the list is a chain in which a cell occurs as often as it was pushed and not
 *        yet popped -- "a cell is on a list at most once" is then the callers' obligation "released at most once"
 *        (part 2, ledger).
 *   (A3) myth_flmalloc (list operations replaced by ledger stubs, see below): a hit returns the head of exactly the list
 *        [rank][class(size)] and never maps memory; a miss maps ONE fresh block of 2^class bytes >= size (class >= 12) or
 *        one page (class < 12) that is carved into n = PAGE_SIZE/2^class cells: cell 0 is returned, and the j-th push is
 *        exactly cell j (address page + j * cellsize, inside the page) for j = 1 .. n-1 -- so every cell is put on the
 *        list exactly once, never cell 0, cells pairwise disjoint.  The carving loop is closed by a LOOP CONTRACT.
 *        myth_flfree(rank,size,p) pushes p on list [rank][class(size)], the class myth_flmalloc pops from for that size.
 *   (A4) custom stack: one block request of the page-rounded size; returned pointer = block + rounded - 16; the size word
 *        (rounded, non-zero) lies inside the block; release recomputes the block START exactly, selects the class the
 *        block was allocated from and goes to the lists of the worker that EXECUTES the release (the thread may have
 *        migrated).  Checked twice: against the allocator's contract (h_stack_custom) and on the real
 *        myth_flmalloc/myth_flfree (h_stack_custom_alloc, hit and miss).
 *   (A5) default stack / record: same with env->freelist_stack (size word 0) / env->freelist_desc; a thread without own
 *        stack releases nothing.
 * From (A2)-(A5) + part 2 (every stack / record is released at most once, only when no longer in use) it follows on
 * paper that two live owners never share a byte: blocks come from mmap (fresh) or from a list; a block is on a list
 * only between its release and the next pop that returns it; carved cells are disjoint.
 *
 * Assumed: mmap returns a fresh region disjoint from every other object (OS; here: malloc-backed stub) and does not
 * fail (on failure the library aborts in myth_mmap).
 */
#include "verif_common.h"
#include <stdlib.h>
#include <stddef.h>
#include <sys/mman.h>

/* ---------------------------------------------------------------- external: mmap (stub with the OS contract) */
int    g_mmap_calls;            /* 0, 1, 2 = more than one */
size_t g_mmap_len;
char * g_mmap_ret;
void *mmap(void *addr, size_t length, int prot, int flags, int fd, off_t offset) {
  __CPROVER_assert(addr == 0 && fd == -1 && offset == 0, "mmap: anonymous mapping, kernel chooses the address");
  __CPROVER_assert((flags & MAP_PRIVATE) && (flags & MAP_ANONYMOUS), "mmap: private anonymous memory");
  __CPROVER_assert(prot == (PROT_READ | PROT_WRITE), "mmap: readable and writable");
  __CPROVER_assert(length >= 4096 && length % 4096 == 0, "mmap: a positive whole number of pages is requested");
  char * p = __CPROVER_allocate(length, 0);        /* fresh object, disjoint from all others; assumed: mmap does not fail */
  if (g_mmap_calls < 2) g_mmap_calls++;
  g_mmap_len = length; g_mmap_ret = p;
  return p;
}

#include "myth_sched_func.h"                       /* the real code */

/* ---------------------------------------------------------------- world: two workers, their allocator lists */
#define NW 2
typedef struct { myth_freelist_t l[NW][FREE_LIST_NUM]; } verif_lists_t;
verif_lists_t WL;
#define FL WL.l
myth_freelist_t *FLP[NW];
struct myth_running_env ENVS[NW];

static void setup_world(void) {
  FLP[0] = FL[0]; FLP[1] = FL[1];
  g_myth_freelist = FLP;
  ENVS[0].rank = 0; ENVS[1].rank = 1;
  g_envs = ENVS; g_envs_sz = NW;
  g_mmap_calls = 0; g_mmap_len = 0; g_mmap_ret = 0;
}

/* ================================================================ (A1) size-class arithmetic */
void h_sizeclass(void) {
  size_t s = nondet_ulong();
  __CPROVER_assume(2 <= s && s <= ((size_t)1 << 30));           /* stated precondition */
  int idx = MYTH_MALLOC_SIZE_TO_INDEX(s);
  __CPROVER_assert(0 <= idx && idx < FREE_LIST_NUM, "class index selects one of the FREE_LIST_NUM lists");
  size_t r = MYTH_MALLOC_INDEX_TO_RSIZE(idx);
  __CPROVER_assert(r >= s, "block size of the class covers the request");
  __CPROVER_assert(idx == 0 || (r >> 1) < s, "class is the smallest power of two that covers the request");
  __CPROVER_assert((r & (r - 1)) == 0, "block size is a power of two");
  __CPROVER_assert(MYTH_MALLOC_SIZE_TO_RSIZE(s) == r, "SIZE_TO_RSIZE is INDEX_TO_RSIZE of SIZE_TO_INDEX");
  __CPROVER_assert(MYTH_MALLOC_SIZE_TO_INDEX(r) == idx, "a block is released to the class it was taken from (class(2^idx) == idx)");
  /* what myth_flmalloc asserts about the two kinds of classes */
  if (r < PAGE_SIZE) __CPROVER_assert(PAGE_SIZE % r == 0 && r >= 2, "small class: the cell size divides the page");
  else               __CPROVER_assert(r % 4096 == 0, "large class: whole pages");
  /* page rounding used for custom stacks and for the mmap of records / default stacks */
  size_t t = nondet_ulong();
  __CPROVER_assume(1 <= t && t <= ((size_t)1 << 30));
  size_t rounded = t; rounded += 0xFFF; rounded &= ~(size_t)0xFFF;
  __CPROVER_assert(rounded >= t && rounded - t < 4096 && rounded % 4096 == 0, "page rounding: smallest multiple of 4096 >= size");
  __CPROVER_assert(rounded <= ((size_t)1 << 30), "page rounding stays inside the precondition of the size classes");
  int ridx = MYTH_MALLOC_SIZE_TO_INDEX(rounded);
  __CPROVER_assert(12 <= ridx && ridx < FREE_LIST_NUM, "a rounded stack size never uses a carved (sub-page) class");
  __CPROVER_assert((size_t)MYTH_MALLOC_INDEX_TO_RSIZE(ridx) >= rounded, "the block covers the rounded stack size");
  /* monotone: a larger request never gets a smaller class (so un-rounded and rounded sizes can differ in class) */
  size_t u = nondet_ulong();
  __CPROVER_assume(2 <= u && u <= s);
  __CPROVER_assert(MYTH_MALLOC_SIZE_TO_INDEX(u) <= idx, "class index is monotone in the size");
  VERIF_CANARY();
}

/* why the precondition is needed (lemma, natively confirmed: myth_create_ex with a 2^30+4096 byte stack dies with SIGSEGV) */
void h_sizeclass_limit(void) {
  size_t s = nondet_ulong();
  __CPROVER_assume(((size_t)1 << 30) < s && s <= ((size_t)1 << 31));
  int idx = MYTH_MALLOC_SIZE_TO_INDEX(s);
  __CPROVER_assert(idx == FREE_LIST_NUM, "limit: for 2^30 < s <= 2^31 the class index is FREE_LIST_NUM, one past the last list");
  /* above 2^32 the conversion to the 32-bit argument of __builtin_clz truncates: cbmc's conversion check reports it
     (the obligation `arithmetic overflow on unsigned to unsigned type conversion in (unsigned int)(size - 1)` of
     myth_flmalloc / myth_flfree is discharged in the other jobs only thanks to the precondition) */
  VERIF_CANARY();
}

/* ================================================================ (A2) free list */
typedef struct { myth_freelist_cell_t link; unsigned long payload; } verif_cell_t;   /* first word = link, then user data */
verif_cell_t CA, CB, CC;
myth_freelist_t L0, L1;

void push_contract(myth_freelist_t * fl, void * h_)
  __CPROVER_requires(fl == &L0 && (h_ == (void *)&CA || h_ == (void *)&CC))
  __CPROVER_assigns(fl->head, ((myth_freelist_cell_t *)h_)->next)          /* frame: nothing else, in particular not the payload */
  __CPROVER_ensures(fl->head == (myth_freelist_cell_t *)h_)
  __CPROVER_ensures(((myth_freelist_cell_t *)h_)->next == __CPROVER_old(fl->head));

void * pop_contract(myth_freelist_t * fl)
  __CPROVER_requires(fl == &L0)
  __CPROVER_assigns(fl->head)                                               /* frame: no cell is written */
  __CPROVER_ensures(__CPROVER_return_value == (void *)__CPROVER_old(fl->head))
  __CPROVER_ensures(__CPROVER_return_value != 0 ==> fl->head == __CPROVER_old(fl->head->next))
  __CPROVER_ensures(__CPROVER_return_value == 0 ==> fl->head == 0);

static void setup_list(void) {
  /* L0 is empty, or B, or B -> C' (C' = CC only when CC is not the cell being pushed); L1 is another list */
  _Bool nonempty = nondet_bool();
  CB.link.next = 0; CB.payload = nondet_ulong();
  CA.link.next = (myth_freelist_cell_t *)&CB;        /* stale link left in a live cell: must be overwritten by push */
  CA.payload = nondet_ulong(); CC.payload = nondet_ulong(); CC.link.next = 0;
  L0.head = nonempty ? &CB.link : 0;
  L1.head = 0;
}

void h_push(void) {
  setup_list();
  _Bool useA = nondet_bool();
  unsigned long pa = CA.payload, pb = CB.payload, pc = CC.payload;
  myth_freelist_cell_t * oldhead = L0.head;
  myth_freelist_push(&L0, useA ? (void *)&CA : (void *)&CC);
  __CPROVER_assert(CA.payload == pa && CB.payload == pb && CC.payload == pc, "push: only the first word of the cell is written (size word of a parked stack survives)");
  __CPROVER_assert(CB.link.next == 0, "push: cells already on the list are not written");
  __CPROVER_assert(L1.head == 0, "push: other lists are not written");
  __CPROVER_assert(L0.head == (useA ? &CA.link : &CC.link) && L0.head->next == oldhead, "push: new cell becomes the head and points to the old head");
  VERIF_CANARY();
}

void h_pop(void) {
  setup_list();
  myth_freelist_cell_t * oldhead = L0.head;
  void * r = myth_freelist_pop(&L0);
  __CPROVER_assert(r == (void *)oldhead, "pop: returns the head");
  __CPROVER_assert(L1.head == 0, "pop: other lists are not written");
  VERIF_CANARY();
}

/* LIFO on the real bodies: what was pushed last comes back first, the list is then as before */
void h_lifo(void) {
  setup_list();
  myth_freelist_cell_t * oldhead = L0.head;
  unsigned long pa = CA.payload, pc = CC.payload;
  myth_freelist_push(&L0, &CA);
  myth_freelist_push(&L0, &CC);
  void * r1 = myth_freelist_pop(&L0);
  void * r2 = myth_freelist_pop(&L0);
  __CPROVER_assert(r1 == (void *)&CC && r2 == (void *)&CA, "LIFO: pop returns the last pushed cell");
  __CPROVER_assert(L0.head == oldhead, "LIFO: after as many pops as pushes the list is as before");
  __CPROVER_assert(CA.payload == pa && CC.payload == pc, "LIFO: payload of parked cells intact");
  void * r3 = myth_freelist_pop(&L0);
  void * r4 = myth_freelist_pop(&L0);
  __CPROVER_assert(r3 == (void *)oldhead && r4 == 0 && L0.head == 0, "pop on the exhausted list returns 0 and leaves it empty");
  VERIF_CANARY();
}

/* ================================================================ (A3) myth_flmalloc / myth_flfree
 * The list operations are replaced by LEDGER stubs (their memory effect is (A2)); the ledger states which list
 * may be touched and which cell may be pushed:
 *   MODE_CARVE  the j-th push (j = 1, 2, ...) must be cell j of the freshly mapped page: address page + j * cellsize,
 *               completely inside the page.  Hence every push is a different cell, cells are pairwise disjoint,
 *               cell 0 (the one returned to the caller) is never put on a list.
 *   MODE_EXACT  exactly the pointer g_exp_push may be pushed, once (g_exp_push == 0: no push is legal).
 */
enum { MODE_CARVE = 1, MODE_EXACT = 2 };
int     g_rank;                 /* worker executing the call */
size_t  g_size;
int     g_cls;                  /* class(size) computed by the specification side */
char  * g_hit;                  /* the cell parked on the list before the call (0: list empty) */
myth_freelist_t * g_exp_list;   /* the only list the call may touch */
int     g_mode;
void  * g_exp_push;
int     g_pops;                 /* 0, 1 */
long    g_pushes;               /* number of pushes so far (<= 512) */
#define G_REAL ((long)1 << g_cls)

/* ledger stubs WITH bodies (--replace-calls): the asserts are the preconditions, the effect is the ghost update.  (A
   pointer returned through an assumed `ensures` of a replaced contract has an unknown value set in CBMC, which made
   the callers' dereferences range over every object of the program: 85 s instead of 1 s.) */
void verif_push(myth_freelist_t * fl, void * h_) {
  __CPROVER_assert(fl == g_exp_list, "push goes to the list of class(size) / the per-worker list of the EXECUTING worker");
  __CPROVER_assert(0 <= g_pushes && g_pushes < 512, "push: at most PAGE_SIZE/8 cells per request");
  if (g_mode == MODE_CARVE)
    __CPROVER_assert(3 <= g_cls && g_cls < 12 && g_mmap_calls == 1 && __CPROVER_same_object(h_, g_mmap_ret)
                     && (char *)h_ - g_mmap_ret == (g_pushes + 1) * G_REAL && (g_pushes + 2) * G_REAL <= PAGE_SIZE,
                     "carving: the j-th cell put on the list is cell j of the fresh page (inside the page, never cell 0, never twice)");
  else
    __CPROVER_assert(g_mode == MODE_EXACT && h_ != 0 && h_ == g_exp_push && g_pushes == 0,
                     "release: exactly the block/stack/record being released is pushed, once");
  if (g_pushes < 600) g_pushes++;
}
void * verif_pop(myth_freelist_t * fl) {
  __CPROVER_assert(fl == g_exp_list, "pop from the list of class(size) / the per-worker list of the EXECUTING worker");
  __CPROVER_assert(g_pops == 0 && g_pushes == 0, "one pop per request, before anything is pushed");
  g_pops = 1;
  return g_hit;
}

static int spec_class(size_t size) {               /* specification: the smallest c >= 3 with 2^c >= size (relational, no loop) */
  int c = nondet_int();
  __CPROVER_assume(3 <= c && c <= 30 && ((size_t)1 << c) >= size && (c == 3 || ((size_t)1 << (c - 1)) < size));
  return c;
}

verif_cell_t HITCELL, BLK;
static void setup_fl(void) {
  setup_world();
  g_rank = nondet_int(); __CPROVER_assume(0 <= g_rank && g_rank < NW);
  g_size = nondet_ulong(); __CPROVER_assume(1 <= g_size && g_size <= ((size_t)1 << 30));
  g_cls = spec_class(g_size);
  g_hit = nondet_bool() ? (char *)&HITCELL : (char *)0;
  g_pops = 0; g_pushes = 0; g_mode = MODE_EXACT; g_exp_push = 0; g_exp_list = 0;
}

void h_flmalloc(void) {
  setup_fl();
  g_exp_list = &FL[g_rank][g_cls]; g_mode = MODE_CARVE;
  char * p = myth_flmalloc(g_rank, g_size);
  long real = G_REAL;
  __CPROVER_assert((size_t)real >= g_size, "flmalloc: the block of the class covers the request");
  __CPROVER_assert(g_pops == 1, "flmalloc: consults the list of class(size) of this worker exactly once");
  if (g_hit) {
    __CPROVER_assert(p == g_hit, "flmalloc hit: returns the parked cell");
    __CPROVER_assert(g_mmap_calls == 0 && g_pushes == 0, "flmalloc hit: maps nothing, pushes nothing");
    __CPROVER_assert(0, "CANARY reachable: flmalloc hit");
  } else {
    __CPROVER_assert(g_mmap_calls == 1 && p == g_mmap_ret, "flmalloc miss: exactly one mapping, its start (cell 0) is returned");
    if (g_cls >= 12) {
      __CPROVER_assert(g_mmap_len == (size_t)real, "flmalloc miss, large class: maps exactly one block of the class size");
      __CPROVER_assert(g_pushes == 0, "flmalloc miss, large class: nothing is put on a list");
      __CPROVER_assert(0, "CANARY reachable: flmalloc miss, large class");
    } else {
      __CPROVER_assert(g_mmap_len == PAGE_SIZE, "flmalloc miss, small class: maps one page");
      __CPROVER_assert(0, "CANARY reachable: flmalloc miss, small class (page carving)");
      __CPROVER_assert(g_pushes == PAGE_SIZE / real - 1, "carving: ALL cells 1..n-1 of the page are put on the list (n = PAGE_SIZE / cellsize), each once");
    }
  }
  VERIF_CANARY();
}

void h_flfree(void) {
  setup_fl();
  g_exp_list = &FL[g_rank][g_cls]; g_mode = MODE_EXACT; g_exp_push = &BLK;
  myth_flfree(g_rank, g_size, &BLK);
  __CPROVER_assert(g_pushes == 1 && g_pops == 0 && g_mmap_calls == 0,
                   "flfree: the block is pushed once on the list of class(size) of the releasing worker -- the class flmalloc(size) pops from");
  VERIF_CANARY();
}

/* ================================================================ (A4) custom-size stacks (allocator by its ledger contract) */
int     g_rank_free;            /* worker that executes the release (the thread may have migrated) */
int     g_flm_calls, g_flf_calls, g_flm_cls;
size_t  g_flm_size, g_flf_size;
char  * g_flm_ret;

/* The size-class allocator seen from get/free_myth_thread_struct_stack: ledger stubs WITH bodies (--replace-calls; a
   pointer returned through an assumed `ensures` has an unknown value set in CBMC and made the check 100x slower).
   Their asserts are the preconditions of the allocator's contract, their effect is its postcondition (proved in (A3)):
   flmalloc returns a block of `size` bytes owned by the caller, flfree takes back a live block by its start. */
void * verif_flmalloc(int rank, size_t size) {
  __CPROVER_assert(g_flm_calls == 0 && rank == g_rank, "flmalloc precondition: one allocation, from the lists of the executing worker");
  __CPROVER_assert(1 <= size && size <= ((size_t)1 << 30), "flmalloc precondition: size within the domain of the size classes");
  char * p = __CPROVER_allocate(size, 0);          /* a block of (at least) size bytes, owned by the caller */
  g_flm_calls = 1; g_flm_size = size; g_flm_ret = p;
  return p;
}
void verif_flfree(int rank, size_t size, void * ptr) {
  __CPROVER_assert(g_flm_calls == 1 && g_flf_calls == 0, "flfree precondition: the block is live (released at most once)");
  __CPROVER_assert(rank == g_rank_free, "flfree precondition: released to the lists of the worker that EXECUTES the release");
  __CPROVER_assert(ptr == (void *)g_flm_ret, "flfree precondition: the START of the block is recomputed exactly");
  __CPROVER_assert(1 <= size && size <= ((size_t)1 << 30) && 3 <= g_flm_cls && g_flm_cls <= 30 &&
                   ((size_t)1 << g_flm_cls) >= size && (g_flm_cls == 3 || ((size_t)1 << (g_flm_cls - 1)) < size),
                   "flfree precondition: class selected by the release == class the block was allocated from");
  g_flf_calls = 1; g_flf_size = size;
}

struct myth_thread TH;
void h_stack_custom(void) {
  setup_fl();                                            /* g_size = requested stack size, 1 .. 2^30 */
  g_rank_free = nondet_int(); __CPROVER_assume(0 <= g_rank_free && g_rank_free < NW);
  g_flm_calls = 0; g_flf_calls = 0; g_flm_ret = 0; g_flm_size = 0; g_flm_cls = 0;
  size_t rounded = (g_size + 4095) & ~(size_t)4095;
  char * sp = get_new_myth_thread_struct_stack(&ENVS[g_rank], g_size);
  char * blk = g_flm_ret;
  __CPROVER_assert(g_flm_calls == 1 && g_pops == 0 && g_pushes == 0 && g_mmap_calls == 0, "custom stack: exactly one block from the size-class allocator");
  __CPROVER_assert(g_flm_size >= g_size && g_flm_size % 4096 == 0 && g_flm_size == rounded, "custom stack: block request = page-rounded stack size");
  __CPROVER_assert(__CPROVER_same_object(sp, blk) && sp - blk >= 0 && (size_t)(sp - blk) + 16 == g_flm_size,
                   "custom stack: returned pointer = block + rounded size - 16 (stack and size word inside the block)");
  __CPROVER_assert(*(uintptr_t *)(sp + 8) == rounded && rounded != 0, "custom stack: size word above the stack top holds the rounded size (non-zero: not the default list)");
  /* the thread runs, finishes on worker g_rank_free, its stack is released there */
  g_flm_cls = spec_class(g_flm_size);
  TH.stack = sp;
  free_myth_thread_struct_stack(&ENVS[g_rank_free], &TH);
  __CPROVER_assert(g_flf_size == rounded, "custom stack release: the size read back from the size word is the rounded size");
  __CPROVER_assert(g_flf_calls == 1 && g_pushes == 0 && g_pops == 0, "custom stack release: handed back to the size-class allocator exactly once, never to the default list");
  VERIF_CANARY();
}

/* ================================================================ (A5) default-size stacks and records */
void h_stack_default(void) {
  setup_fl();
  g_rank_free = nondet_int(); __CPROVER_assume(0 <= g_rank_free && g_rank_free < NW);
  g_attr.stacksize = g_size;
  __CPROVER_assume(g_size >= 4096);                      /* "all stack sizes from one page upward" */
  size_t rounded = (g_size + 4095) & ~(size_t)4095;
  g_exp_list = &ENVS[g_rank].freelist_stack; g_hit = 0;  /* miss */
  char * sp = get_new_myth_thread_struct_stack(&ENVS[g_rank], 0);
  char * blk = g_mmap_ret;
  __CPROVER_assert(g_pops == 1 && g_pushes == 0, "default stack: one look at the executing worker's default-stack list; STACK_ALLOC_UNIT == 1: nothing parked by a miss");
  __CPROVER_assert(g_mmap_calls == 1 && g_mmap_len == rounded, "default stack: one fresh mapping of the page-rounded default size");
  __CPROVER_assert(sp == blk + g_size - 16, "default stack: returned pointer = block + stacksize - 16");
  __CPROVER_assert(*(uintptr_t *)(sp + 8) == 0, "default stack: size word 0 marks the default free list");
  /* release on the worker where the thread finished */
  TH.stack = sp;
  g_pops = 0; g_exp_list = &ENVS[g_rank_free].freelist_stack; g_mode = MODE_EXACT; g_exp_push = sp;
  free_myth_thread_struct_stack(&ENVS[g_rank_free], &TH);
  __CPROVER_assert(g_pushes == 1 && g_pops == 0 && g_mmap_calls == 1, "default stack release: parked once on the releasing worker's default-stack list, never on a size-class list");
  /* recycling: a hit returns the parked stack as it is */
  g_pushes = 0; g_exp_push = 0; g_hit = sp;
  char * sp2 = get_new_myth_thread_struct_stack(&ENVS[g_rank_free], 0);
  __CPROVER_assert(sp2 == sp && g_pops == 1 && g_pushes == 0 && g_mmap_calls == 1, "default stack: recycled from the list, no new mapping");
  VERIF_CANARY();
}

/* a thread without own stack (the main thread: th->stack == NULL): nothing is released */
void h_stack_none(void) {
  setup_fl();
  TH.stack = 0;
  free_myth_thread_struct_stack(&ENVS[g_rank], &TH);
  __CPROVER_assert(g_pushes == 0 && g_pops == 0 && g_mmap_calls == 0, "release of a thread without own stack touches no list");
  VERIF_CANARY();
}

void h_desc(void) {
  setup_fl();
  g_rank_free = nondet_int(); __CPROVER_assume(0 <= g_rank_free && g_rank_free < NW);
  g_exp_list = &ENVS[g_rank].freelist_desc; g_hit = 0;
  myth_thread_t d = get_new_myth_thread_struct_desc(&ENVS[g_rank]);
  __CPROVER_assert(g_pops == 1 && g_pushes == 0, "record: one look at the executing worker's record list; nothing parked by a miss");
  __CPROVER_assert(g_mmap_calls == 1 && (char *)d == g_mmap_ret, "record: fresh mapping, record at its start");
  __CPROVER_assert(g_mmap_len >= sizeof(struct myth_thread) && g_mmap_len % 4096 == 0 && g_mmap_len - sizeof(struct myth_thread) < 4096, "record: the mapping covers exactly one record");
  __CPROVER_assert(d->lock.locked == 0, "record: lock initialised (unlocked)");
  g_pops = 0; g_exp_list = &ENVS[g_rank_free].freelist_desc; g_mode = MODE_EXACT; g_exp_push = d;
  free_myth_thread_struct_desc(&ENVS[g_rank_free], d);
  __CPROVER_assert(g_pushes == 1 && g_pops == 0 && g_mmap_calls == 1, "record release: parked once on the releasing worker's record list");
  g_pushes = 0; g_exp_push = 0; g_hit = (char *)d;
  myth_thread_t d2 = get_new_myth_thread_struct_desc(&ENVS[g_rank_free]);
  __CPROVER_assert(d2 == d && g_pops == 1 && g_pushes == 0 && g_mmap_calls == 1, "record: recycled from the list, no new mapping");
  VERIF_CANARY();
}

/* ================================================================ (A4') custom-size stacks on the REAL size-class allocator:
 * real get/free_myth_thread_struct_stack + real myth_flmalloc/myth_flfree/myth_mmap; list operations by the ledger stubs.
 * The carving loop is never entered for a stack-sized request (unwinding assertion with bound 0 iterations). */
void h_stack_custom_alloc(void) {
  setup_fl();                                            /* g_size = requested stack size, 1 .. 2^30 */
  g_rank_free = nondet_int(); __CPROVER_assume(0 <= g_rank_free && g_rank_free < NW);
  size_t rounded = (g_size + 4095) & ~(size_t)4095;
  int cls = spec_class(rounded);
  g_cls = cls; g_mode = MODE_CARVE; g_exp_list = &FL[g_rank][cls];
  if (g_hit) g_hit = __CPROVER_allocate((size_t)1 << cls, 0);          /* hit: a block of that class is parked; else miss */
  char * sp = get_new_myth_thread_struct_stack(&ENVS[g_rank], g_size);
  char * blk = g_hit ? g_hit : g_mmap_ret;
  __CPROVER_assert(g_pops == 1 && g_pushes == 0, "custom stack: block taken from the list of the class of the ROUNDED size on the executing worker, nothing carved");
  __CPROVER_assert(g_hit ? g_mmap_calls == 0 : (g_mmap_calls == 1 && g_mmap_len == ((size_t)1 << cls) && g_mmap_len >= rounded),
                   "custom stack: a miss maps one fresh block of the class size, which covers the rounded stack size");
  __CPROVER_assert(sp == blk + rounded - 16, "custom stack: returned pointer = block + rounded size - 16");
  /* release on the worker where the thread finished */
  TH.stack = sp;
  g_pops = 0; g_mode = MODE_EXACT; g_exp_push = blk; g_exp_list = &FL[g_rank_free][cls];
  free_myth_thread_struct_stack(&ENVS[g_rank_free], &TH);
  __CPROVER_assert(g_pushes == 1 && g_pops == 0,
                   "custom stack release: block START recomputed exactly and parked on the list of the class it was taken from, on the releasing worker");
  VERIF_CANARY();
}
