/* C10 -- key allocator under interference (rely/guarantee, DESIGN §3.3 / §4 C10).
 * Functions under contract (real bodies): myth_tls_key_allocator_alloc, myth_tls_key_allocator_dealloc.
 *
 * Shared state: KA.free (Treiber stack head) and the cells KA.keys[].  The environment (other threads running any
 * number of complete or partial alloc/dealloc) is a stub WITH A BODY over four named cells C0..C3 (every pointer is
 * assigned constructively): before every read of shared state and before every CAS of the code under proof it may
 * rebuild the stack arbitrarily from the cells I do not own, and mark cells live (popped by somebody else).
 * While I hold a lock that serialises pops (none on the pinned tree: g_poplock_mine == 0) it may only push.
 * Ghosts: g_head/g_succ the agreed head and its successor; g_mine the cell I own (popped by me / the live key I am
 * deleting); shadow copies of every cell I do not own (a cell I do not own must not be written by me).
 * Guarantee on my CAS on KA.free:
 *   pop  c -> n : n == the head's successor AT THE CAS INSTANT (not a stale one: ABA)
 *   push o -> c : c is the cell I own and c->next == o at the CAS instant
 */
#include "verif_common.h"
#include "myth_tls.h"

extern myth_tls_key_allocator_t KA;
#define NC 4
myth_tls_key_entry_t * C[NC];
myth_tls_key_entry_t * g_head, * g_succ, * g_mine, * g_popped;
myth_tls_key_entry_t * g_sh_next[NC]; myth_tls_destructor_fun_t g_sh_d[NC];
int g_poplock_mine, g_pops, g_pushes, g_env_budget;   /* g_env_budget: interfering environment steps left (bounded stand-in) */
#define LIVE ((myth_tls_key_entry_t *)-1)
static void D1(void * v) { }
static void D9(void * v) { }

static void ka_agree(void) {          /* re-read the shared state into the ghosts */
  int i;
  g_head = KA.free; g_succ = g_head ? g_head->next : 0;
  for (i = 0; i < NC; i++) { g_sh_next[i] = C[i]->next; g_sh_d[i] = C[i]->destructor; }
}
static myth_tls_key_entry_t * pickc(int k) { return k == 0 ? C[0] : k == 1 ? C[1] : k == 2 ? C[2] : C[3]; }

void ka_env(void) {
  int i;
  __CPROVER_assert(KA.free == g_head, "key allocator: no unannounced (non-atomic) write to the free-list head");
  for (i = 0; i < NC; i++)
    if (C[i] != g_mine)
      __CPROVER_assert(C[i]->next == g_sh_next[i] && C[i]->destructor == g_sh_d[i],
                       "key allocator: a cell the caller does not own (it is on the free list or belongs to another thread) is never written");
  if (g_env_budget <= 0) { ka_agree(); return; }
  if (g_poplock_mine) {
    g_env_budget--;
    /* pops are serialised by a lock I hold: the others can only push cells they own */
    int r;
    for (r = 0; r < 2; r++) {
      int k = nondet_int(); __CPROVER_assume(0 <= k && k < NC);
      myth_tls_key_entry_t * x = pickc(k);
      if (nondet_bool() && x != g_mine && x->next == LIVE) { x->next = KA.free; KA.free = x; }
    }
  } else if (nondet_bool()) {
    g_env_budget--;
    /* arbitrary pops and pushes by the others: any stack over the cells I do not own */
    for (i = 0; i < NC; i++) {
      myth_tls_key_entry_t * c = pickc(i);
      if (c == g_mine) continue;
      int ch = nondet_int(); __CPROVER_assume(-2 <= ch && ch < NC);
      myth_tls_key_entry_t * nx = ch == -2 ? LIVE : ch == -1 ? 0 : pickc(ch);
      __CPROVER_assume(nx != c && nx != g_mine);
      c->next = nx;
      if (nx == LIVE) c->destructor = nondet_bool() ? D9 : 0;       /* allocated by somebody else */
    }
    { int h = nondet_int(); __CPROVER_assume(-1 <= h && h < NC);
      myth_tls_key_entry_t * nh = h < 0 ? 0 : pickc(h);
      __CPROVER_assume(nh == 0 || (nh != g_mine && nh->next != LIVE));
      KA.free = nh; }
  }
  ka_agree();
}

static inline _Bool myth_verif_cas_ptr(myth_tls_key_entry_t * volatile * p, myth_tls_key_entry_t * o, myth_tls_key_entry_t * n) {
  __CPROVER_assert(p == &KA.free, "key allocator: the only CAS target is the free-list head");
  ka_env();
  _Bool r = __sync_bool_compare_and_swap(p, o, n);
  if (r) {
    if (g_mine == 0) {                      /* pop */
      __CPROVER_assert(o != 0, "GUARANTEE key_alloc: pop removes an existing head");
      __CPROVER_assert(n == g_succ, "GUARANTEE key_alloc: successor stored by pop CAS is the head's successor at the CAS instant (ABA)");
      g_mine = o; g_popped = o; g_pops++;
    } else {                                /* push */
      __CPROVER_assert(n == g_mine, "GUARANTEE key_alloc: push publishes the cell the caller owns");
      __CPROVER_assert(g_mine->next == o, "GUARANTEE key_alloc: the pushed cell links to the head it replaces, at the CAS instant");
      g_mine = 0; g_pushes++;
    }
    ka_agree();
  }
  return r;
}
#define __sync_bool_compare_and_swap(p,o,n) myth_verif_cas_ptr((myth_tls_key_entry_t * volatile *)(p), (myth_tls_key_entry_t *)(o), (myth_tls_key_entry_t *)(n))
/* R4 read hook: an environment step precedes every read of shared allocator state by the code under proof */
static inline void myth_verif_rd(volatile void * p) { if (__CPROVER_same_object((void *)p, &KA)) ka_env(); }

#include "myth_tls_func.h"
#undef __sync_bool_compare_and_swap

/* the lock that serialises pops (if the tree has one): taking it is an interference point; while it is held the
   environment can only push */
int verif_poplock_lock(myth_spinlock_t * l) {
  __CPROVER_assert(l == &KA.pop_lock && !g_poplock_mine, "key allocator: the only lock taken is the allocator's pop lock, not re-entered");
  ka_env();
  g_poplock_mine = 1;
  return 0;
}
int verif_poplock_unlock(myth_spinlock_t * l) {
  __CPROVER_assert(l == &KA.pop_lock && g_poplock_mine, "key allocator: releases the pop lock it holds");
  g_poplock_mine = 0;
  return 0;
}

myth_tls_key_allocator_t KA;

static void setup(int mine_cell) {
  int i;
  C[0] = &KA.keys[0]; C[1] = &KA.keys[1]; C[2] = &KA.keys[myth_tls_n_keys / 2]; C[3] = &KA.keys[myth_tls_n_keys - 1];
  g_mine = mine_cell >= 0 ? pickc(mine_cell) : 0;
  for (i = 0; i < NC; i++) {
    myth_tls_key_entry_t * c = pickc(i);
    int ch = nondet_int(); __CPROVER_assume(-2 <= ch && ch < NC);
    myth_tls_key_entry_t * nx = ch == -2 ? LIVE : ch == -1 ? 0 : pickc(ch);
    __CPROVER_assume(nx != c && (g_mine == 0 || nx != g_mine));
    c->next = (c == g_mine) ? LIVE : nx;
    c->destructor = nondet_bool() ? D9 : 0;
  }
  { int h = nondet_int(); __CPROVER_assume(-1 <= h && h < NC);
    myth_tls_key_entry_t * nh = h < 0 ? 0 : pickc(h);
    __CPROVER_assume(nh == 0 || (nh != g_mine && nh->next != LIVE));
    KA.free = nh; }
  g_pops = g_pushes = 0; g_popped = 0; g_poplock_mine = 0; g_env_budget = 2;
  ka_agree();
}

void h_alloc(void) {
  setup(-1);
  myth_tls_destructor_fun_t d = nondet_bool() ? D1 : 0;
  int k = myth_tls_key_allocator_alloc(&KA, d);
  __CPROVER_assert(k == -1 || (0 <= k && k < myth_tls_n_keys), "alloc: -1 or a key in range");
  __CPROVER_assert((k >= 0) == (g_pops == 1) && g_pushes == 0, "alloc: exactly one pop on success, none on failure, never a push");
  __CPROVER_assert(k < 0 || (&KA.keys[k] == g_popped && g_mine == g_popped), "alloc: returns the cell it popped (owned exclusively by the caller from then on)");
  __CPROVER_assert(k < 0 || (KA.keys[k].next == LIVE && KA.keys[k].destructor == d), "alloc: key marked live, destructor recorded");
  __CPROVER_assert(!g_poplock_mine, "alloc: the pop lock is released on every return path");
  ka_env();       /* final agreement check: no stray write */
  VERIF_CANARY();
}

void h_dealloc(void) {
  int m = nondet_int(); __CPROVER_assume(0 <= m && m < NC);
  setup(m);                                  /* the caller deletes a live key it holds: nobody else touches that cell */
  int key = (int)(g_mine - KA.keys);
  myth_tls_destructor_fun_t d0 = g_mine->destructor;
  myth_tls_destructor_fun_t r = myth_tls_key_allocator_dealloc(&KA, key);
  __CPROVER_assert(r == d0, "dealloc: returns the destructor of the deleted key");
  __CPROVER_assert(g_pushes == 1 && g_pops == 0 && g_mine == 0, "dealloc: exactly one push of the caller's cell, never a pop");
  ka_env();
  VERIF_CANARY();
}
