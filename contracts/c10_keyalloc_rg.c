/* C10 -- key allocator under interference (rely/guarantee, DESIGN §3.3 / §4 C10).
 * Functions under contract (real bodies): myth_tls_key_allocator_alloc, myth_tls_key_allocator_dealloc.
 *
 * Shared state: KA.free (Treiber stack head) and the cells KA.keys[].  Ghost view:
 *   g_hi  index of the head cell (-1: empty), KA.free == cell(g_hi)
 *   g_si  index of the head's successor in the stack (-1: none), KA.keys[g_hi].next == cell(g_si)
 *   g_mine index of the cell I own exclusively (-1: none): a cell I popped, or the live key I am deleting
 *   g_w   witness cell with agreed copies g_w_next / g_w_d: a cell I do not own must not be written by me
 *   g_poplock_mine: I hold the lock that serialises pops (0 on a tree without such a lock)
 * Environment step (other threads, any number of complete or partial alloc/dealloc): may rewrite the head, and
 * every cell except mine, arbitrarily within the stack discipline.  While I hold the pop lock the environment
 * can only push: "my candidate cell g_ke is the head" can then only go from true to false, and while it stays
 * true its successor is unchanged.
 * Guarantee on my CAS on KA.free:
 *   pop  c -> n : c == head, n == the head's successor AT THE CAS INSTANT (not a stale one: ABA)
 *   push o -> c : c is the cell I own and c.next == o at the CAS instant
 */
#include "verif_common.h"
#include "myth_tls.h"

extern myth_tls_key_allocator_t KA;
int g_hi, g_si, g_mine, g_w, g_ke, g_poplock_mine;
myth_tls_key_entry_t * g_w_next; myth_tls_destructor_fun_t g_w_d;
int g_pops, g_pushes, g_popped;

#define NKEYS myth_tls_n_keys
#define CELL(i) ((i) < 0 ? (myth_tls_key_entry_t *)0 : &KA.keys[i])
#define LIVE ((myth_tls_key_entry_t *)-1)
#define RANGE(i) (-1 <= (i) && (i) < NKEYS)
#define VIEW_OK (RANGE(g_hi) && RANGE(g_si) && RANGE(g_mine) && 0 <= g_w && g_w < NKEYS && RANGE(g_ke) && \
                 KA.free == CELL(g_hi) && (g_hi >= 0 ==> (KA.keys[g_hi].next == CELL(g_si) && g_si != g_hi && g_hi != g_mine)) && \
                 (g_hi < 0 ==> g_si == -1) && (g_si < 0 || g_si != g_mine))
#define W_AGREE (g_w == g_mine || (KA.keys[g_w].next == g_w_next && KA.keys[g_w].destructor == g_w_d))

void myth_verif_env_step(void)
  __CPROVER_requires(VIEW_OK)
  __CPROVER_requires(W_AGREE && "a cell I do not own was written by me (or the view of the stack is stale)")
  __CPROVER_assigns(__CPROVER_object_whole(&KA), g_hi, g_si, g_w_next, g_w_d)
  __CPROVER_ensures(VIEW_OK && W_AGREE)
  /* my own cell is untouched by others */
  __CPROVER_ensures(g_mine < 0 || (KA.keys[g_mine].next == __CPROVER_old(KA.keys[g_mine].next) &&
                                   KA.keys[g_mine].destructor == __CPROVER_old(KA.keys[g_mine].destructor)))
  /* pops serialised by a lock I hold: the others can only push */
  __CPROVER_ensures(g_poplock_mine ==> ((g_hi == g_ke && g_ke >= 0) ==> (__CPROVER_old(g_hi) == g_ke && g_si == __CPROVER_old(g_si))));

static inline _Bool myth_verif_cas_ptr(myth_tls_key_entry_t * volatile * p, myth_tls_key_entry_t * o, myth_tls_key_entry_t * n) {
  __CPROVER_assert(p == &KA.free, "key allocator: the only CAS target is the free-list head");
  myth_verif_env_step();
  _Bool r = __sync_bool_compare_and_swap(p, o, n);
  if (r) {
    if (g_mine < 0) {                       /* pop */
      __CPROVER_assert(o != 0 && o == CELL(g_hi), "GUARANTEE key_alloc: pop removes the current head");
      __CPROVER_assert(n == CELL(g_si), "GUARANTEE key_alloc: successor stored by pop CAS is the head's successor at the CAS instant (ABA)");
      g_mine = g_hi; g_popped = g_hi; g_hi = g_si;
      g_si = nondet_int();                  /* the new head's successor: whatever the stack says */
      __CPROVER_assume(RANGE(g_si) && (g_hi < 0 ? g_si == -1 : (KA.keys[g_hi].next == CELL(g_si) && g_si != g_hi)) && (g_si < 0 || g_si != g_mine));
      g_pops++;
    } else {                                /* push */
      __CPROVER_assert(n == CELL(g_mine), "GUARANTEE key_alloc: push publishes the cell the caller owns");
      __CPROVER_assert(KA.keys[g_mine].next == o, "GUARANTEE key_alloc: the pushed cell links to the head it replaces, at the CAS instant");
      g_si = g_hi; g_hi = g_mine; g_mine = -1;
      g_pushes++;
    }
    if (g_w != g_mine) { g_w_next = KA.keys[g_w].next; g_w_d = KA.keys[g_w].destructor; }
  }
  return r;
}
#define __sync_bool_compare_and_swap(p,o,n) myth_verif_cas_ptr((myth_tls_key_entry_t * volatile *)(p), (myth_tls_key_entry_t *)(o), (myth_tls_key_entry_t *)(n))
/* R4 read hook: an environment step precedes every read of shared allocator state by the code under proof */
static inline void myth_verif_rd(volatile void * p) {
  if (__CPROVER_same_object((void *)p, &KA)) {
    myth_verif_env_step();
    if ((void *)p == (void *)&KA.free) g_ke = g_hi;      /* the candidate the code is about to work with */
  }
}

#include "myth_tls_func.h"
#undef __sync_bool_compare_and_swap

myth_tls_key_allocator_t KA;
void (*keep_env)(void) = myth_verif_env_step;
static void D1(void * v) { }

static void setup(void) {
  __CPROVER_havoc_object(&KA);
  g_hi = nondet_int(); g_si = nondet_int(); g_w = nondet_int(); g_ke = -1;
  g_pops = g_pushes = 0; g_popped = -1;
}

/* spin lock that serialises pops, if the tree has one (none on the pinned tree): contract-only hooks */
void h_alloc(void) {
  setup();
  g_mine = -1; g_poplock_mine = 0;
  __CPROVER_assume(VIEW_OK);
  g_w_next = KA.keys[g_w].next; g_w_d = KA.keys[g_w].destructor;
  myth_tls_destructor_fun_t d = nondet_bool() ? D1 : 0;
  int k = myth_tls_key_allocator_alloc(&KA, d);
  __CPROVER_assert(k == -1 || (0 <= k && k < NKEYS), "alloc: -1 or a key in [0,1024)");
  __CPROVER_assert((k >= 0) == (g_pops == 1) && g_pushes == 0, "alloc: exactly one pop on success, none on failure, never a push");
  __CPROVER_assert(k < 0 || (k == g_popped && g_mine == k), "alloc: returns the cell it popped (now owned exclusively by the caller)");
  __CPROVER_assert(k < 0 || (KA.keys[k].next == LIVE && KA.keys[k].destructor == d), "alloc: key marked live, destructor recorded");
  __CPROVER_assert(VIEW_OK && W_AGREE, "alloc: no unannounced write to the list head or to a cell the caller does not own");
  VERIF_CANARY();
}

void h_dealloc(void) {
  setup();
  int key = nondet_int();
  _Bool valid = 0 <= key && key < NKEYS;
  /* the caller holds the (live) key it deletes: nobody else touches that cell */
  g_mine = (valid && KA.keys[valid ? key : 0].next == LIVE) ? key : -1;
  g_poplock_mine = 0;
  __CPROVER_assume(VIEW_OK);
  g_w_next = KA.keys[g_w].next; g_w_d = KA.keys[g_w].destructor;
  _Bool live = g_mine >= 0;
  myth_tls_destructor_fun_t d0 = KA.keys[valid ? key : 0].destructor;
  /* a key index that is valid but not live belongs to nobody: the environment may change it; the only claim is rejection */
  __CPROVER_assume(live || !valid || g_w != key);
  myth_tls_destructor_fun_t r = myth_tls_key_allocator_dealloc(&KA, key);
  if (live) {
    __CPROVER_assert(r == d0, "dealloc: returns the destructor of the deleted key");
    __CPROVER_assert(g_pushes == 1 && g_pops == 0 && g_mine == -1, "dealloc: exactly one push of the caller's cell, never a pop");
  } else if (!valid) {
    __CPROVER_assert(r == (myth_tls_destructor_fun_t)-1 && g_pushes == 0 && g_pops == 0, "dealloc: out-of-range index rejected, nothing pushed");
  } else {
    __CPROVER_assert(g_pops == 0, "dealloc: never pops");
  }
  __CPROVER_assert(VIEW_OK && W_AGREE, "dealloc: no unannounced write to the list head or to a cell the caller does not own");
  VERIF_CANARY();
}
