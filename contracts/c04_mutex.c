/* C04 -- mutex protocol word (DESIGN §3.3, §4 C04).  Functions under contract (real bodies, src/myth_sync_func.h):
 *   myth_mutex_init_body, myth_mutex_trylock_body, myth_mutex_lock_body, myth_mutex_unlock_body,
 *   myth_mutex_clear_lock_bit, myth_mutex_timedlock_body.
 *
 * state = 2 * (threads that announced they will block and have not been taken by an unlocker) + lock bit.
 * Ghosts: g_A agreed value of the word; g_i_hold / g_env_holds who holds the mutex.
 *   INV:  0 <= g_A < 2^61,  g_i_hold, g_env_holds in {0,1},  (g_A & 1) == g_i_hold + g_env_holds
 *         => at most one holder at any time (mutual exclusion) as long as every thread's CAS obeys G.
 *   G (my atomic steps):   acquire   even s -> s+1            (I become the holder)
 *                          announce  odd  s -> s+2            (I reserve a seat in the sleep queue)
 *                          release   1 -> 0                   (I am the holder, nobody waits)
 *                          take      odd s > 1 -> s-2         (I am the holder; keeps the bit; I owe one wake-up)
 *                          clear     odd s -> s-1             (I am the holder, after a take; I stop holding)
 *   R (environment): any sequence of the same steps by other threads; while I hold, only announces.
 */
#include "verif_common.h"
#include <errno.h>

long g_A; int g_i_hold, g_env_holds;
int g_no_busy_wait, g_saw_held;                 /* see myth_verif_rd */
int g_seat;                                     /* seats I may still reserve (fewer than 2^60 simultaneous waiters, I am one) */
int g_acq, g_rel, g_take, g_clear;              /* my successful steps, by kind (each at most once per call) */
int g_pending;                                  /* I reserved a seat and have not blocked on it yet */
int g_ann_ever, g_block_ever;                   /* flags, not counters: retry loops are unbounded */
int g_wake_calls, g_exit_calls, g_yield_ever;
long g_last_read;                               /* last value of the word the code under proof has read */
int g_try_since_clock;                          /* timedlock: a trylock attempt was made since the last clock reading (or the start) */

#define MUTEX_INV (g_A >= 0 && (g_seat == 0 || g_seat == 1) && g_A < (1L << 61) - 2 * g_seat && \
                   (g_i_hold == 0 || g_i_hold == 1) && (g_env_holds == 0 || g_env_holds == 1) && (g_A & 1) == g_i_hold + g_env_holds)

struct myth_mutex;
volatile long * verif_word(void);

void myth_verif_env_step(volatile long * p)
  __CPROVER_requires(*p == g_A && MUTEX_INV && "no unannounced (non-atomic) write to the mutex word")
  __CPROVER_assigns(*p, g_A, g_env_holds)
  __CPROVER_ensures(*p == g_A && MUTEX_INV)
  /* while I hold the mutex the others can only announce themselves */
  __CPROVER_ensures(g_i_hold ==> (g_A >= __CPROVER_old(g_A) && ((g_A - __CPROVER_old(g_A)) & 1) == 0));

static inline _Bool myth_verif_cas_long(volatile long * p, long o, long n) {
  if (p != verif_word()) return __sync_bool_compare_and_swap(p, o, n);
  myth_verif_env_step(p);
  g_saw_held = 0;
  _Bool r = __sync_bool_compare_and_swap(p, o, n);
  if (r) {
    if      (!g_i_hold && !(o & 1) && n == o + 1 && g_acq == 0 && !g_pending)  { g_i_hold = 1; g_acq = 1; }            /* acquire  */
    else if (!g_i_hold &&  (o & 1) && n == o + 2 && g_seat == 1 && !g_pending) { g_pending = 1; g_seat = 0; g_ann_ever = 1; } /* announce */
    else if ( g_i_hold && o == 1 && n == 0 && g_take == 0 && g_rel == 0)       { g_i_hold = 0; g_rel = 1; }            /* release  */
    else if ( g_i_hold && (o & 1) && o > 1 && n == o - 2 && g_take == 0 && g_rel == 0) { g_take = 1; }                /* take a waiter */
    else __CPROVER_assert(0, "GUARANTEE mutex: own CAS is not an allowed transition of the protocol");
    g_A = n;
  }
  return r;
}
static inline long myth_verif_fetch_sub_long(volatile long * p, long d) {
  myth_verif_env_step(p);
  long o = __sync_fetch_and_sub(p, d);
  __CPROVER_assert(g_i_hold && (o & 1) && d == 1 && g_take == 1 && g_clear == 0,
                   "GUARANTEE mutex: the lock bit is cleared only by the holder, after it took a waiter");
  g_i_hold = 0; g_clear = 1;
  g_A = o - d;
  return o;
}
#define __sync_bool_compare_and_swap(p,o,n) \
  (sizeof(*(p)) == sizeof(long) ? myth_verif_cas_long((volatile long *)(p), (long)(o), (long)(n)) \
                                : (_Bool)__sync_val_compare_and_swap((volatile int *)(p), (int)(long)(o), (int)(long)(n)) == (int)(long)(o))
#define __sync_fetch_and_sub(p,d) myth_verif_fetch_sub_long((volatile long *)(p), (long)(d))
/* R4 read hook */
/* "threads blocked on a mutex do not occupy a worker": in myth_mutex_lock a locker that has read the word and found the
   mutex held goes on to announce itself (a CAS; on success it blocks, on failure the word has moved) -- it does not read
   the word again without having tried: that would be busy waiting on the worker.  Checked in the lock job only
   (g_no_busy_wait): trylock / timedlock poll by design, with a yield between polls. */
static inline void myth_verif_rd(volatile void * p) {
  if (p == (volatile void *)verif_word()) {
    myth_verif_env_step((volatile long *)p); g_last_read = g_A;
    __CPROVER_assert(!g_no_busy_wait || !g_saw_held, "lock: a locker that found the mutex held announces itself and blocks; it does not poll the word again (no busy waiting on the worker)");
    g_saw_held = (!g_i_hold && (g_A & 1)) ? 1 : 0;
  }
}

#include "myth_sync_func.h"
#undef __sync_bool_compare_and_swap
#undef __sync_fetch_and_sub

myth_mutex_t M;
volatile long * verif_word(void) { return &M.state; }
void (*keep_env)(volatile long *) = myth_verif_env_step;

/* ------------------------------------------------------------------ contracts of callees */
void block_on_queue_contract(myth_sleep_queue_t * q, myth_mutex_t * m)
  __CPROVER_requires(q == M.sleep_q && m == 0)
  __CPROVER_requires(g_pending == 1 && "blocks exactly once per reserved seat")
  __CPROVER_requires(M.state == g_A && MUTEX_INV && g_i_hold == 0)
  __CPROVER_assigns(g_pending, g_seat, g_block_ever, M.state, g_A, g_env_holds)
  /* woken: my seat was taken out of the word by the unlocker that woke me; anything else may have happened */
  __CPROVER_ensures(g_pending == 0 && g_seat == 1 && g_block_ever == 1)
  __CPROVER_ensures(M.state == g_A && MUTEX_INV);

/* unlock with waiters: after the take, wake exactly one waiter; the lock bit is cleared by the callback that
   runs between the dequeue and the publication of the waiter (proved on the real myth_wake_one_from_queue in
   unit c04_wake) */
int wake_one_contract(myth_sleep_queue_t * q, callback_on_wakeup_t callback, void * arg)
  __CPROVER_requires(q == M.sleep_q && callback == myth_mutex_clear_lock_bit && arg == (void *)&M)
  __CPROVER_requires(g_take == 1 && g_clear == 0 && g_wake_calls == 0 && g_i_hold == 1 && "one wake-up per taken waiter")
  __CPROVER_requires(M.state == g_A && MUTEX_INV)
  __CPROVER_assigns(g_wake_calls, M.state, g_A, g_env_holds, g_i_hold, g_clear)
  __CPROVER_ensures(g_wake_calls == 1 && g_i_hold == 0 && g_clear == 1)
  __CPROVER_ensures(M.state == g_A && MUTEX_INV)
  __CPROVER_ensures(0 <= __CPROVER_return_value && __CPROVER_return_value < (1 << 20));

void exit_contract(int c)
  __CPROVER_requires(0 && "the unlock-of-an-unlocked-mutex abort is unreachable for the holder")
  __CPROVER_assigns(g_exit_calls) __CPROVER_ensures(0);

int trylock_contract(myth_mutex_t * mutex)
  __CPROVER_requires(mutex == &M && M.state == g_A && MUTEX_INV && g_i_hold == 0 && g_acq == 0 && g_pending == 0)
  __CPROVER_assigns(M.state, g_A, g_env_holds, g_i_hold, g_acq, g_try_since_clock)
  __CPROVER_ensures(M.state == g_A && MUTEX_INV && g_try_since_clock == 1)
  __CPROVER_ensures(__CPROVER_return_value == 0 || __CPROVER_return_value == EBUSY)
  __CPROVER_ensures((__CPROVER_return_value == 0) == (g_i_hold == 1))
  __CPROVER_ensures(g_acq == (g_i_hold ? 1 : 0));

int g_clock_read_ever; long g_now_s, g_now_ns;

int gettime_contract(struct timespec * ts)
  __CPROVER_requires(ts != 0)
  __CPROVER_requires(g_try_since_clock == 1 && "timedlock: an attempt precedes every clock reading (a free mutex is taken even with a past deadline; after a reading within the deadline another attempt follows)")
  __CPROVER_assigns(*ts, g_clock_read_ever, g_now_s, g_now_ns, g_try_since_clock)
  __CPROVER_ensures(__CPROVER_return_value == 0 && g_clock_read_ever == 1 && g_try_since_clock == 0)
  __CPROVER_ensures(ts->tv_sec == g_now_s && ts->tv_nsec == g_now_ns && 0 <= g_now_ns && g_now_ns <= 999999999)
  /* monotone clock */
  __CPROVER_ensures(g_now_s > __CPROVER_old(g_now_s) || (g_now_s == __CPROVER_old(g_now_s) && g_now_ns >= __CPROVER_old(g_now_ns)));
int yield_contract(int opt)
  __CPROVER_requires(M.state == g_A && MUTEX_INV && g_i_hold == 0 && "yields only while not holding the mutex")
  __CPROVER_assigns(g_yield_ever, M.state, g_A, g_env_holds)
  __CPROVER_ensures(g_yield_ever == 1 && M.state == g_A && MUTEX_INV);

/* ------------------------------------------------------------------ harnesses */
static void setup(int i_hold, int seat) {
  g_A = nondet_long(); g_env_holds = nondet_int(); g_i_hold = i_hold; g_seat = seat;
  M.state = g_A;
  g_acq = g_rel = g_take = g_clear = 0; g_pending = 0; g_ann_ever = g_block_ever = 0;
  g_wake_calls = g_exit_calls = g_yield_ever = 0; g_last_read = -1; g_no_busy_wait = 0; g_saw_held = 0;
  __CPROVER_assume(MUTEX_INV);
}

void h_init(void) {
  _Bool with_attr = nondet_bool();
  myth_mutexattr_t at; at.type = nondet_int();
  __CPROVER_havoc_object(&M);
  myth_mutex_init_body(&M, with_attr ? &at : 0);
  __CPROVER_assert(M.state == 0, "init: unlocked, no waiter");
  __CPROVER_assert(M.sleep_q->head == 0 && M.sleep_q->tail == 0 && M.sleep_q->ilock->locked == 0, "init: sleep queue empty");
  __CPROVER_assert(M.magic == myth_mutex_magic_no, "init: marked initialised");
  __CPROVER_assert(M.attr.type == (with_attr ? at.type : MYTH_MUTEX_DEFAULT), "init: attribute copied or defaulted");
  VERIF_CANARY();
}

void h_trylock(void) {
  setup(0, 0);
  int r = myth_mutex_trylock_body(&M);
  __CPROVER_assert(r == 0 || r == EBUSY, "trylock: returns 0 or EBUSY");
  __CPROVER_assert((r == 0) == (g_i_hold == 1) && g_acq == (r == 0 ? 1 : 0), "trylock: success iff exactly one acquire step of mine succeeded");
  __CPROVER_assert(r != EBUSY || (g_last_read & 1), "trylock: fails only if the mutex was seen held at some instant during the call");
  __CPROVER_assert(g_ann_ever == 0 && g_block_ever == 0, "trylock: never reserves a seat, never blocks");
  __CPROVER_assert(M.state == g_A && MUTEX_INV, "trylock: protocol invariant (at most one holder) kept, no unannounced write");
  VERIF_CANARY();
}

void h_lock(void) {
  setup(0, 1);
  g_no_busy_wait = 1; g_saw_held = 0;
  int r = myth_mutex_lock_body(&M);
  __CPROVER_assert(r == 0, "lock: returns 0");
  __CPROVER_assert(g_i_hold == 1 && g_acq == 1, "lock: returns only as the holder, after exactly one acquire step");
  __CPROVER_assert(g_pending == 0, "lock: blocks exactly once per reserved seat (no seat left behind on return)");
  __CPROVER_assert(M.state == g_A && MUTEX_INV, "lock: protocol invariant kept, no unannounced write");
  VERIF_CANARY();
}

void h_unlock(void) {
  setup(1, 0);
  int r = myth_mutex_unlock_body(&M);
  __CPROVER_assert(g_i_hold == 0, "unlock: the caller no longer holds the mutex");
  __CPROVER_assert(g_rel + g_take == 1, "unlock: exactly one release or take step");
  __CPROVER_assert((g_take == 1) == (g_wake_calls == 1), "unlock: a waiter is woken iff a seat was taken from the word (no lost wake-up, no spurious one)");
  __CPROVER_assert(g_acq == 0 && g_ann_ever == 0 && g_block_ever == 0, "unlock: neither acquires nor blocks");
  __CPROVER_assert(M.state == g_A && MUTEX_INV, "unlock: protocol invariant kept, no unannounced write");
  VERIF_CANARY();
}

void h_clear_bit(void) {
  setup(1, 0);
  g_take = 1;
  myth_mutex_clear_lock_bit(&M);
  __CPROVER_assert(g_i_hold == 0 && g_clear == 1, "clear_lock_bit: one atomic clear by the holder");
  __CPROVER_assert(M.state == g_A && MUTEX_INV, "clear_lock_bit: invariant kept");
  VERIF_CANARY();
}

void h_timedlock(void) {
  setup(0, 0);
  struct timespec abst; abst.tv_sec = nondet_long(); abst.tv_nsec = nondet_long();
  g_clock_read_ever = 0; g_try_since_clock = 0; g_now_s = nondet_long(); g_now_ns = nondet_long();
  __CPROVER_assume(0 <= g_now_ns && g_now_ns <= 999999999);
  int r = myth_mutex_timedlock_body(&M, &abst);
  __CPROVER_assert(r == 0 || r == ETIMEDOUT, "timedlock: returns 0 or ETIMEDOUT");
  __CPROVER_assert((r == 0) == (g_i_hold == 1), "timedlock: holds the mutex iff it returns 0 (a timeout never leaks the lock)");
  __CPROVER_assert(r != ETIMEDOUT || (g_clock_read_ever == 1 && (g_now_s > abst.tv_sec || (g_now_s == abst.tv_sec && g_now_ns > abst.tv_nsec))),
                   "timedlock: gives up only after a clock reading past the absolute deadline");
  __CPROVER_assert(g_block_ever == 0 && g_ann_ever == 0, "timedlock: polls, never reserves a seat");
  VERIF_CANARY();
}

/* lemmas, loop-free, over all long values: every G step preserves INV; the environment's steps are the same
   steps taken by another thread (my G is inside every other thread's R) */
void h_lemmas(void) {
  setup(nondet_bool(), 1);
  long s = g_A;
  if (!g_i_hold && !(s & 1)) { __CPROVER_assert(g_env_holds == 0, "lemma: even word => nobody holds (acquire is exclusive)"); }
  if (g_i_hold) { __CPROVER_assert((s & 1) == 1 && g_env_holds == 0, "lemma: while I hold, the bit is set and nobody else holds"); }
  if (g_i_hold && s > 1) { long n = s - 2; __CPROVER_assert(n >= 1 && (n & 1) == 1, "lemma: take keeps the lock bit"); }
  if (g_i_hold && s == 1) { __CPROVER_assert(0 == g_env_holds, "lemma: release leaves a free mutex"); }
  if (!g_i_hold && (s & 1)) { long n = s + 2; __CPROVER_assert((n & 1) == 1 && n > s, "lemma: announce keeps the bit"); }
  VERIF_CANARY();
}
