/* C16 -- the pthread adapter layer (DESIGN §4 C16), parts (a) attribute translation and (b) conversion of a
 * statically initialised mutex on first use.
 *
 * Functions under contract (real bodies, src/myth_wrap_pthread.c, included as a .c, built as the link-time-wrapping
 * variant -DMYTH_WRAP=MYTH_WRAP_LD, i.e. the entry points are named __wrap_pthread_*):
 *   pthread_attr_to_myth, pthread_mutexattr_to_myth, pthread_mutex_type_to_myth, pthread_condattr_to_myth,
 *   pthread_barrierattr_to_myth, myth_handle_PTHREAD_MUTEX_INITIALIZER, myth_should_wrap_pthread
 *   and (src/myth_sched_func.h, src/myth_sync_func.h) myth_thread_attr_init_body, myth_mutexattr_init_body.
 *
 * (a) A pthread attribute object is opaque; its abstract content is a ghost (detach state, stack address, stack size;
 *     mutex type).  The system library's getters are stubs over that ghost (they always succeed, as glibc's do).
 *     Statement: the translation is total (no assertion reachable), returns NULL for "no attribute object", otherwise
 *     the caller's buffer with EVERY field defined: detach state and stack as the program set them, everything the
 *     pthread interface cannot express at MassiveThreads' default (guard size, child-first, NO custom data).
 *     The buffer handed in holds arbitrary bytes (it is an uninitialised local of the wrapper).
 *
 * (b) Word: mutex.magic.  Values: U (the bytes of the static initialiser, any int except the two below),
 *     I = myth_mutex_magic_no_initializing, N = myth_mutex_magic_no.
 *     Ghosts: g_A agreed value, g_U the initialiser's value, g_i_conv / g_env_conv: who is converting.
 *       INV: g_A in {g_U, I, N};  g_A == I  <=>  exactly one converter;  otherwise none.
 *       G:   the only CAS is the election U -> I (then I am the converter); the converter alone writes the other fields
 *            and finally stores N; nobody else writes anything.
 *       R:   U -> I by another thread's election, I -> N by that thread; N absorbing; while I convert the word stays I.
 *     Interference points: the arbitrary initial state (before the first read), an environment step before the CAS,
 *     the loop havoc of the waiting loop (every iteration reads a fresh value).  myth_rwbarrier -- the point between
 *     "fields written" and "N published" -- is replaced by a contract that REQUIRES the mutex to be completely
 *     initialised and still marked I: publishing before initialising fails that precondition.
 *     The other fields of the mutex are not havocked by environment steps: the function never reads them, and the
 *     harness needs them stable to show "a mutex I did not convert is not written by me".
 */
#include "verif_common.h"

int g_A, g_U, g_i_conv, g_env_conv, g_cas_ok, g_barrier_calls;
#define MAGIC_N 123456789
#define MAGIC_I 987654321
#define CONV_INV ((g_A == g_U || g_A == MAGIC_I || g_A == MAGIC_N) && g_U != MAGIC_I && g_U != MAGIC_N && \
                  (g_i_conv == 0 || g_i_conv == 1) && (g_env_conv == 0 || g_env_conv == 1) && \
                  (g_A == MAGIC_I ? g_i_conv + g_env_conv == 1 : (g_i_conv == 0 && g_env_conv == 0)))
volatile int * verif_word(void);

void myth_verif_env_step(volatile int * p)
  __CPROVER_requires(*p == g_A && CONV_INV && "no unannounced write to the magic word")
  __CPROVER_assigns(*p, g_A, g_env_conv)
  __CPROVER_ensures(*p == g_A && CONV_INV)
  __CPROVER_ensures(__CPROVER_old(g_A) == MAGIC_N ==> g_A == MAGIC_N)                       /* converted stays converted */
  __CPROVER_ensures(__CPROVER_old(g_A) == MAGIC_I ==> (g_A == MAGIC_I || g_A == MAGIC_N))   /* never back to the initialiser */
  __CPROVER_ensures(g_i_conv ==> g_A == MAGIC_I);                                          /* nobody completes or restarts MY conversion */

static inline _Bool verif_cas_int(volatile int * p, int o, int n) {
  if (p != verif_word()) return __sync_bool_compare_and_swap(p, o, n);
  myth_verif_env_step(p);
  _Bool r = __sync_bool_compare_and_swap(p, o, n);
  if (r) {
    __CPROVER_assert(o == g_U && o != MAGIC_I && o != MAGIC_N && n == MAGIC_I && !g_i_conv && !g_env_conv,
                     "GUARANTEE static-mutex conversion: the only CAS is the election initialiser -> initializing");
    g_i_conv = 1; g_A = n; g_cas_ok = 1;
  }
  return r;
}
#define __sync_bool_compare_and_swap(p,o,n) \
  (sizeof(*(p)) == sizeof(int) ? verif_cas_int((volatile int *)(p), (int)(long)(o), (int)(long)(n)) \
                               : (_Bool)(__sync_val_compare_and_swap((volatile long *)(p), (long)(o), (long)(n)) == (long)(o)))

#include "verif_ctx.h"
#include "myth_wrap_pthread.c"                    /* the real code */
#undef __sync_bool_compare_and_swap

/* =========================================================== (a) attribute translation */
pthread_attr_t PA;  pthread_mutexattr_t PMA;  pthread_condattr_t PCA;  pthread_barrierattr_t PBA;
int g_pa_detach; void * g_pa_stackaddr; size_t g_pa_stacksize; int g_pma_type;
int g_get_detach, g_get_stack, g_get_type, g_foreign_attr;
size_t g_def_stack, g_def_guard; int g_def_cf;
char STK[2];

/* the system library's getters (external): total, return 0 (glibc's never fail on an initialised object) */
int pthread_attr_getdetachstate(const pthread_attr_t * a, int * d) {
  if (a != &PA) g_foreign_attr = 1;
  if (g_get_detach < 2) g_get_detach++;
  *d = g_pa_detach; return 0;
}
int pthread_attr_getstack(const pthread_attr_t * a, void ** addr, size_t * sz) {
  if (a != &PA) g_foreign_attr = 1;
  if (g_get_stack < 2) g_get_stack++;
  *addr = g_pa_stackaddr; *sz = g_pa_stacksize; return 0;
}
int pthread_mutexattr_gettype(const pthread_mutexattr_t * a, int * t) {
  if (a != &PMA) g_foreign_attr = 1;
  if (g_get_type < 2) g_get_type++;
  *t = g_pma_type; return 0;
}
/* MassiveThreads' process-wide defaults (src/myth_init_func.h, proved against the environment in C15) */
int verif_get_stacksize(myth_globalattr_t * attr, size_t * v)  { __CPROVER_assert(attr == 0, "defaults are read from the global attributes"); *v = g_def_stack; return 0; }
int verif_get_guardsize(myth_globalattr_t * attr, size_t * v)  { __CPROVER_assert(attr == 0, "defaults are read from the global attributes"); *v = g_def_guard; return 0; }
int verif_get_child_first(myth_globalattr_t * attr, int * v)   { __CPROVER_assert(attr == 0, "defaults are read from the global attributes"); *v = g_def_cf; return 0; }

static void attr_world(void) {
  g_pa_detach = nondet_bool() ? PTHREAD_CREATE_DETACHED : PTHREAD_CREATE_JOINABLE;
  g_pa_stackaddr = nondet_bool() ? (void *)&STK[0] : 0;
  g_pa_stacksize = nondet_ulong();
  g_pma_type = nondet_int();
  g_def_stack = nondet_ulong(); g_def_guard = nondet_ulong(); g_def_cf = nondet_int();
  g_get_detach = g_get_stack = g_get_type = g_foreign_attr = 0;
}

/* the part of the statement that holds on the pinned tree */
void h_attr_thread(void) {
  attr_world();
  myth_thread_attr_t M;
  __CPROVER_havoc_object(&M);                       /* uninitialised local of __wrap(pthread_create) */
  myth_thread_attr_t M0 = M;
  _Bool with = nondet_bool();
  myth_thread_attr_t * r = pthread_attr_to_myth(with ? &PA : 0, &M);
  if (!with) {
    __CPROVER_assert(r == 0, "attr translation: no attribute object -> NULL (MassiveThreads defaults)");
    __CPROVER_assert(g_get_detach == 0 && g_get_stack == 0, "attr translation: nothing is read through a NULL attribute pointer");
    VERIF_CANARY();
  } else {
    __CPROVER_assert(r == &M, "attr translation: an attribute object -> the caller's translated object");
    __CPROVER_assert(!g_foreign_attr && g_get_detach == 1 && g_get_stack == 1, "attr translation: reads the program's attribute object, each getter once");
    __CPROVER_assert(M.detachstate == g_pa_detach, "attr translation: detach state copied");
    __CPROVER_assert(M.stackaddr == g_pa_stackaddr && M.stacksize == g_pa_stacksize, "attr translation: stack address and size copied");
    __CPROVER_assert(M.guardsize == g_def_guard && M.child_first == g_def_cf, "attr translation: fields pthreads cannot express get MassiveThreads' defaults");
  }
  VERIF_CANARY();
}

/* ... and the part that shared defect F2 (myth_thread_attr_init_body left custom_data_size / custom_data as found; repaired
   in /repo by "fix: myth_thread_attr_init left custom_data_size / custom_data uninitialised") */
void h_attr_thread_full(void) {
  attr_world();
  myth_thread_attr_t M;
  __CPROVER_havoc_object(&M);
  myth_thread_attr_t * r = pthread_attr_to_myth(&PA, &M);
  __CPROVER_assert(r == &M, "attr translation: returns the translated object");
  __CPROVER_assert(M.custom_data_size == 0 && M.custom_data == 0,
                   "attr translation fully initialising: a pthread attribute object carries no custom data (custom_data_size == 0, custom_data == NULL)");
  VERIF_CANARY();
}

static int spec_mutex_type(int t) {                 /* the statement: default/normal, error-checking, recursive; anything else invalid */
  return t == PTHREAD_MUTEX_NORMAL ? MYTH_MUTEX_NORMAL : t == PTHREAD_MUTEX_ERRORCHECK ? MYTH_MUTEX_ERRORCHECK :
         t == PTHREAD_MUTEX_RECURSIVE ? MYTH_MUTEX_RECURSIVE : MYTH_MUTEX_INVALID;
}

void h_attr_mutex(void) {
  attr_world();
  int t = nondet_int();
  __CPROVER_assert(pthread_mutex_type_to_myth(t) == spec_mutex_type(t), "mutex type translation: normal/errorcheck/recursive map to their counterparts, anything else to INVALID");
  __CPROVER_assert(pthread_mutex_type_to_myth(PTHREAD_MUTEX_DEFAULT) == MYTH_MUTEX_DEFAULT, "mutex type translation: the default type maps to the default type");
  myth_mutexattr_t M;
  __CPROVER_havoc_object(&M);
  _Bool with = nondet_bool();
  myth_mutexattr_t * r = pthread_mutexattr_to_myth(with ? &PMA : 0, &M);
  if (!with) {
    __CPROVER_assert(r == 0 && g_get_type == 0, "mutexattr translation: no attribute object -> NULL, nothing read");
  } else {
    __CPROVER_assert(r == &M && !g_foreign_attr && g_get_type == 1, "mutexattr translation: translated object returned, type read once from the program's object");
    __CPROVER_assert(M.type == spec_mutex_type(g_pma_type), "mutexattr translation: type field = translated type (fully initialising: the only field)");
  }
  VERIF_CANARY();
}

void h_attr_cond_barrier(void) {
  myth_condattr_t C; myth_barrierattr_t B;
  __CPROVER_havoc_object(&C); __CPROVER_havoc_object(&B);
  _Bool with = nondet_bool();
  myth_condattr_t * rc = pthread_condattr_to_myth(with ? &PCA : 0, &C);
  myth_barrierattr_t * rb = pthread_barrierattr_to_myth(with ? &PBA : 0, &B);
  __CPROVER_assert(rc == (with ? &C : 0), "condattr translation: NULL -> NULL, object -> translated object");
  __CPROVER_assert(rb == (with ? &B : 0), "barrierattr translation: NULL -> NULL, object -> translated object");
  VERIF_CANARY();
}

/* =========================================================== redirection switch */
int g_env_present, g_env_value, g_env_asked, g_env_other;
char ENVTXT[2];
static int verif_streq(const char * s, const char * lit, unsigned n) {
  for (unsigned k = 0; k < n; k++) if (s[k] != lit[k]) return 0;      /* n = sizeof(literal): constant bound */
  return 1;
}
char * verif_getenv(const char * name) {
  if (verif_streq(name, "MYTH_WRAP_PTHREAD", sizeof("MYTH_WRAP_PTHREAD"))) {
    if (g_env_asked < 2) g_env_asked++;
    return g_env_present ? &ENVTXT[0] : 0;
  }
  g_env_other = 1;
  return 0;
}
int verif_atoi(const char * s) {
  __CPROVER_assert(s == &ENVTXT[0], "atoi is applied only to the string obtained from getenv (never to NULL)");
  return g_env_value;
}
/* no --dfcc in this job: the function-local static starts at its initialiser (-1 = not decided yet) */
void h_should_wrap(void) {
  g_env_present = nondet_bool(); g_env_value = nondet_int(); g_env_asked = 0; g_env_other = 0;
  int w1 = myth_should_wrap_pthread();
  int w2 = myth_should_wrap_pthread();
  __CPROVER_assert(w1 == ((g_env_present && g_env_value == 0) ? 0 : 1), "redirection switch: pthread calls go to MassiveThreads unless MYTH_WRAP_PTHREAD is set to 0");
  __CPROVER_assert(w2 == w1 && g_env_asked == 1 && !g_env_other, "redirection switch: decided once, from MYTH_WRAP_PTHREAD only (a program cannot be half redirected)");
  VERIF_CANARY();
}

/* =========================================================== (b) static-initialiser conversion */
myth_mutex_t MX;                                    /* the program's pthread_mutex_t storage, seen through the overlay the adapter uses */
#define MM (&MX)
#define PM (*(pthread_mutex_t *)&MX)
volatile int * verif_word(void) { return (volatile int *)&MM->magic; }
void (*keep_env)(volatile int *) = myth_verif_env_step;
void (*keep_bar)() = myth_rwbarrier;

#define FIELDS_INIT (MM->attr.type == MYTH_MUTEX_DEFAULT && MM->state == 0 && MM->sleep_q[0].head == 0 && MM->sleep_q[0].tail == 0 && \
                     MM->sleep_q[0].ilock[0].locked == 0)
void rwbarrier_contract()
  __CPROVER_requires(g_i_conv == 1 && g_barrier_calls == 0 && "only the elected converter issues the publishing barrier, once")
  __CPROVER_requires(MM->magic == MAGIC_I && "the mutex is still marked initializing while its fields are written")
  __CPROVER_requires(FIELDS_INIT && "state == 0, empty queue, default type BEFORE the converted mark is published")
  __CPROVER_assigns(g_barrier_calls)
  __CPROVER_ensures(g_barrier_calls == 1);

static void conv_world(void) {
  g_U = nondet_int(); g_A = nondet_int(); g_env_conv = nondet_int(); g_i_conv = 0;
  __CPROVER_assume(CONV_INV);
  g_cas_ok = 0; g_barrier_calls = 0;
  __CPROVER_havoc_object(&MX);                      /* a static initialiser / a mutex in use: arbitrary other fields */
  MM->magic = g_A;
}

void h_convert(void) {
  conv_world();
  int a0 = g_A;
  myth_mutex_t B = *MM;
  int r = myth_handle_PTHREAD_MUTEX_INITIALIZER(&PM);
  __CPROVER_assert(r == 0, "conversion: returns 0");
  __CPROVER_assert(MM->magic == MAGIC_N, "conversion: no caller returns before magic == myth_mutex_magic_no (written by me after initialising, or observed)");
  __CPROVER_assert(g_i_conv == g_cas_ok && (g_i_conv == 0 || a0 == g_U), "conversion: I convert iff my election CAS on the unconverted word succeeded");
  if (g_i_conv) {
    __CPROVER_assert(g_barrier_calls == 1, "conversion: the converter orders initialisation before publication (barrier between them)");
    __CPROVER_assert(FIELDS_INIT, "conversion: afterwards state == 0, the queue is empty, the type is the default");
    VERIF_CANARY();                                  /* the converting path is reachable */
  } else {
    __CPROVER_assert(g_barrier_calls == 0, "conversion: a waiting caller publishes nothing");
    __CPROVER_assert(MM->magic == g_A, "conversion: a caller that did not win the election never writes the magic word");
    __CPROVER_assert(MM->attr.type == B.attr.type && MM->state == B.state && MM->sleep_q[0].head == B.sleep_q[0].head &&
                     MM->sleep_q[0].tail == B.sleep_q[0].tail && MM->sleep_q[0].ilock[0].locked == B.sleep_q[0].ilock[0].locked,
                     "conversion: a mutex converted (or being converted) by somebody else is not written by me");
    if (a0 != MAGIC_N) VERIF_CANARY();               /* the waiting path (through the loop contract) is reachable */
  }
  __CPROVER_assert(a0 != MAGIC_N || (g_cas_ok == 0 && MM->magic == MAGIC_N), "conversion: an already converted mutex is untouched");
  VERIF_CANARY();
}

/* lemmas (loop-free, all ints): at most one converter; G preserves INV; my G is inside the others' R */
void h_convert_lemmas(void) {
  conv_world();
  g_i_conv = nondet_int();
  __CPROVER_assume(CONV_INV);
  __CPROVER_assert(g_i_conv + g_env_conv <= 1, "lemma: at most one thread converts (exactly one performs the conversion)");
  if (g_A == g_U) { __CPROVER_assert(g_i_conv == 0 && g_env_conv == 0, "lemma: an election is possible only while nobody converts"); }
  if (g_A == g_U) { g_A = MAGIC_I; g_i_conv = 1; __CPROVER_assert(CONV_INV, "lemma: the election step preserves INV"); }
  else if (g_i_conv) { g_A = MAGIC_N; g_i_conv = 0; __CPROVER_assert(CONV_INV, "lemma: the publishing store preserves INV"); }
  VERIF_CANARY();
}

/* sizes of the overlaid types as CBMC sees them (the native compile-time lemma is the unit's pre() hook) */
void h_overlay_sizes(void) {
  __CPROVER_assert(sizeof(myth_mutex_t) <= sizeof(pthread_mutex_t), "overlay: myth_mutex_t fits in pthread_mutex_t");
  __CPROVER_assert(sizeof(myth_cond_t) <= sizeof(pthread_cond_t), "overlay: myth_cond_t fits in pthread_cond_t");
  __CPROVER_assert(sizeof(myth_barrier_t) <= sizeof(pthread_barrier_t), "overlay: myth_barrier_t fits in pthread_barrier_t");
  __CPROVER_assert(sizeof(myth_spinlock_t) <= sizeof(pthread_spinlock_t), "overlay: myth_spinlock_t fits in pthread_spinlock_t");
  __CPROVER_assert(sizeof(myth_once_t) <= sizeof(pthread_once_t), "overlay: myth_once_t fits in pthread_once_t");
  __CPROVER_assert(sizeof(myth_key_t) <= sizeof(pthread_key_t), "overlay: myth_key_t fits in pthread_key_t");
  __CPROVER_assert(sizeof(myth_thread_t) <= sizeof(pthread_t), "overlay: a myth_thread_t fits in a pthread_t");
  VERIF_CANARY();
}
