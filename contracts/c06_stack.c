/* C06 -- the sleep stack (Treiber stack) used by the barrier: myth_sleep_stack_push / pop / init
 * (real bodies, src/myth_sleep_queue_func.h).
 * Interference: the others only PUSH while I pop (the barrier's last arriver is the only popper of a round: stated
 * rely, it is what the code relies on), and push/pop arbitrarily while I push.  The environment step is a stub with
 * a body so that every pointer is assigned constructively.
 *   push x:  CAS top: t -> x  with x->next == t at the CAS instant
 *   pop:     CAS top: x -> x->next; returns x; NULL iff the stack was seen empty
 */
#include "verif_common.h"
#include "myth/myth_sleep_queue.h"

myth_sleep_stack_t S;
myth_sleep_queue_item X0, X1, XN, E0, E1;   /* X0: top (if any), X1: below it (if any), XN: the item I push; E0/E1: pushed by others */
int g_e0_in, g_e1_in, g_env_may_pop, g_env_pops;
int g_push_ok, g_pop_ok;
myth_sleep_queue_item_t g_popped, g_top_at_cas, g_next_at_cas;

static void stack_env(void) {
  if (!g_e0_in && nondet_bool()) { E0.next = S.top; S.top = &E0; g_e0_in = 1; }
  if (!g_e1_in && nondet_bool()) { E1.next = S.top; S.top = &E1; g_e1_in = 1; }
  if (g_env_may_pop && g_env_pops < 1 && S.top != 0 && S.top != &XN && nondet_bool()) { S.top = S.top->next; g_env_pops++; }     /* while I push, others may pop too */
}
static inline _Bool verif_cas_ptr(myth_sleep_queue_item_t volatile * p, myth_sleep_queue_item_t o, myth_sleep_queue_item_t n) {
  __CPROVER_assert(p == &S.top, "sleep stack: the only CAS target is the top pointer");
  stack_env();
  g_top_at_cas = S.top; g_next_at_cas = S.top ? S.top->next : 0;
  _Bool r = __sync_bool_compare_and_swap(p, o, n);
  if (r) {
    if (n == &XN) {           /* my push */
      __CPROVER_assert(XN.next == o, "GUARANTEE sleep stack: the pushed item links to the top it replaces, at the CAS instant");
      g_push_ok++;
    } else {                  /* my pop */
      __CPROVER_assert(o != 0 && n == g_next_at_cas, "GUARANTEE sleep stack: pop installs the successor the top has at the CAS instant");
      g_popped = o; g_pop_ok++;
    }
  }
  return r;
}
#define __sync_bool_compare_and_swap(p,o,n) verif_cas_ptr((myth_sleep_queue_item_t volatile *)(p), (myth_sleep_queue_item_t)(o), (myth_sleep_queue_item_t)(n))
static inline void verif_rd_top(volatile void * p) { if (p == (volatile void *)&S.top) stack_env(); }
#include "myth_sleep_queue_func.h"
#undef __sync_bool_compare_and_swap

static void setup(void) {
  int shape = nondet_int();
  __CPROVER_assume(0 <= shape && shape <= 2);
  X0.next = 0; X1.next = 0; XN.next = &E1;      /* stale link in the item to push */
  if (shape == 0) S.top = 0;
  if (shape == 1) { S.top = &X0; }
  if (shape == 2) { S.top = &X0; X0.next = &X1; }
  g_e0_in = g_e1_in = 0; g_env_pops = 0; g_push_ok = g_pop_ok = 0; g_popped = 0;
}
#ifndef RETRIES
#define RETRIES 3
#endif
void h_stack_push(void) {
  setup(); g_env_may_pop = 1;
  long r = myth_sleep_stack_push(&S, &XN);
  __CPROVER_assert(r == 0 && g_push_ok == 1, "sleep_stack_push: returns after exactly one successful publication of the item");
  VERIF_CANARY();
}
void h_stack_pop(void) {
  setup(); g_env_may_pop = 0;
  myth_sleep_queue_item_t r = myth_sleep_stack_pop(&S);
  __CPROVER_assert(r == 0 ? g_pop_ok == 0 : (g_pop_ok == 1 && r == g_popped), "sleep_stack_pop: returns the item it removed, or NULL having removed nothing");
  __CPROVER_assert(r != &XN, "sleep_stack_pop: only returns items that were pushed");
  VERIF_CANARY();
}
void h_stack_init(void) {
  S.top = &X0;
  myth_sleep_stack_init(&S);
  __CPROVER_assert(S.top == 0, "sleep_stack_init: empty");
  VERIF_CANARY();
}
