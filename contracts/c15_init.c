/* C15 -- part 3: the init-once state machine, worker creation, worker index, finalisation.
 *
 * Functions under contract (real bodies; src/myth_init.c is #included unmodified, with the headers it pulls in):
 *   myth_init_ex_body, myth_ensure_init_ex, myth_ensure_init, myth_init_once_ctl_try_set, myth_init_once_ctl_wait,
 *   myth_init_ex_body_really, myth_fini_body, myth_startpoint_exit_ex_body, myth_startpoint_exit_ex_1,
 *   myth_notify_workers_exit, myth_env_get_randomly, myth_get_current_env, myth_get_worker_num_body,
 *   myth_get_num_workers_body.
 *
 * Protocol word: g_myth_init_state in {uninit=0, initializing=1, initialized=2}; rely/guarantee as DESIGN §3.3:
 *   g_W        the value I and the environment last agreed on
 *   g_i_init   I am the elected initialiser (my CAS 0->1 succeeded and I have not yet published 2)
 *   g_env_init another thread is the elected initialiser
 *   INV:  g_W in {0,1,2};  g_W == 1  <=>  exactly one of g_i_init, g_env_init
 *   R (environment): 0->1 (another thread elected), 1->2 by the elected OTHER thread only, 2 absorbing; while I am the
 *                    elected initialiser the word does not change.   (No finalisation concurrent with an initialisation.)
 *   G (me): CAS 0->1 (elects me, once); plain store 1->2 only as the elected initialiser, after the real
 *           initialisation returned (the contract of myth_init_ex_body_really requires the word to be still 1).
 * Paper step: CAS atomicity + INV give at most one elected initialiser per uninit period, hence "initialises itself
 * exactly once"; every caller returns only after it agreed on `initialized`.
 */
#include "verif_common.h"
#include <stdint.h>

/* ---- ghosts: protocol word ---- */
int g_W, g_i_init, g_env_init;
int g_cas_won;            /* my CAS uninit->initializing succeeded (0/1) */
int g_really_calls;       /* calls of myth_init_ex_body_really made by me */
const void * g_attr_arg;  /* the attribute pointer given to init */
#define W_INV (0 <= g_W && g_W <= 2 && (g_i_init == 0 || g_i_init == 1) && (g_env_init == 0 || g_env_init == 1) \
               && g_i_init + g_env_init <= 1 && ((g_W == 1) == (g_i_init + g_env_init == 1)))

/* ---- ghosts: worker creation / finalisation ---- */
int g_nw;                 /* the number of workers requested */
struct myth_running_env;
struct myth_running_env * g_pool;   /* memory handed out by myth_malloc for the worker descriptors */
int g_did_cpus, g_did_flmalloc, g_did_tls, g_did_barrier, g_did_envs, g_did_key;   /* global set-up steps done (0/1) */
int g_created;            /* OS threads created so far: ranks 1..g_created */
int g_main_started;       /* the calling thread entered myth_worker_thread_fn(0) */
int g_default_init_calls; /* g_attr was filled from the environment */
int g_joined;             /* OS threads joined so far: ranks 1..g_joined */
int g_exit_done;          /* myth_startpoint_exit_ex_body(0) was called */
int g_released;           /* myth_fini_body_really was called */
int g_k;                  /* witness worker index */
/* context switch / migration */
int g_ctx_saved, g_passed, g_passed_rank, g_switched, g_cleanup_calls;
int g_refusals;            /* bounded job only: how many more times a run queue may refuse the hand-over (lock busy / no room) */

extern volatile int g_myth_init_state;

/* environment step on the word (contract only) */
void myth_verif_env_step(volatile int * p)
  __CPROVER_requires(p == &g_myth_init_state && *p == g_W && W_INV)
  __CPROVER_assigns(*p, g_W, g_env_init)
  __CPROVER_ensures(*p == g_W && W_INV && g_W >= __CPROVER_old(g_W))
  __CPROVER_ensures(g_i_init == 1 ==> g_W == __CPROVER_old(g_W))
  __CPROVER_ensures(__CPROVER_old(g_W) == 2 ==> g_W == 2);

static inline _Bool myth_verif_cas_int(volatile int * p, int o, int n) {
  myth_verif_env_step(p);
  _Bool r = __sync_bool_compare_and_swap(p, o, n);
  if (r) {
    if (o == 0 && n == 1 && g_i_init == 0 && g_cas_won == 0) { g_i_init = 1; g_cas_won = 1; }     /* elected */
    else __CPROVER_assert(0, "GUARANTEE init-once: own CAS is not the election step uninit -> initializing");
    g_W = n;
  }
  return r;
}
#define __sync_bool_compare_and_swap(p,o,n) myth_verif_cas_int((volatile int *)(p), (int)(o), (int)(n))

/* ---- context switch (DESIGN §3.4): save, run the real callback, suspend/resume ---- */
#include "myth_context_func.h"
void verif_ctx_save(void * from);
void verif_suspend_resume(void * from, void * to);
#undef  myth_swap_context_withcall
#define myth_swap_context_withcall(from,to,fn,a1,a2,a3) \
  { verif_ctx_save((void *)(from)); fn((void *)(a1), (void *)(a2), (void *)(a3)); verif_suspend_resume((void *)(from), (void *)(to)); }

#include "myth_init.c"                               /* the real code */

#undef __sync_bool_compare_and_swap

/* objects the real code declares extern (defined in myth_worker.c / myth_misc.c, not part of this unit) */
myth_running_env_t g_envs;
int g_envs_sz;
__thread int g_worker_rank;
myth_internal_barrier_t g_worker_barrier;
struct myth_thread TH;                               /* the main thread's descriptor */
#ifndef NW_MAX
#define NW_MAX 64                                    /* the property quantifies over worker counts 1..64 */
#endif
#ifndef POOL_MALLOC
myth_running_env POOL[NW_MAX];
#endif                       /* typed static pool: a malloc'ed pool of symbolic size exhausts memory under loop contracts (DESIGN §7.13) */

/* ---------------- contracts: init-once ---------------- */
int really_contract(const myth_globalattr_t * attr)
  __CPROVER_requires(g_i_init == 1 && g_cas_won == 1 && g_really_calls == 0)          /* only the elected caller, once */
  __CPROVER_requires(g_myth_init_state == 1 && g_W == 1)                              /* not yet published */
  __CPROVER_requires(attr == g_attr_arg)
  __CPROVER_assigns(g_really_calls)
  __CPROVER_ensures(g_really_calls == 1 && __CPROVER_return_value == 0);

int yield_contract(void)                             /* real_sched_yield: other threads run */
  __CPROVER_requires(g_myth_init_state == g_W && W_INV)
  __CPROVER_assigns(g_myth_init_state, g_W, g_env_init)
  __CPROVER_ensures(g_myth_init_state == g_W && W_INV && g_W >= __CPROVER_old(g_W))
  __CPROVER_ensures(g_i_init == 1 ==> g_W == __CPROVER_old(g_W))
  __CPROVER_ensures(__CPROVER_old(g_W) == 2 ==> g_W == 2);

/* ---------------- contracts: myth_init_ex_body_really ---------------- */
#define SETUP_DONE (g_did_cpus == 1 && g_did_flmalloc == 1 && g_did_tls == 1 && g_did_barrier == 1 && g_did_envs == 1 && g_did_key == 1)

void get_available_cpus_contract(void)
  __CPROVER_requires(1) __CPROVER_assigns(g_did_cpus) __CPROVER_ensures(g_did_cpus == 1);

/* proved against the environment in c15_attr.c (job c15.attr.init): n_workers >= 1 is the request or the CPU count */
int globalattr_init_contract(myth_globalattr_t * attr)
  __CPROVER_requires(attr == &g_attr && g_default_init_calls == 0)
  __CPROVER_assigns(g_attr, g_default_init_calls)
  __CPROVER_ensures(g_attr.initialized == 1 && g_attr.n_workers == g_nw && g_default_init_calls == 1 && __CPROVER_return_value == 0);

void flmalloc_init_contract(int nthreads)
  __CPROVER_requires(nthreads == g_nw) __CPROVER_assigns(g_did_flmalloc) __CPROVER_ensures(g_did_flmalloc == 1);
void tls_init_contract(int nworkers)
  __CPROVER_requires(nworkers == g_nw) __CPROVER_assigns(g_did_tls) __CPROVER_ensures(g_did_tls == 1);
void barrier_init_contract(myth_internal_barrier_t * b, int n)
  __CPROVER_requires(b == &g_worker_barrier && n == g_nw)      /* every worker, and nobody else, meets at the start-up barrier */
  __CPROVER_assigns(g_did_barrier) __CPROVER_ensures(g_did_barrier == 1);
void * malloc_contract(size_t size)
  __CPROVER_requires(size == sizeof(myth_running_env) * (size_t)g_nw && g_did_envs == 0 && g_did_flmalloc == 1)
  __CPROVER_assigns(g_did_envs)
  __CPROVER_ensures(g_did_envs == 1 && __CPROVER_return_value == (void *)g_pool);
void worker_key_init_contract(void)
  __CPROVER_requires(1) __CPROVER_assigns(g_did_key) __CPROVER_ensures(g_did_key == 1);

/* OS threads: ranks 1 .. nw-1, each exactly once, in order, each with its own descriptor slot, and only after the
   global structures they use exist */
int pthread_create_contract(pthread_t * thread, const pthread_attr_t * attr, void * (*fn)(void *), void * arg)
  __CPROVER_requires(SETUP_DONE && g_envs == g_pool && g_envs_sz == g_nw && g_main_started == 0)
  __CPROVER_requires(attr == 0 && fn == myth_worker_thread_fn)
  __CPROVER_requires(0 <= g_created && g_created + 1 < g_nw && (intptr_t)arg == (intptr_t)g_created + 1)
  __CPROVER_requires(thread == &g_pool[g_created + 1].worker && __CPROVER_w_ok(thread, sizeof(pthread_t)))
  __CPROVER_assigns(g_created)       /* the store of the new thread's id into *thread is not modelled: the id is an opaque token */
  __CPROVER_ensures(g_created == __CPROVER_old(g_created) + 1 && __CPROVER_return_value == 0);

pthread_t pthread_self_contract(void)
  __CPROVER_requires(1) __CPROVER_assigns() __CPROVER_ensures(1);

/* the calling thread becomes worker 0 -- after all the others have been created (it does not come back before the
   scheduler runs, and the start-up barrier needs all nw participants) */
void * worker_thread_fn_contract(void * args)
  __CPROVER_requires(args == 0 && SETUP_DONE && g_envs == g_pool && g_envs_sz == g_nw && g_created == g_nw - 1 && g_main_started == 0)
  __CPROVER_assigns(g_main_started)
  __CPROVER_ensures(g_main_started == 1);

/* ---------------- contracts: finalisation ---------------- */
/* checked (bounded) in job c15.fini.exit.bounded on the real myth_startpoint_exit_ex_body.  Its stores into the exit_flag
   fields of the descriptors are NOT modelled here (myth_fini_body never reads them; a whole-array havoc of the 2560-byte
   descriptors is beyond the solver); "rank == index" of descriptor 0 is a fact established by myth_setup_worker and is a
   precondition of the harness */
void exit_ex_contract(int rank)
  __CPROVER_requires(rank == 0 && g_exit_done == 0 && g_joined == 0 && g_released == 0)
  __CPROVER_requires(0 <= g_worker_rank && g_worker_rank < g_nw)
  __CPROVER_assigns(g_exit_done, g_worker_rank)
  __CPROVER_ensures(g_exit_done == 1 && g_worker_rank == 0);      /* back on worker 0, every worker told to stop */

int pthread_join_contract(pthread_t thread, void ** retval)
  __CPROVER_requires(g_exit_done == 1 && g_released == 0)          /* joins only workers that were told to stop, before releasing */
  __CPROVER_requires(retval == 0 && 0 <= g_joined && g_joined + 1 < g_nw && thread == g_pool[g_joined + 1].worker)
  __CPROVER_assigns(g_joined)
  __CPROVER_ensures(g_joined == __CPROVER_old(g_joined) + 1 && __CPROVER_return_value == 0);

void fini_really_contract(void)
  __CPROVER_requires(g_exit_done == 1 && g_joined == g_nw - 1 && g_released == 0)     /* nothing is released before all workers stopped */
  __CPROVER_requires(g_myth_init_state == 2)                                          /* and before the state says uninit */
  __CPROVER_assigns(g_released)
  __CPROVER_ensures(g_released == 1);

/* ---------------- contracts: myth_startpoint_exit_ex_body ---------------- */
void ctx_save_contract(void * from)
  __CPROVER_requires(from == (void *)&TH.context && g_ctx_saved == 0)
  __CPROVER_assigns(g_ctx_saved) __CPROVER_ensures(g_ctx_saved == 1);

/* hand the main thread to a worker's run queue: only after its context was saved, at most once per switch */
#define TGT_IDX (TH.env - g_pool)                   /* index of the descriptor the thread is being handed to */
int trypass_contract(myth_thread_queue_t q, struct myth_thread * th)
  __CPROVER_requires(g_ctx_saved == 1 && g_passed == 0 && th == &TH && g_refusals >= 0)
  __CPROVER_requires(__CPROVER_same_object(TH.env, g_pool) && 0 <= TGT_IDX && TGT_IDX < g_nw && q == &g_pool[TGT_IDX].runnable_q)   /* thread's env = the queue's worker */
  __CPROVER_assigns(g_passed, g_passed_rank, g_refusals)
  __CPROVER_ensures(__CPROVER_return_value == 0 || __CPROVER_return_value == 1)
  __CPROVER_ensures(g_refusals == __CPROVER_old(g_refusals) - (1 - __CPROVER_return_value) && g_refusals >= 0)
  __CPROVER_ensures(g_passed == __CPROVER_return_value)
  __CPROVER_ensures(__CPROVER_return_value == 1 ==> g_passed_rank == TGT_IDX);

int random_contract(int min, int max)             /* floating-point body not analysed: assumed to return a value in [min, max) */
  __CPROVER_requires(min < max)
  __CPROVER_assigns()
  __CPROVER_ensures(min <= __CPROVER_return_value && __CPROVER_return_value < max);

/* the thread is resumed by the worker whose queue accepted it (the main thread is never stolen: myth_steal_body puts it
   back), on that worker's OS thread; that worker's descriptor then names it as the running thread -- the harness
   pre-sets this_thread of EVERY descriptor to the main thread instead of modelling that store (a store by contract into
   the descriptor array exhausts memory); the code under proof reads this_thread of the current worker only */
void suspend_resume_contract(void * from, void * to)
  __CPROVER_requires(g_ctx_saved == 1 && g_passed == 1 && 0 <= g_passed_rank && g_passed_rank < g_nw)
  __CPROVER_requires(from == (void *)&TH.context && 0 <= g_worker_rank && g_worker_rank < g_nw && to == (void *)&g_pool[g_worker_rank].sched.context)
  __CPROVER_assigns(g_worker_rank, g_passed, g_ctx_saved, g_switched)
  __CPROVER_ensures(g_worker_rank == g_passed_rank && g_passed == 0 && g_ctx_saved == 0 && g_switched == 1);

void cleanup_worker_contract(int rank)
  __CPROVER_requires(rank == g_worker_rank && g_cleanup_calls == 0)        /* a worker cleans up its own descriptor */
  __CPROVER_requires(0 <= g_k && g_k < g_nw && g_pool[g_k].exit_flag != 0)   /* after every worker was told to stop */
  __CPROVER_assigns(g_cleanup_calls) __CPROVER_ensures(g_cleanup_calls == 1);

/* ---------------- contracts: myth_setup_worker ---------------- */
int g_rank;               /* the rank myth_setup_worker is called with */
int g_su_alloc, g_su_queue, g_su_barrier, g_su_key;
__thread unsigned int g_myth_random_temp;
void flmalloc_init_worker_contract(int rank)
  __CPROVER_requires(rank == g_rank) __CPROVER_assigns(g_su_alloc) __CPROVER_ensures(g_su_alloc == 1);
int setspecific_contract(pthread_key_t key, const void * v)
  __CPROVER_requires(v != 0) __CPROVER_assigns(g_su_key) __CPROVER_ensures(g_su_key == 1);
time_t time_contract(time_t * t)
  __CPROVER_requires(t == 0) __CPROVER_assigns() __CPROVER_ensures(0 <= __CPROVER_return_value && __CPROVER_return_value < 4294967296L);
void queue_init_contract(myth_thread_queue_t q)
  __CPROVER_requires(q == &g_pool[g_rank].runnable_q && g_su_alloc == 1) __CPROVER_assigns(g_su_queue) __CPROVER_ensures(g_su_queue == 1);
void queue_clear_contract(myth_thread_queue_t q)
  __CPROVER_requires(q == &g_pool[g_rank].runnable_q && g_su_queue == 1) __CPROVER_assigns(g_su_queue) __CPROVER_ensures(g_su_queue == 2);
/* the start-up barrier: a worker arrives only when its descriptor is complete (rank, exit flag, run queue, no current
   thread) and its OS thread knows its rank -- after the barrier every worker may be looked at by every other */
void barrier_wait_contract(myth_internal_barrier_t * b)
  __CPROVER_requires(b == &g_worker_barrier && g_su_barrier == 0 && g_su_queue == 2 && g_su_key == 1)
  __CPROVER_requires(g_pool[g_rank].rank == g_rank && g_pool[g_rank].exit_flag == 0 && g_pool[g_rank].this_thread == 0 && g_worker_rank == g_rank)
  __CPROVER_assigns(g_su_barrier) __CPROVER_ensures(g_su_barrier == 1);
int sigemptyset_contract(sigset_t * s)
  __CPROVER_requires(__CPROVER_w_ok(s, sizeof(sigset_t))) __CPROVER_assigns(*s) __CPROVER_ensures(1);
int sigaddset_contract(sigset_t * s, int sig)
  __CPROVER_requires(__CPROVER_w_ok(s, sizeof(sigset_t))) __CPROVER_assigns(*s) __CPROVER_ensures(1);
int sigmask_contract(int how, const sigset_t * s, sigset_t * o)
  __CPROVER_requires(g_rank != 0 && o == 0) __CPROVER_assigns() __CPROVER_ensures(1);
int sigaction_contract(int sig, const struct sigaction * a, struct sigaction * o)
  __CPROVER_requires(g_rank == 0 && o == 0) __CPROVER_assigns() __CPROVER_ensures(1);

void * keep_c15d[] = { (void *)flmalloc_init_worker_contract, (void *)setspecific_contract, (void *)time_contract, (void *)queue_init_contract,
  (void *)queue_clear_contract, (void *)barrier_wait_contract, (void *)sigemptyset_contract, (void *)sigaddset_contract, (void *)sigmask_contract,
  (void *)sigaction_contract };
void * keep_c15c[] = { (void *)myth_verif_env_step, (void *)really_contract, (void *)yield_contract, (void *)get_available_cpus_contract,
  (void *)globalattr_init_contract, (void *)flmalloc_init_contract, (void *)tls_init_contract, (void *)barrier_init_contract,
  (void *)malloc_contract, (void *)worker_key_init_contract, (void *)pthread_create_contract, (void *)pthread_self_contract,
  (void *)worker_thread_fn_contract, (void *)exit_ex_contract, (void *)pthread_join_contract, (void *)fini_really_contract,
  (void *)ctx_save_contract, (void *)trypass_contract, (void *)random_contract, (void *)suspend_resume_contract,
  (void *)cleanup_worker_contract, (void *)verif_ctx_save, (void *)verif_suspend_resume };

/* ---------------- harnesses ---------------- */

static void setup_word(void) {
  g_W = nondet_int(); g_i_init = 0; g_env_init = nondet_int();
  __CPROVER_assume(W_INV);
  g_myth_init_state = g_W;
  g_cas_won = 0; g_really_calls = 0;
}

/* implicit (myth_ensure_init) or explicit (myth_init_ex) initialisation from ANY state of the word, under interference */
void h_init_once(void) {
  setup_word();
  myth_globalattr_t A;
  _Bool with_attr = nondet_bool();
  _Bool implicit = nondet_bool();
  g_attr_arg = (with_attr && !implicit) ? &A : 0;
  /* some callers have first waited for somebody else's initialisation (this also keeps the wait loop, and with it the
     loop-contract obligations, in the job even if the code under proof stops calling it) */
  if (nondet_bool()) {
    myth_init_once_ctl_wait(&g_myth_init_state, myth_init_state_initialized);
    __CPROVER_assert(g_myth_init_state == 2 && g_W == 2, "ctl_wait: returns only when the awaited value was observed");
  }
  int r = implicit ? myth_ensure_init() : (nondet_bool() ? myth_ensure_init_ex((myth_globalattr_t *)g_attr_arg) : myth_init_ex_body(g_attr_arg));
  __CPROVER_assert(r == 1, "init: returns 1 (OK)");
  __CPROVER_assert(g_really_calls == g_cas_won, "init: the real initialisation runs iff this caller won the election CAS (exactly once per uninit period)");
  __CPROVER_assert(g_really_calls <= 1, "init: at most once per call");
  __CPROVER_assert(g_myth_init_state == 2, "init: returns only when the state is `initialized`");
  __CPROVER_assert(g_cas_won ? (g_W == 1 && g_i_init == 1) : (g_W == 2), "init: a loser returns only after it observed `initialized`; the only unannounced store is the winner's publication");
  VERIF_CANARY();
}

static void havoc_attr(myth_globalattr_t * a) {
  a->stacksize = nondet_ulong(); a->guardsize = nondet_ulong(); a->n_workers = nondet_int();
  a->bind_workers = nondet_int(); a->child_first = nondet_int(); a->initialized = nondet_int();
}

static void setup_workers(void) {
  g_nw = nondet_int();
  __CPROVER_assume(1 <= g_nw && g_nw <= NW_MAX);
#ifdef POOL_MALLOC
  g_pool = malloc(sizeof(myth_running_env) * (size_t)g_nw);
  __CPROVER_assume(g_pool != 0);
#else
  g_pool = &POOL[0];
#endif
  g_k = nondet_int();
  __CPROVER_assume(0 <= g_k && g_k < g_nw);
}

/* the real initialisation: explicit attributes, or the global ones (already set by the user, or from the environment) */
void h_really(void) {
  setup_workers();
  myth_globalattr_t A;
  havoc_attr(&A); havoc_attr(&g_attr);
  _Bool with_attr = nondet_bool();
  if (with_attr) A.n_workers = g_nw;
  else if (g_attr.initialized) g_attr.n_workers = g_nw;
  myth_globalattr_t B = with_attr ? A : g_attr;
  g_did_cpus = 0; g_did_flmalloc = 0; g_did_tls = 0; g_did_barrier = 0; g_did_envs = 0; g_did_key = 0;
  g_created = 0; g_main_started = 0; g_default_init_calls = 0;
  g_envs = 0; g_envs_sz = 0;
  int r = myth_init_ex_body_really(with_attr ? &A : 0);
  __CPROVER_assert(r == 0, "really: returns 0");
  __CPROVER_assert(g_attr.n_workers == g_nw, "really: runs with exactly the number of workers requested");
  __CPROVER_assert(g_envs == g_pool && g_envs_sz == g_nw, "really: one descriptor per worker (g_envs_sz == workers)");
  __CPROVER_assert(g_created == g_nw - 1, "really: creates exactly workers-1 OS threads");
  __CPROVER_assert(g_main_started == 1, "really: the caller becomes worker 0");
  __CPROVER_assert(g_default_init_calls == ((!with_attr && !B.initialized) ? 1 : 0), "really: environment defaults are consulted only when no attributes were given or set");
  __CPROVER_assert(!(with_attr || B.initialized) || (g_attr.stacksize == B.stacksize && g_attr.guardsize == B.guardsize
                   && g_attr.bind_workers == B.bind_workers && g_attr.child_first == B.child_first),
                   "really: the effective attributes are the given (or previously set) ones");
  VERIF_CANARY();
}

/* finalisation */
void h_fini(void) {
  setup_word();
  setup_workers();
  havoc_attr(&g_attr); g_attr.n_workers = g_nw;
  g_envs = g_pool; g_envs_sz = g_nw;
  g_worker_rank = nondet_int();                       /* the main thread may have migrated to any worker */
  __CPROVER_assume(0 <= g_worker_rank && g_worker_rank < g_nw);
  __CPROVER_assume(g_pool[0].rank == 0);              /* established by myth_setup_worker */
  g_exit_done = 0; g_joined = 0; g_released = 0;
  int w0 = g_W;
  int r = myth_fini_body();
  if (w0 == 0 && r == 1) {
    __CPROVER_assert(g_exit_done == 0 && g_joined == 0 && g_released == 0 && g_myth_init_state == 0, "fini: on an uninitialised library it does nothing");
  } else {
    __CPROVER_assert(r == 0, "fini: returns 0");
    __CPROVER_assert(g_exit_done == 1, "fini: migrates back to worker 0 and raises the exit flags, once");
    __CPROVER_assert(g_joined == g_nw - 1, "fini: joins exactly workers-1 OS threads");
    __CPROVER_assert(g_released == 1, "fini: releases the global structures once");
    __CPROVER_assert(g_myth_init_state == 0, "fini: the state is `uninit` again, so that a later init runs the real initialisation again");
  }
  __CPROVER_assert(r == 0 || w0 == 0, "fini: returns without finalising only if the library was not initialised");
  VERIF_CANARY();
}

#ifndef MAX_REFUSALS
#define MAX_REFUSALS 2
#endif
#ifndef POOL_MALLOC
static void setup_migration(void) {
  setup_workers();
  g_attr.n_workers = g_nw;
  g_envs = g_pool; g_envs_sz = g_nw;
  for (int k = 0; k < NW_MAX; k++) {                  /* constant bound */
    POOL[k].rank = k;                                 /* established by myth_setup_worker for every worker */
    POOL[k].this_thread = &TH;                        /* see suspend_resume_contract */
    POOL[k].exit_flag = nondet_int();
  }
  g_worker_rank = nondet_int();                       /* finalisation called while the main thread is on ANY worker */
  __CPROVER_assume(0 <= g_worker_rank && g_worker_rank < g_nw);
  TH.env = &POOL[g_worker_rank];
  g_ctx_saved = 0; g_passed = 0; g_passed_rank = -1; g_switched = 0; g_cleanup_calls = 0;
  g_refusals = nondet_int();
  __CPROVER_assume(0 <= g_refusals && g_refusals <= MAX_REFUSALS);
}

void h_exit_ex(void) {
  setup_migration();
  int rank = nondet_int();
  __CPROVER_assume(0 <= rank && rank < g_nw);
  int r0 = g_worker_rank;
  int flag_k = POOL[g_k].exit_flag;
  myth_startpoint_exit_ex_body(rank);
  __CPROVER_assert(g_worker_rank == rank, "exit_ex: ends on the requested worker");
  __CPROVER_assert(POOL[g_k].exit_flag != 0, "exit_ex: every worker's exit flag is raised");
  __CPROVER_assert(flag_k == 0 || POOL[g_k].exit_flag == flag_k, "exit_ex: a flag that is already set (-1 marks the main thread's worker) is kept");
  __CPROVER_assert(g_cleanup_calls == 1, "exit_ex: cleans up the worker once");
  __CPROVER_assert((r0 == rank) == (g_switched == 0), "exit_ex: switches context iff it is not already on the requested worker");
  __CPROVER_assert(g_passed == 0 && g_ctx_saved == 0, "exit_ex: no pending hand-over");
  VERIF_CANARY();
}
#endif

/* every worker's set-up: rank == index, exit flag clear, OS thread knows its rank (what get_worker_num relies on) */
void h_setup_worker(void) {
  setup_workers();
  g_attr.n_workers = g_nw;
  g_envs = g_pool; g_envs_sz = g_nw;
#ifdef SETUP_RANK
  g_rank = SETUP_RANK;                                /* constant index: see the note of job c15.setup_worker.* */
#else
  g_rank = nondet_int();
#endif
  __CPROVER_assume(0 <= g_rank && g_rank < g_nw);
  g_worker_rank = nondet_int();
  g_su_alloc = 0; g_su_queue = 0; g_su_barrier = 0; g_su_key = 0;
  myth_setup_worker(g_rank);
  __CPROVER_assert(g_pool[g_rank].rank == g_rank, "setup_worker: descriptor rank == index");
  __CPROVER_assert(g_worker_rank == g_rank, "setup_worker: the OS thread knows its rank");
  __CPROVER_assert(g_pool[g_rank].exit_flag == 0, "setup_worker: exit flag clear (a fresh initialisation is not stopped by a stale flag)");
  __CPROVER_assert(g_pool[g_rank].this_thread == 0, "setup_worker: no current thread");
  __CPROVER_assert(g_su_barrier == 1, "setup_worker: meets the other workers at the start-up barrier exactly once");
  myth_running_env_t e = myth_get_current_env();
  __CPROVER_assert(e == &g_pool[g_rank], "setup_worker: myth_get_current_env yields this worker's descriptor");
  VERIF_CANARY();
}

#ifndef POOL_MALLOC      /* the static descriptor pool POOL exists in this configuration only */
/* ---------------- a worker OS thread of rank > 0: myth_worker_start_ex_body ----------------
 * The descriptor array comes from plain malloc (not cleared).  myth_cleanup_worker frees whatever env->sched.stack holds,
 * so a worker that allocates no scheduler stack must say so before it can reach the clean-up ("the workers stop
 * cleanly").  myth_setup_worker (checked in jobs c15.setup_worker.*) does not write that field: its stand-in here leaves
 * the field as malloc handed it out. */
int g_ws_setup, g_ws_loop, g_ws_cleanup; char WS_JUNK[8];
void verif_ws_setup(int rank) {
  __CPROVER_assert(rank == 1 && g_ws_setup == 0, "worker start: sets up its own descriptor, once");
  g_ws_setup = 1; g_worker_rank = rank; POOL[1].rank = rank; POOL[1].exit_flag = 0; POOL[1].this_thread = 0;
}
void ws_sched_loop_contract(void)
  __CPROVER_requires(g_ws_setup == 1 && g_ws_loop == 0 && g_ws_cleanup == 0 && "the scheduling loop runs after the set-up, before the clean-up")
  __CPROVER_assigns(g_ws_loop) __CPROVER_ensures(g_ws_loop == 1);
void verif_ws_cleanup(int rank) {
  __CPROVER_assert(rank == 1 && g_ws_loop == 1 && g_ws_cleanup == 0, "worker start: cleans up its own descriptor, once, after the scheduling loop has ended");
  __CPROVER_assert(POOL[1].sched.stack == 0, "worker start (rank > 0): reaches the clean-up with NO scheduler stack recorded (the clean-up frees whatever the field holds; the descriptor memory is not cleared by the allocator)");
  g_ws_cleanup = 1;
}
void h_worker_start(void) {
  g_nw = 2; g_pool = &POOL[0]; g_attr.n_workers = 2; g_envs = g_pool; g_envs_sz = 2;
  g_worker_rank = nondet_int();
  POOL[1].sched.stack = nondet_bool() ? (void *)WS_JUNK : (void *)0;      /* what malloc left there */
  g_ws_setup = g_ws_loop = g_ws_cleanup = 0;
  myth_worker_start_ex_body(1);
  __CPROVER_assert(g_ws_setup == 1 && g_ws_loop == 1 && g_ws_cleanup == 1, "worker start: set-up, scheduling loop, clean-up -- each exactly once, in this order");
  VERIF_CANARY();
}

#endif

/* worker index and count */
void h_worker_num(void) {
  setup_workers();
  g_attr.n_workers = g_nw;
  g_envs = g_pool; g_envs_sz = g_nw;
  g_W = 2; g_i_init = 0; g_env_init = 0; g_myth_init_state = 2; g_cas_won = 0; g_really_calls = 0;   /* initialised */
  g_worker_rank = nondet_int();
  __CPROVER_assume(0 <= g_worker_rank && g_worker_rank < g_nw);
  __CPROVER_assume(g_pool[g_worker_rank].rank == g_worker_rank);         /* established by myth_setup_worker */
  if (nondet_bool()) myth_init_once_ctl_wait(&g_myth_init_state, myth_init_state_initialized);   /* see h_init_once */
  int w = myth_get_worker_num_body();
  int n = myth_get_num_workers_body();
  __CPROVER_assert(n == g_nw, "get_num_workers: exactly the number of workers the library runs with");
  __CPROVER_assert(0 <= w && w < n, "get_worker_num: within [0, workers)");
  __CPROVER_assert(g_really_calls == 0 && g_myth_init_state == 2, "get_worker_num / get_num_workers: no re-initialisation of an initialised library");
  VERIF_CANARY();
}
