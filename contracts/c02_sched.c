/* C02 -- the scheduler glue around the run queues: every thread a worker obtains (popped from its own queue or
 * stolen) is resumed exactly once; a yielding thread is put back exactly once, after its context has been saved.
 * Functions under contract (real bodies): myth_sched_loop (src/myth_worker_func.h), myth_default_steal_func,
 * myth_env_get_first_busy (src/myth_worker.c), myth_yield_ex_body, myth_yield_ex_1 (src/myth_sched_func.h).
 */
#include "verif_common.h"
#include "verif_ctx.h"
#include "myth_sched_func.h"
#include "myth_worker.c"

#define NW 4
struct myth_running_env ENVS[NW];
struct myth_thread TH1, CUR;
int g_pending;            /* a thread has been obtained (pop / steal) and not yet resumed */
int g_pending_ever, g_resumed_ever, g_put, g_steals, g_lost;
int g_me;                 /* rank of the worker under proof */

/* obtain a runnable thread from my own queue (stub with a body: the result is dereferenced) */
myth_thread_t verif_pop(myth_thread_queue_t q) {
  __CPROVER_assert(q == &ENVS[g_me].runnable_q, "scheduler: pops only its own run queue");
  __CPROVER_assert(g_pending == 0, "scheduler: a thread obtained earlier has been resumed before the next one is fetched (nothing is dropped)");
  if (nondet_bool()) { g_pending = 1; g_pending_ever = 1; TH1.status = MYTH_STATUS_READY; return &TH1; }
  return 0;
}
static myth_thread_t verif_steal(int rank) {
  __CPROVER_assert(rank == g_me, "scheduler: steals on behalf of its own rank");
  __CPROVER_assert(g_pending == 0, "scheduler: steals only when it holds no runnable thread");
  g_steals = 1;
  if (nondet_bool()) { g_pending = 1; g_pending_ever = 1; TH1.status = MYTH_STATUS_READY; return &TH1; }
  return 0;
}
void barrier_wait_contract(myth_internal_barrier_t * b) __CPROVER_requires(1) __CPROVER_assigns() __CPROVER_ensures(1);

/* the scheduler context gives the worker to the obtained thread; it comes back when that thread blocks or ends */
void sched_resume_contract(myth_context_t from, myth_context_t to)
  __CPROVER_requires(from == &ENVS[g_me].sched.context && to == &TH1.context)
  __CPROVER_requires(g_pending == 1 && "exactly the obtained thread is resumed, once")
  __CPROVER_requires(ENVS[g_me].this_thread == &TH1 && TH1.env == &ENVS[g_me] && "the thread is bound to this worker before it runs")
  __CPROVER_assigns(g_pending, g_resumed_ever, ENVS[g_me].exit_flag, ENVS[g_me].this_thread)
  __CPROVER_ensures(g_pending == 0 && g_resumed_ever == 1);

static void world(void) {
  g_envs = ENVS; g_envs_sz = NW; g_me = 1; g_worker_rank = 1; ENVS[1].rank = 1; ENVS[0].rank = 0; ENVS[2].rank = 2; ENVS[3].rank = 3;
  g_pending = g_pending_ever = g_resumed_ever = g_put = g_steals = 0;
  g_ctx_saved = 0; g_switch_count = 0; g_in_callback = 0; g_jumped = 0;
  g_myth_steal_func = verif_steal;
}

void h_sched_loop(void) {
  world();
  ENVS[1].exit_flag = nondet_int();
  myth_sched_loop();
  __CPROVER_assert(g_pending == 0, "sched_loop: leaves only when it holds no runnable thread");
  __CPROVER_assert(ENVS[1].exit_flag == 1 && ENVS[1].this_thread == 0, "sched_loop: leaves only on the exit flag, with no current thread");
  VERIF_CANARY();
}

/* ------------------------------------------------------------------ default steal function */
int g_rand_lo, g_rand_hi, g_rand_val, g_take_victim;
int random_contract(int min, int max)
  __CPROVER_requires(min < max)
  __CPROVER_assigns(g_rand_lo, g_rand_hi, g_rand_val)
  __CPROVER_ensures(min <= __CPROVER_return_value && __CPROVER_return_value < max && g_rand_lo == min && g_rand_hi == max && g_rand_val == __CPROVER_return_value);
myth_thread_t verif_take(myth_thread_queue_t q) {
  int v = -1;
  if (q == &ENVS[0].runnable_q) v = 0; if (q == &ENVS[1].runnable_q) v = 1; if (q == &ENVS[2].runnable_q) v = 2; if (q == &ENVS[3].runnable_q) v = 3;
  __CPROVER_assert(v >= 0 && v < g_attr.n_workers, "steal: the victim is an existing worker");
  __CPROVER_assert(v != g_me, "steal: never from the thief's own queue");
  g_take_victim = v;
  if (nondet_bool()) { TH1.status = MYTH_STATUS_READY; return &TH1; }
  return 0;
}
void h_default_steal(void) {
  world();
  g_attr.n_workers = nondet_int(); g_me = nondet_int();
  __CPROVER_assume(1 <= g_attr.n_workers && g_attr.n_workers <= NW && 0 <= g_me && g_me < g_attr.n_workers);
  g_take_victim = -1;
  myth_thread_t r = myth_default_steal_func(g_me);
  __CPROVER_assert(g_attr.n_workers > 1 || (r == 0 && g_take_victim == -1), "steal: with one worker there is nobody to steal from");
  __CPROVER_assert(g_attr.n_workers == 1 || g_take_victim >= 0, "steal: one take attempt on a victim");
  __CPROVER_assert(r == 0 || r == &TH1, "steal: returns what the take returned");
  VERIF_CANARY();
}

/* ------------------------------------------------------------------ yield */
void put_contract(myth_thread_queue_t q, myth_thread_t th)
  __CPROVER_requires(q == &ENVS[g_me].runnable_q && th == &CUR && g_put == 0)
  __CPROVER_requires(g_in_callback == 1 && g_ctx_saved == &CUR.context && "the yielding thread becomes runnable again only after its context has been saved")
  __CPROVER_assigns(g_put) __CPROVER_ensures(g_put == 1);
/* a yielding thread goes to the END of the line (myth_queue_put: the steal end of its worker's deque), behind the threads
   that are already runnable there; re-queued at the owner's hot end it would be the next one popped again and two
   yielders would hand the worker back and forth for ever ("lets the other runnable threads use the worker") */
void push_hot_end_contract(myth_thread_queue_t q, myth_thread_t th)
  __CPROVER_requires(0 && "yield re-queues the caller behind the runnable threads of its worker (myth_queue_put), never at the hot end (myth_queue_push)")
  __CPROVER_assigns() __CPROVER_ensures(1);
void (*keep_put_c02)(myth_thread_queue_t, myth_thread_t) = myth_queue_put;
void (*keep_push_c02)(myth_thread_queue_t, myth_thread_t) = myth_queue_push;
void yield_resume_contract(myth_context_t from, myth_context_t to)
  __CPROVER_requires(from == &CUR.context && to == &TH1.context && g_pending == 1 && g_put == 1)
  __CPROVER_requires(ENVS[g_me].this_thread == &TH1 && TH1.env == &ENVS[g_me])
  __CPROVER_assigns(g_pending, g_resumed_ever, ENVS[g_me].this_thread)
  __CPROVER_ensures(g_pending == 0 && g_resumed_ever == 1);
int ensure_init_contract(void) __CPROVER_requires(1) __CPROVER_assigns() __CPROVER_ensures(1);
int random_contract2(int min, int max) __CPROVER_requires(min < max) __CPROVER_assigns() __CPROVER_ensures(min <= __CPROVER_return_value && __CPROVER_return_value < max);

void h_yield(void) {
  world();
  ENVS[1].this_thread = &CUR; CUR.env = &ENVS[1];
  int opt = nondet_int();
  __CPROVER_assume(opt == myth_yield_option_half_half || opt == myth_yield_option_local_only || opt == myth_yield_option_local_first ||
                   opt == myth_yield_option_steal_only || opt == myth_yield_option_steal_first);
  int r = myth_yield_ex_body(opt);
  __CPROVER_assert(r == 0, "yield: returns 0");
  __CPROVER_assert(g_pending == 0 && g_pending_ever == g_resumed_ever, "yield: a thread obtained from a queue is always switched to (never dropped)");
  __CPROVER_assert(g_put == g_pending_ever && g_switch_count == g_pending_ever, "yield: the caller is re-queued and switched away iff another runnable thread was found; otherwise it keeps running");
  __CPROVER_assert(opt != myth_yield_option_local_only || g_steals == 0, "yield(local only): never steals");
  VERIF_CANARY();
}
