/* verif_native.h -- native replay of a verifier counterexample (DESIGN §3.7).  Included by verif_common.h when the
 * harness TU is compiled by gcc with -DVERIF_NATIVE: contract clauses compile away, the harness inputs (results of the
 * nondet_* calls, in call order) come from RP_VALUES[] generated from the trace, assumptions are checked, the
 * obligations of the harness are ordinary tests, the library's own assert()s and (with -fsanitize) memory-safety
 * violations abort.  Only jobs whose callees all have bodies can be replayed this way. */
#ifndef VERIF_NATIVE_H
#define VERIF_NATIVE_H
#include <stdio.h>
#include <stdlib.h>
#include <string.h>
extern const long long RP_VALUES[]; extern const int RP_N;
static int rp_i, verif_failed;
static long long rp_next(void) { if (rp_i < RP_N) return RP_VALUES[rp_i++]; return 0; }
static long nondet_long(void) { return (long)rp_next(); }
static int nondet_int(void) { return (int)rp_next(); }
static unsigned nondet_unsigned(void) { return (unsigned)rp_next(); }
static unsigned long nondet_ulong(void) { return (unsigned long)rp_next(); }
static _Bool nondet_bool(void) { return rp_next() != 0; }
static char nondet_char(void) { return (char)rp_next(); }
static unsigned char nondet_uchar(void) { return (unsigned char)rp_next(); }
static void verif_fill(void * p, size_t n) { size_t i; unsigned char * c = p; for (i = 0; i < n; i++) c[i] = (unsigned char)(0xA5 ^ (i * 37)); }
#define __CPROVER_requires(x)
#define __CPROVER_ensures(x)
#define __CPROVER_assigns(...)
#define __CPROVER_assume(c) do { if (!(c)) { printf("REPLAY-ASSUMPTION-VIOLATED: %s\n", #c); exit(3); } } while (0)
#define __CPROVER_assert(c, msg) do { if (!(c)) { printf("REPLAY-OBLIGATION-FAILED: %s\n", msg); fflush(stdout); verif_failed++; } } while (0)
#define __CPROVER_havoc_object(p) verif_fill((p), sizeof(*(p)))
#define VERIF_CANARY() do { printf(verif_failed ? "REPLAY-RESULT: failed\n" : "REPLAY-RESULT: passed\n"); } while (0)
#endif
