/* C03 engine 2 -- extraction unit for asm/ctxcheck.py (never compiled, only `gcc -E -P`).
 *
 * It includes the REAL header and expands each of the four inline-asm context-switch macros once, with marker
 * identifiers as arguments.  ctxcheck.py takes from the preprocessed text, per macro: the template (the adjacent
 * string literals inside `asm volatile(`) and the three constraint lists (outputs : inputs : clobbers).
 * Nothing of the templates is written down in /verif: every run checks the text of the tree it is given.
 *
 * The public macros (what the call sites in myth_sched_func.h / myth_sync_func.h / myth_worker_func.h use) are
 * expanded too: ctxcheck.py requires that each of them expands to exactly the `_i` statement that was checked.
 */
#include "myth_context_func.h"

VERIF_ASM_BEGIN(swap_withcall) myth_swap_context_withcall_i(VERIF_FROM, VERIF_TO, verif_callback, VERIF_A1, VERIF_A2, VERIF_A3) VERIF_ASM_END
VERIF_ASM_BEGIN(swap) myth_swap_context_i(VERIF_FROM, VERIF_TO) VERIF_ASM_END
VERIF_ASM_BEGIN(set_withcall) myth_set_context_withcall_i(VERIF_TO, verif_callback, VERIF_A1, VERIF_A2, VERIF_A3) VERIF_ASM_END
VERIF_ASM_BEGIN(set) myth_set_context_i(VERIF_TO) VERIF_ASM_END

VERIF_ASM_BEGIN(public_swap_withcall) myth_swap_context_withcall(VERIF_FROM, VERIF_TO, verif_callback, VERIF_A1, VERIF_A2, VERIF_A3) VERIF_ASM_END
VERIF_ASM_BEGIN(public_swap) myth_swap_context(VERIF_FROM, VERIF_TO) VERIF_ASM_END
VERIF_ASM_BEGIN(public_set_withcall) myth_set_context_withcall(VERIF_TO, verif_callback, VERIF_A1, VERIF_A2, VERIF_A3) VERIF_ASM_END
VERIF_ASM_BEGIN(public_set) myth_set_context(VERIF_TO) VERIF_ASM_END

/* configuration the contracts were written for (ctxcheck.py: anything else -> undecided) */
VERIF_CONFIG_BEGIN
arch=MYTH_ARCH arch_amd64=MYTH_ARCH_amd64 context=MYTH_CONTEXT context_amd64=MYTH_CONTEXT_amd64
inline_context=MYTH_INLINE_CONTEXT inline_push=MYTH_INLINE_PUSH_CALLEE_SAVED save_fpcsr=MYTH_SAVE_FPCSR
VERIF_CONFIG_END
