/* C02 -- the owner/thief hand-shake of the work-stealing queue under SEQUENTIALLY CONSISTENT interference
 * (DESIGN §4 C02, appendix A.4).  Function under contract: myth_queue_pop (owner) with all concurrent
 * myth_queue_take calls (thieves) as environment.
 *
 * Thieves are serialised by q->lock, the owner is the only writer of top, thieves are the only unlocked-phase writers
 * of base.  Hence the thieves are modelled EXACTLY by two ghosts:
 *   g_cb  committed base: slots < g_cb have really been taken
 *   g_if  in {0,1}: one thief is in flight (it has stored base = g_cb + 1 and not yet read top)
 * with the agreement  q->base == g_cb + g_if.  One environment step = the pending thief resolves, any number of
 * complete takes run, possibly a new thief gets in flight -- each against ANY value top had since the previous hook
 * (window g_top_prev .. top): g_cb grows only while g_cb < max(top at previous hook, top now).
 * Hooks (environment steps) sit at every point that separates two of the owner's reads of base: before the call, at
 * myth_wsqueue_rwbarrier(), at myth_wsqueue_lock_lock() (which additionally freezes the thieves until unlock), and
 * after the return.
 */
#include "verif_common.h"
#ifndef QMAX
#define QMAX 64
#endif
#include "myth_wsqueue_func.h"

struct myth_thread_queue Q;
myth_thread_t BUF[QMAX];
char CELL[4];
int g_cb, g_if, g_lock_mine, g_top_prev;
int g_cb_at_lock;

#define AGREE (0 <= g_cb && g_cb <= QMAX && (g_if == 0 || g_if == 1) && Q.base == g_cb + g_if)
#define TMAXV(oldprev, topnow) ((oldprev) > (topnow) ? (oldprev) : (topnow))
#define CB_RULE (g_cb >= __CPROVER_old(g_cb) && \
                 g_cb <= (__CPROVER_old(g_cb) > TMAXV(__CPROVER_old(g_top_prev), Q.top) ? __CPROVER_old(g_cb) : TMAXV(__CPROVER_old(g_top_prev), Q.top)) && \
                 g_top_prev == Q.top)

/* an environment step of the thieves; also the contract of the full fence in pop */
void env_thieves(void)
  __CPROVER_requires(AGREE && !g_lock_mine && "owner did not write base outside the lock")
  __CPROVER_assigns(Q.base, g_cb, g_if, g_top_prev)
  __CPROVER_ensures(AGREE && CB_RULE);
void fence_contract(void)
  __CPROVER_requires(AGREE && !g_lock_mine && "owner did not write base outside the lock")
  __CPROVER_assigns(Q.base, g_cb, g_if, g_top_prev)
  __CPROVER_ensures(AGREE && CB_RULE);
void lock_contract(myth_spinlock_t * l)
  __CPROVER_requires(l == &Q.lock && AGREE && !g_lock_mine)
  __CPROVER_assigns(Q.base, g_cb, g_if, g_top_prev, g_lock_mine, g_cb_at_lock)
  __CPROVER_ensures(AGREE && CB_RULE && g_if == 0 && g_lock_mine == 1 && g_cb_at_lock == g_cb);   /* no thief in flight while I hold the lock */
void unlock_contract(myth_spinlock_t * l)
  __CPROVER_requires(l == &Q.lock && g_lock_mine == 1)
  __CPROVER_assigns(g_lock_mine, g_cb, g_if, g_top_prev)
  __CPROVER_ensures(g_lock_mine == 0 && g_if == 0 && g_cb == Q.base && g_top_prev == Q.top);
void (*keep_env)(void) = env_thieves;

void h_pop_vs_thieves(void) {
  Q.size = nondet_int(); Q.top = nondet_int(); g_cb = nondet_int(); g_if = nondet_int();
  __CPROVER_assume(2 <= Q.size && Q.size <= QMAX && 0 <= Q.top && Q.top <= Q.size);
  __CPROVER_assume(0 <= g_cb && g_cb <= Q.top && (g_if == 0 || g_if == 1));
  Q.base = g_cb + g_if; Q.ptr = BUF; g_lock_mine = 0; g_top_prev = Q.top; Q.wc.seq = 0; g_cb_at_lock = -1;
  { int i; for (i = 0; i < QMAX; i++) BUF[i] = (myth_thread_t)&CELL[i & 3]; }      /* every slot holds a (non-NULL) thread */
  int top0 = Q.top;
  myth_thread_t r = myth_queue_pop(&Q);
  int idx = top0 - 1;
  __CPROVER_assert(!g_lock_mine, "pop: queue lock released on every return path");
  if (r != 0) {
    /* the owner took slot idx */
    __CPROVER_assert(Q.top == idx, "pop: the slot the owner returns is top-1 and top is decremented exactly once");
    __CPROVER_assert(g_cb <= idx, "pop: the slot returned by pop was not already stolen (no thread is resumed twice)");
    env_thieves();
    __CPROVER_assert(g_cb <= idx, "pop: the slot returned by pop cannot be stolen afterwards");
  } else {
    /* NULL: nothing may be left behind for nobody */
    __CPROVER_assert(Q.top <= Q.base || g_cb >= Q.top, "pop: returns NULL only when no element is left for the owner (everything below top is taken or being taken)");
    __CPROVER_assert(Q.top == top0 || (g_cb_at_lock > idx), "pop: after giving up under the lock, every element had been taken by thieves");
  }
  __CPROVER_assert(AGREE || g_lock_mine, "pop: base is written by the owner only under the lock");
  VERIF_CANARY();
}

/* ================================================================== the thief's side: myth_queue_take with the OWNER as
 * environment.  While the thief holds q->lock the owner can only push (top grows) and pop through its lock-free fast
 * path; a pop that cannot use the fast path waits for the lock, i.e. stays "in flight" (it has stored top - 1) for the
 * rest of the thief's critical section.  Ghosts: g_ct committed top (slots >= g_ct are gone), g_oif in {0,1} an owner
 * pop is in flight, agreement q->top == g_ct - g_oif.  The owner's fast path commits a pop only after having read a
 * base value b' with b' + 1 < new top; b' is any value base had since the previous hook (window g_bmin): a committed
 * pop therefore leaves g_ct >= g_bmin + 2.
 */
int g_ct, g_oif, g_bmin, g_tlock;
#define OAGREE (0 <= g_ct && g_ct <= QMAX && (g_oif == 0 || g_oif == 1) && Q.top == g_ct - g_oif)
#define OBMIN(oldmin) ((oldmin) < Q.base ? (oldmin) : Q.base)
#define O_RULE (g_ct >= (__CPROVER_old(g_ct) < OBMIN(__CPROVER_old(g_bmin)) + 2 ? __CPROVER_old(g_ct) : OBMIN(__CPROVER_old(g_bmin)) + 2) && g_bmin == Q.base)
void env_owner(void)
  __CPROVER_requires(OAGREE)
  __CPROVER_assigns(Q.top, g_ct, g_oif, g_bmin)
  __CPROVER_ensures(OAGREE && O_RULE);
void ofence_contract(void)
  __CPROVER_requires(OAGREE)
  __CPROVER_assigns(Q.top, g_ct, g_oif, g_bmin)
  __CPROVER_ensures(OAGREE && O_RULE);
void tlock_contract(myth_spinlock_t * l)
  __CPROVER_requires(l == &Q.lock && !g_tlock && OAGREE)
  __CPROVER_assigns(Q.top, g_ct, g_oif, g_bmin, g_tlock)
  __CPROVER_ensures(OAGREE && O_RULE && g_tlock == 1);
void tunlock_contract(myth_spinlock_t * l)
  __CPROVER_requires(l == &Q.lock && g_tlock == 1)
  __CPROVER_assigns(g_tlock) __CPROVER_ensures(g_tlock == 0);
static inline void verif_rd_top(volatile void * p) { if (p == (volatile void *)&Q.top) env_owner(); }
void (*keep_env2)(void) = env_owner;

void h_take_vs_owner(void) {
  Q.size = nondet_int(); Q.base = nondet_int(); g_ct = nondet_int(); g_oif = nondet_int();
  __CPROVER_assume(2 <= Q.size && Q.size <= QMAX && 0 <= Q.base && Q.base <= Q.size);
  __CPROVER_assume(0 <= g_ct && g_ct <= Q.size && (g_oif == 0 || g_oif == 1) && g_ct - g_oif >= 0);
  Q.top = g_ct - g_oif; Q.ptr = BUF; g_tlock = 0; g_bmin = Q.base;
  { int i; for (i = 0; i < QMAX; i++) BUF[i] = (myth_thread_t)&CELL[i & 3]; }
  int base0 = Q.base;
  myth_thread_t r = myth_queue_take(&Q);
  __CPROVER_assert(!g_tlock, "take: queue lock released on every return path");
  if (r != 0) {
    __CPROVER_assert(Q.base == base0 + 1, "take: the thief takes slot base and advances base exactly once");
    __CPROVER_assert(base0 < g_ct, "take: the slot returned by take has not been popped by the owner (no thread is resumed twice)");
    env_owner();
    __CPROVER_assert(base0 < g_ct, "take: the slot returned by take cannot be popped by the owner's fast path afterwards");
  } else {
    __CPROVER_assert(Q.base == base0, "take: a failed steal leaves base where it was (nothing is lost)");
  }
  VERIF_CANARY();
}
