/* C02 -- work-stealing run queue (DESIGN §4 C02).  Functions under contract (real bodies, src/myth_wsqueue_func.h):
 *   myth_queue_init, myth_queue_clear, myth_queue_push, myth_queue_pop, myth_queue_take, myth_queue_peek,
 *   myth_queue_trypass, myth_queue_pass, myth_queue_put.
 *
 * Abstract view: view(q) = ptr[base .. top),  wf(q) = 0 <= base <= top <= size, ptr has `size` cells.
 * `size` is symbolic up to QMAX (131072 = the real INITIAL_QUEUE_SIZE in the thorough tier).
 * Universal statements use a ghost witness index g_w chosen before the call ("every other element is preserved").
 * memmove (re-centring) is replaced by a contract with its own witness (CBMC's built-in model is wrong for a
 * symbolic length over an array of pointers: spurious counterexample, DESIGN §2).
 */
#include "verif_common.h"
#include <stddef.h>

#ifndef QMAX
#define QMAX 64
#endif

/* ---- memmove by contract (sound weakening of the C standard's specification) ---- */
struct myth_thread;
struct myth_thread * BUF[QMAX];
size_t g_mm_k;                      /* witness cell of the moved block */
int g_mm_calls;
void * verif_memmove(void * d, const void * s, size_t n)
  __CPROVER_requires(n % sizeof(void *) == 0 && n <= QMAX * sizeof(void *))
  __CPROVER_requires(__CPROVER_same_object(d, BUF) && __CPROVER_same_object(s, BUF) && "re-centring moves cells of the queue storage only")
  __CPROVER_requires(__CPROVER_POINTER_OFFSET(d) + n <= QMAX * sizeof(void *) && __CPROVER_POINTER_OFFSET(s) + n <= QMAX * sizeof(void *))
  __CPROVER_assigns(g_mm_calls, __CPROVER_object_whole(BUF))     /* weaker than memmove: everything but the witness cell is forgotten */
  __CPROVER_ensures(g_mm_k < n / sizeof(void *) ==> ((void **)d)[g_mm_k] == __CPROVER_old(((void * const *)s)[g_mm_k]))
  __CPROVER_ensures(g_mm_calls == __CPROVER_old(g_mm_calls) + 1)
  __CPROVER_ensures(__CPROVER_return_value == d);
#define memmove verif_memmove

#include "myth_wsqueue_func.h"
#undef memmove

struct myth_thread_queue Q;
char CELL[8];                       /* &CELL[i]: distinguishable thread identities */
int g_lock_held, g_lock_calls, g_unlock_calls, g_trylock_fails, g_abort_expected, g_abort_calls;

/* the queue's spin lock by contract (C04 proves the spin lock itself).  Acquiring it is an interference point for
   what it protects: until then thieves and passers (other workers) may have moved `base` -- so a value of base read
   BEFORE the lock says nothing afterwards.  top is written by the owner only. */
int g_w, g_base0, g_top0, g_size0;
void lock_contract(myth_spinlock_t * l)
  __CPROVER_requires(l == &Q.lock && g_lock_held == 0)
  __CPROVER_assigns(g_lock_held, g_lock_calls, Q.base, g_base0, g_abort_expected, g_mm_k)
  __CPROVER_ensures(g_lock_held == 1 && g_lock_calls == __CPROVER_old(g_lock_calls) + 1)
  __CPROVER_ensures(0 <= Q.base && Q.base <= g_top0 && g_base0 == Q.base && g_abort_expected == 0)
  __CPROVER_ensures(!(Q.base == 0 && Q.top == Q.size))        /* a completely full queue makes the library abort: excluded (assumption) */
  __CPROVER_ensures(g_mm_k == (g_w >= Q.base ? (size_t)(g_w - Q.base) : (size_t)0));
void unlock_contract(myth_spinlock_t * l)
  __CPROVER_requires(l == &Q.lock && g_lock_held == 1)
  __CPROVER_assigns(g_lock_held, g_unlock_calls)
  __CPROVER_ensures(g_lock_held == 0 && g_unlock_calls == __CPROVER_old(g_unlock_calls) + 1);
int trylock_contract(myth_spinlock_t * l)
  __CPROVER_requires(l == &Q.lock && g_lock_held == 0)
  __CPROVER_assigns(g_lock_held, g_lock_calls, Q.base, g_base0)
  __CPROVER_ensures((__CPROVER_return_value == 1 && g_lock_held == 1 && !g_trylock_fails && 0 <= Q.base && Q.base <= g_top0 && g_base0 == Q.base) ||
                    (__CPROVER_return_value == 0 && g_lock_held == 0 && g_trylock_fails && Q.base == __CPROVER_old(Q.base) && g_base0 == __CPROVER_old(g_base0)))
  __CPROVER_ensures(g_lock_calls == __CPROVER_old(g_lock_calls) + (g_trylock_fails ? 0 : 1));
void abort_contract(void)
  __CPROVER_requires(0 && "the overflow abort is reachable only when the queue is completely full (base == 0 and top == size), which the harness excludes")
  __CPROVER_assigns(g_abort_calls) __CPROVER_ensures(0);

myth_thread_t g_wv;               /* value of the witness element g_w of the view */

static void setup(_Bool need_room_top, _Bool need_room_bottom) {
  int i;
  Q.size = nondet_int(); Q.base = nondet_int(); Q.top = nondet_int();
  __CPROVER_assume(2 <= Q.size && Q.size <= QMAX && 0 <= Q.base && Q.base <= Q.top && Q.top <= Q.size);
  Q.ptr = BUF;
  g_base0 = Q.base; g_top0 = Q.top; g_size0 = Q.size;
  g_w = nondet_int();
  __CPROVER_assume(Q.base <= g_w && g_w < Q.top || Q.base == Q.top);
  if (Q.base < Q.top) { g_wv = nondet_bool() ? (myth_thread_t)&CELL[1] : (myth_thread_t)&CELL[2]; BUF[g_w] = g_wv; } else { g_w = -1; g_wv = 0; }
  g_mm_k = g_w >= 0 ? (size_t)(g_w - Q.base) : 0;
  g_lock_held = g_lock_calls = g_unlock_calls = g_mm_calls = g_abort_calls = 0; g_trylock_fails = 0;
  g_abort_expected = (Q.base == 0 && Q.top == Q.size);
  Q.wc.seq = 0;
}
#define WF() (0 <= Q.base && Q.base <= Q.top && Q.top <= Q.size && Q.size == g_size0 && Q.ptr == BUF)
#define LOCKS_BALANCED() (g_lock_held == 0 && g_lock_calls == g_unlock_calls)

void h_push(void) {
  setup(0, 0);
  __CPROVER_assume(!g_abort_expected);       /* a completely full queue makes the library abort: outside the property */
  myth_thread_t th = (myth_thread_t)&CELL[0];
  myth_queue_push(&Q, th);
  int delta = Q.base - g_base0;
  __CPROVER_assert(WF() && LOCKS_BALANCED(), "push: queue stays well formed, lock released on return");
  __CPROVER_assert(Q.top - Q.base == g_top0 - g_base0 + 1, "push: exactly one element more (than at the instant the lock was obtained, if it was)");
  __CPROVER_assert(Q.ptr[Q.top - 1] == th, "push: the new element is the newest (top) one");
  __CPROVER_assert(g_w < 0 || g_w < g_base0 || Q.ptr[g_w + delta] == g_wv, "push: every older element (still in the queue) is preserved in order, also across re-centring");
  __CPROVER_assert(delta == 0 || (g_top0 == g_size0 && delta < 0 && g_mm_calls == 1 && g_lock_calls == 1), "push: the storage is re-centred only when the top hit the end, under the lock");
  VERIF_CANARY();
}
void h_pop(void) {
  setup(0, 0);
  int base_pre = Q.base;
  myth_thread_t r = myth_queue_pop(&Q);
  __CPROVER_assert(WF() && LOCKS_BALANCED(), "pop: queue stays well formed, lock released on return");
  if (g_top0 == base_pre) {
    __CPROVER_assert(r == 0 && Q.top == g_top0 && Q.base == base_pre && g_lock_calls == 0, "pop: NULL at once on an empty queue, nothing changed");
  } else if (g_lock_calls == 1 && g_base0 > g_top0 - 1) {
    /* the last element was stolen before the owner obtained the lock */
    __CPROVER_assert(r == 0 && Q.top == Q.base, "pop: NULL when thieves emptied the queue first; the queue is left empty");
  } else {
    __CPROVER_assert(Q.top == g_top0 - 1 && Q.base == g_base0, "pop: exactly one element less, taken from the top");
    __CPROVER_assert(g_w != g_top0 - 1 || r == g_wv, "pop: returns the newest element");
    __CPROVER_assert(g_w < 0 || g_w == g_top0 - 1 || g_w < g_base0 || Q.ptr[g_w] == g_wv, "pop: every other element is preserved");
  }
  VERIF_CANARY();
}
void h_take(void) {
  setup(0, 0);
  myth_thread_t r = myth_queue_take(&Q);
  __CPROVER_assert(WF() && LOCKS_BALANCED(), "take: queue stays well formed, lock released on return");
  if (g_top0 == g_base0) {
    __CPROVER_assert(r == 0 && Q.top == g_top0 && Q.base == g_base0, "take: NULL iff empty, nothing changed");
  } else {
    __CPROVER_assert(Q.base == g_base0 + 1 && Q.top == g_top0, "take: exactly one element less, taken from the base");
    __CPROVER_assert(g_w != g_base0 || g_top0 == g_base0 || r == g_wv, "take: returns the oldest element");
    __CPROVER_assert(g_w < 0 || g_w <= g_base0 || Q.ptr[g_w] == g_wv, "take: every other element is preserved");
    __CPROVER_assert(g_lock_calls == 1, "take: the base is advanced under the queue lock");
  }
  VERIF_CANARY();
}
void h_peek(void) {
  setup(0, 0);
  myth_thread_t r = myth_queue_peek(&Q);
  __CPROVER_assert(WF() && Q.base == g_base0 && Q.top == g_top0 && g_lock_calls == 0, "peek: changes nothing");
  __CPROVER_assert(g_top0 == g_base0 ? r == 0 : (g_w != g_base0 || r == g_wv), "peek: shows the oldest element, NULL iff empty");
  __CPROVER_assert(g_w < 0 || Q.ptr[g_w] == g_wv, "peek: elements preserved");
  VERIF_CANARY();
}
void h_put(void) {
  setup(0, 0);
  __CPROVER_assume(!g_abort_expected);
  myth_thread_t th = (myth_thread_t)&CELL[0];
  myth_queue_put(&Q, th);
  int delta = Q.base + 1 - g_base0;
  __CPROVER_assert(WF() && LOCKS_BALANCED(), "put: queue stays well formed, lock released on return");
  __CPROVER_assert(Q.top - Q.base == g_top0 - g_base0 + 1, "put: exactly one element more");
  __CPROVER_assert(Q.ptr[Q.base] == th, "put: the new element is the oldest (base) one");
  __CPROVER_assert(g_w < 0 || g_w < g_base0 || Q.ptr[g_w + delta] == g_wv, "put: every other element (still in the queue) is preserved in order, also across lower-boundary re-centring");
  __CPROVER_assert(delta == 0 || (g_base0 == 0 && delta > 0 && g_mm_calls == 1), "put: the storage is re-centred only when the base hit the start");
  __CPROVER_assert(g_lock_calls == 1, "put: done under the queue lock");
  VERIF_CANARY();
}
void h_trypass(void) {
  setup(0, 0);
  g_trylock_fails = nondet_bool();
  myth_thread_t th = (myth_thread_t)&CELL[0];
  int r = myth_queue_trypass(&Q, th);
  __CPROVER_assert(WF() && LOCKS_BALANCED(), "trypass: queue stays well formed, lock released on return");
  if (g_trylock_fails || g_base0 == 0) {
    __CPROVER_assert(r == 0 && Q.base == g_base0 && Q.top == g_top0, "trypass: fails without any change iff the lock is busy or there is no room below the base");
  } else {
    __CPROVER_assert(r == 1 && Q.base == g_base0 - 1 && Q.top == g_top0 && Q.ptr[Q.base] == th, "trypass: the passed thread becomes the oldest element");
  }
  __CPROVER_assert(g_w < 0 || g_w < g_base0 || Q.ptr[g_w] == g_wv, "trypass: every other element (still in the queue) is preserved");
  VERIF_CANARY();
}
size_t g_alloc_sz; int g_allocs;
void * real_malloc(size_t n) { g_alloc_sz = n; if (g_allocs < 2) g_allocs++; void * p = malloc(n); __CPROVER_assume(p != 0); return p; }

/* ---- init / clear / pass ---- */
void lock_init_contract(myth_spinlock_t * l)
  __CPROVER_requires(l == &Q.lock) __CPROVER_assigns(g_lock_held, g_lock_calls, g_unlock_calls)
  __CPROVER_ensures(g_lock_held == 0 && g_lock_calls == 0 && g_unlock_calls == 0);
void h_init(void) {
  __CPROVER_havoc_object(&Q);
  g_allocs = 0; g_lock_held = 1; g_lock_calls = 7; g_unlock_calls = 3;
  int k = nondet_int();
  myth_queue_init(&Q);
  __CPROVER_assert(Q.size == INITIAL_QUEUE_SIZE && Q.size >= 2, "init: the configured capacity");
  __CPROVER_assert(g_allocs == 1 && g_alloc_sz == sizeof(myth_thread_t) * (size_t)Q.size, "init: storage of exactly `size` cells");
  __CPROVER_assert(Q.base == Q.top && 0 < Q.base && Q.base < Q.size, "init: empty view, centred strictly inside the storage (room on both sides)");
  __CPROVER_assert(g_lock_held == 0 && g_lock_calls == 0, "init: the queue lock is initialised, unlocked");
  __CPROVER_assume(0 <= k && k < Q.size);
  __CPROVER_assert(Q.ptr[k] == 0, "init: every cell starts NULL");
  __CPROVER_assert(Q.wc.seq == 0 && Q.wc.size == 0 && Q.wc.ptr == 0, "init: the steal cache starts empty");
  VERIF_CANARY();
}
/* clear runs at worker start-up and shut-down only (myth_worker_start_ex_body, myth_queue_fini): no other worker operates
   on the queue then (assumption), so obtaining the lock is no interference point here */
void lock_quiescent_contract(myth_spinlock_t * l)
  __CPROVER_requires(l == &Q.lock && g_lock_held == 0)
  __CPROVER_assigns(g_lock_held, g_lock_calls)
  __CPROVER_ensures(g_lock_held == 1 && g_lock_calls == __CPROVER_old(g_lock_calls) + 1);
void h_clear(void) {
  setup(0, 0);
  __CPROVER_assume(Q.base == Q.top);          /* clear is called on an empty queue only (myth_assert in the body) */
  myth_queue_clear(&Q);
  __CPROVER_assert(WF() && LOCKS_BALANCED() && g_lock_calls == 1, "clear: well formed, done under the queue lock, lock released");
  __CPROVER_assert(Q.base == Q.top && Q.base == Q.size / 2, "clear: empty view re-centred");
  VERIF_CANARY();
}
/* pass = retry trypass until it succeeds */
int g_tp_calls, g_tp_ok;
int trypass_contract(myth_thread_queue_t q, myth_thread_t th)
  __CPROVER_requires(q == &Q && th == (myth_thread_t)&CELL[0] && g_tp_ok == 0 && "no further attempt after a successful one (the thread would be queued twice)")
  __CPROVER_assigns(g_tp_calls, g_tp_ok)
  __CPROVER_ensures((__CPROVER_return_value == 0 || __CPROVER_return_value == 1) && g_tp_ok == __CPROVER_return_value && g_tp_calls == 1);
void h_pass(void) {
  g_tp_calls = 0; g_tp_ok = 0;
  myth_queue_pass(&Q, (myth_thread_t)&CELL[0]);
  __CPROVER_assert(g_tp_ok == 1 && g_tp_calls == 1, "pass: returns only after exactly one successful trypass of that thread");
  VERIF_CANARY();
}
