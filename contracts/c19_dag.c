/* C19 (c), (d) -- well-formedness of the dumped / converted DAG and the chronological replay, on concrete DAG states
 * (DESIGN §4 C19).  Everything here is BOUNDED (kind="bounded"): one concrete position-independent DAG.
 *
 * Functions under contract (real, unmodified bodies):
 *   dr_pi_dag_enum_edges, dr_pi_dag_count_edges_uncollapsed, dr_pi_dag_add_edge, dr_pi_dag_node_first / _last,
 *   dr_pi_dag_sort_edges (edge_cmp), dr_pi_dag_set_edge_ptrs                              (src/profiler/dr_dump.c)
 *   dr_copy_pi_dag, dr_pi_dag_copy_and_prune_nodes, dr_pi_dag_get_logical_node_counts,
 *   dr_string_table_init / _find / _append / _intern / _flatten / _destroy                  (src/profiler/dr_dump.c)
 *   dr_pi_dag_chronological_traverse and the event queue (dr_event_queue_*)                (src/profiler/chronological.c)
 *   dr_make_pi_dag, dr_pi_dag_enum_nodes, dr_dag_count_nodes, dr_copy_dag_node_1, dr_copy_children_nodes (dr_dump.c) and
 *   the dr_dag_node_stack of dag_recorder_impl.h                                            (h_make, at the end of this file)
 *
 * The DAG (the one of c18_dump.c: the layout dr_pi_dag_enum_nodes produces, relative offsets), with a concrete serial
 * schedule [start, end] of the leaves:
 *
 *   T[0] root task -> T[1] section A -> T[5] create [0,1] (-> c1 [1,2]), T[6] other [2,3], T[7] create [3,4] (-> c2 [4,5]), T[8] wait [5,6]
 *                     T[2] other [6,7]
 *                     T[3] section B -> T[9] create [7,8] (-> c3 [8,9]), T[10] wait [9,10]
 *                     T[4] end [10,11]
 *
 * in the four contraction states of A and B at record time (DAG_SCEN bit 0: A contracted, bit 1: B contracted).  All
 * other summaries (work, critical path, counters, counts of the created tasks ...) are nondeterministic.
 *
 * h_wf_replay:  enum_edges + sort + set_edge_ptrs, then
 *   (c) every emitted edge has 0 <= u, v < n; every child / subgraph offset of the state points inside [0, n) and forward;
 *   (b) E is sorted by source and [edges_begin, edges_end) of every node is exactly its out-edges (checked for all nodes
 *       and all edges of the concrete state; the general statement is c19_edges.c);
 *   (d) dr_pi_dag_chronological_traverse delivers, for every leaf, exactly one ready, start, last_start and end event, in
 *       this order and in non-decreasing time; none for inner nodes; at the end nothing is ready or running.
 * h_copy:  dr_copy_pi_dag with three conversion-time contraction settings (COPY_SCEN), then the same (c) and (b)
 *   obligations on the converted DAG, plus "shrinking preserves the totals": the root summary of the copy (t_1, t_inf,
 *   interval counts, edge counts) is the root summary of the original, the expected number of nodes remains, every node
 *   of the copy is one node of the original, and its start / end file indices lie inside the NEW string table and name the
 *   same strings as in the original (three names; the first one occurs only in nodes that settings 1 and 2 prune).
 *
 * h_make:  the recorder-side flattening dr_make_pi_dag on the pointer-based DAG of the same shape and state, then the same
 *   (c) and (b) obligations on its result: the offsets are the ones the REAL dr_pi_dag_enum_nodes produces.
 *
 * libc: qsort is TRUSTED (a stub that sorts with the comparator it is given); malloc serves each request from a typed
 * static pool in the order planned by the harness (a request that does not fit is an obligation failure); free is a no-op.
 */
#include "verif_common.h"
#include "dr_dump.c"                            /* the real code */
#include "chronological.c"                      /* the real code */

dr_global_state GS;

void verif_exit(int c) {
  __CPROVER_assert(0, "a dr_check of the recorder fails (exit(1))");
  __CPROVER_assume(0);
}

/* ------------------------------------------------------------------ libc stubs */
#define NMAX 14
#define MMAX 24
dr_pi_dag_edge EDGE_POOL[MMAX], EDGE_POOL2[MMAX];
dr_pi_dag_node NODE_POOL2[NMAX];
long MAP_POOL[NMAX];
dr_string_table_cell CELL_POOL[4];
typedef struct { dr_pi_string_table h; long I[2]; char C[8]; } flat2_t;      /* a flattened table of two 3-character names */
typedef struct { dr_pi_string_table h; long I[3]; char C[12]; } flat3_t;     /* ... of three */
#define FLAT3_BYTES (sizeof(dr_pi_string_table) + 3 * sizeof(long) + 12)    /* what flatten asks for (sizeof(flat3_t) has 4 bytes of padding) */
flat2_t S_OUT;
flat3_t S_IN, S_OUT3;
dr_event_queue Q_POOL;
dr_event EV_POOL[100];
int RC_POOL[NMAX];
char ZERO_OBJ;

enum { P_EDGE, P_EDGE2, P_MAP, P_NODE2, P_CELL, P_STR, P_QUEUE, P_EVENTS, P_RC };
int g_plan[8], g_plan_n, g_mallocs, g_cells;

void * verif_malloc_plan(size_t sz) {
  if (sz == 0) return &ZERO_OBJ;
  __CPROVER_assert(g_mallocs < g_plan_n, "bounded model of malloc: no request beyond the planned ones");
  __CPROVER_assume(g_mallocs < g_plan_n);
  int k = g_plan[g_mallocs++];
  switch (k) {
  case P_EDGE:   __CPROVER_assert(sz <= sizeof(EDGE_POOL) && sz % sizeof(dr_pi_dag_edge) == 0, "bounded model of malloc: edge array"); return EDGE_POOL;
  case P_EDGE2:  __CPROVER_assert(sz <= sizeof(EDGE_POOL2) && sz % sizeof(dr_pi_dag_edge) == 0, "bounded model of malloc: edge array of the copy"); return EDGE_POOL2;
  case P_MAP:    __CPROVER_assert(sz <= sizeof(MAP_POOL), "bounded model of malloc: index map"); return MAP_POOL;
  case P_NODE2:  __CPROVER_assert(sz <= sizeof(NODE_POOL2) && sz % sizeof(dr_pi_dag_node) == 0, "bounded model of malloc: node array of the copy"); return NODE_POOL2;
  case P_CELL:   __CPROVER_assert(sz == sizeof(dr_string_table_cell) && g_cells < 4, "bounded model of malloc: string table cell"); return &CELL_POOL[g_cells++];
  case P_STR:    __CPROVER_assert(sz == sizeof(S_OUT) || sz == FLAT3_BYTES, "bounded model of malloc: flattened string table of two or three 3-character names");
                 if (sz == sizeof(S_OUT)) return &S_OUT; return &S_OUT3;
  case P_QUEUE:  __CPROVER_assert(sz == sizeof(Q_POOL), "bounded model of malloc: event queue"); return &Q_POOL;
  case P_EVENTS: __CPROVER_assert(sz <= sizeof(EV_POOL), "bounded model of malloc: event array"); return EV_POOL;
  default:       __CPROVER_assert(k == P_RC && sz <= sizeof(RC_POOL), "bounded model of malloc: ready counters"); return RC_POOL;
  }
}
void verif_free(void * p) { }

/* libc memset (--replace-calls memset:verif_memset): the two uses in the code under contract clear a fresh edge and the fresh
   node array.  Typed assignments instead of CBMC's byte-wise model keep the concrete arrays concrete for the symbolic execution */
void * verif_memset(void * s, int c, size_t n) {
  if (n == sizeof(dr_pi_dag_edge)) { __CPROVER_assert(c == 0, "model of memset: clears one edge"); dr_pi_dag_edge z = {0}; *(dr_pi_dag_edge *)s = z; return s; }
  __CPROVER_assert(s == NODE_POOL2 && c == 0 && n % sizeof(dr_pi_dag_node) == 0 && n <= sizeof(NODE_POOL2), "model of memset: clears one edge, or the fresh node array");
  dr_pi_dag_node zn = {0};
  for (int i = 0; i < NMAX; i++) if ((size_t)i < n / sizeof(dr_pi_dag_node)) NODE_POOL2[i] = zn;
  return s;
}

/* libc qsort: TRUSTED.  Model: insertion sort of an array of edges with the comparator given */
void verif_qsort(void * base, size_t nmemb, size_t size, int (*cmp)(const void *, const void *)) {
  __CPROVER_assert(size == sizeof(dr_pi_dag_edge) && nmemb <= MMAX, "model of qsort: an array of at most 24 edges");
  dr_pi_dag_edge * a = (dr_pi_dag_edge *)base;
  for (long i = 1; i < (long)nmemb; i++) {
    dr_pi_dag_edge x = a[i];
    long j = i;
    while (j > 0 && cmp(&a[j - 1], &x) > 0) { a[j] = a[j - 1]; j--; }
    a[j] = x;
  }
}

dr_pi_dag_node nondet_pi_node(void);

/* ------------------------------------------------------------------ the DAG states */
#ifndef DAG_SCEN
#define DAG_SCEN 0
#endif
#define A_CONTRACTED ((DAG_SCEN) & 1)
#define B_CONTRACTED (((DAG_SCEN) >> 1) & 1)

dr_pi_dag G;
dr_pi_dag_node T[NMAX];
static int g_next;                      /* next free slot of T */

static int put(int kind, int in_edge, long t0, long t1, long last_start, int worker, int sfile, int efile) {
  int i = g_next++;
  T[i] = nondet_pi_node();
  T[i].info.kind = (dr_dag_node_kind_t)kind; T[i].info.in_edge_kind = (dr_dag_edge_kind_t)in_edge;
  T[i].info.worker = worker;
  T[i].info.start.t = t0; T[i].info.end.t = t1; T[i].info.last_start_t = last_start;
  T[i].info.start.pos.file = 0; T[i].info.end.pos.file = 0;               /* as dr_copy_dag_node_1 leaves them */
  T[i].info.start.pos.file_idx = sfile; T[i].info.end.pos.file_idx = efile;
  for (int k = 0; k < dr_dag_node_kind_section; k++) {
    long c = nondet_long(); __CPROVER_assume(0 <= c && c < (1L << 40)); T[i].info.logical_node_counts[k] = c;
  }
  T[i].edges_begin = 0; T[i].edges_end = 0;
  T[i].subgraphs_begin_offset = 0; T[i].subgraphs_end_offset = 0;        /* no materialised children */
  return i;
}
static void children(int i, int first, int n) {
  T[i].subgraphs_begin_offset = first - i; T[i].subgraphs_end_offset = first + n - i;
}
/* how a task is resumed after a wait: all children done (wait_cont), or by the last child (end).  Concrete per state
   (a nondeterministic kind makes the edge array symbolic for CBMC's symbolic execution and every later loop explode):
   after section A: wait_cont in states 0 and 3, end in states 1 and 2; after section B the other way round */
static int resume_kind(int after_b) {
  int by_child = (((DAG_SCEN) == 1 || (DAG_SCEN) == 2) ? 1 : 0) ^ after_b;
  return by_child ? dr_dag_edge_kind_end : dr_dag_edge_kind_wait_cont;
}
/* file names (indices into the string table of the original, h_copy): "a.c" = 0 occurs ONLY in the three nodes below
   section B, which the conversion settings 1 and 2 prune -- so every later name moves to a smaller index in the table of
   the copy; "b.c" = 1 and "c.c" = 2 elsewhere, most nodes starting and ending in the same file, some not */
static void build_dag(void) {
  g_next = 0;
  int u = put(dr_dag_node_kind_task, dr_dag_edge_kind_create, 0, 11, 10, -1, 1, 2);
  int a = put(dr_dag_node_kind_section, dr_dag_edge_kind_create, 0, 6, 5, A_CONTRACTED ? 0 : -1, 1, 1);
  int o = put(dr_dag_node_kind_other, resume_kind(0), 6, 7, 6, 0, 2, 2);
  int b = put(dr_dag_node_kind_section, dr_dag_edge_kind_other_cont, 7, 10, 9, 0, 2, 2);      /* B ran on one worker, A on two */
  int e = put(dr_dag_node_kind_end_task, resume_kind(1), 10, 11, 10, 0, 2, 1);
  children(u, a, 4);
  (void)o; (void)e;
  if (!A_CONTRACTED) {
    int y1 = put(dr_dag_node_kind_create_task, dr_dag_edge_kind_create, 0, 1, 0, 0, 1, 1);
    put(dr_dag_node_kind_other, dr_dag_edge_kind_create_cont, 2, 3, 2, 0, 2, 2);
    int y2 = put(dr_dag_node_kind_create_task, dr_dag_edge_kind_other_cont, 3, 4, 3, 0, 1, 2);
    put(dr_dag_node_kind_wait_tasks, dr_dag_edge_kind_create_cont, 5, 6, 5, 0, 2, 2);
    children(a, y1, 4);
    int c1 = put(dr_dag_node_kind_task, dr_dag_edge_kind_create, 1, 2, 1, 1, 1, 1); T[y1].child_offset = c1 - y1;
    int c2 = put(dr_dag_node_kind_task, dr_dag_edge_kind_create, 4, 5, 4, 1, 2, 2); T[y2].child_offset = c2 - y2;
  }
  if (!B_CONTRACTED) {
    int y3 = put(dr_dag_node_kind_create_task, dr_dag_edge_kind_other_cont, 7, 8, 7, 0, 0, 0);
    put(dr_dag_node_kind_wait_tasks, dr_dag_edge_kind_create_cont, 9, 10, 9, 0, 0, 0);
    children(b, y3, 2);
    int c3 = put(dr_dag_node_kind_task, dr_dag_edge_kind_create, 8, 9, 8, 0, 0, 0); T[y3].child_offset = c3 - y3;
  }
  G.n = g_next; G.T = T; G.m = 0; G.E = 0; G.S = 0; G.num_workers = 2; G.start_clock = 0;
}

static void setup(void) {
  dr_global_state z = {0};
  GS = z;
  GS.opts.chk_level = 1; GS.opts.verbose_level = 0; GS.opts.dbg_level = 0;          /* the recorder's own checks on */
  g_mallocs = 0; g_cells = 0; g_plan_n = 0;
}

/* ------------------------------------------------------------------ the well-formedness clauses of the property,
   for a DAG H with at most NMAX nodes and MMAX edges (loops with constant bounds: the harness is unwound, not the spec) */
static int is_leaf(const dr_pi_dag_node * x) {
  return x->info.kind < dr_dag_node_kind_section || x->subgraphs_begin_offset == x->subgraphs_end_offset;
}
static void check_offsets(const dr_pi_dag * H) {
  __CPROVER_assert(1 <= H->n && H->n <= NMAX, "well-formed: the DAG has a root");
  for (int i = 0; i < NMAX; i++) if (i < H->n) {
    const dr_pi_dag_node * x = &H->T[i];
    if (x->info.kind == dr_dag_node_kind_create_task)
      __CPROVER_assert(x->child_offset > 0 && i + x->child_offset < H->n, "well-formed: a create node's child offset refers to a later node inside the DAG");
    else if (x->info.kind >= dr_dag_node_kind_section)
      __CPROVER_assert((x->subgraphs_begin_offset == x->subgraphs_end_offset && 0 <= x->subgraphs_begin_offset && i + x->subgraphs_begin_offset <= H->n) ||
                       (0 < x->subgraphs_begin_offset && x->subgraphs_begin_offset < x->subgraphs_end_offset && i + x->subgraphs_end_offset <= H->n),
                       "well-formed: a section / task's subgraph range is empty (contracted: begin == end, at most one past the last node) or a range of later nodes inside the DAG");
  }
}
static void check_edges(const dr_pi_dag * H) {
  __CPROVER_assert(0 <= H->m && H->m <= MMAX, "well-formed: edge count");
  for (int j = 0; j < MMAX; j++) if (j < H->m) {
    const dr_pi_dag_edge * e = &H->E[j];
    __CPROVER_assert(0 <= e->u && e->u < H->n && 0 <= e->v && e->v < H->n, "well-formed: both endpoints of every edge are nodes inside the DAG");
    __CPROVER_assert(is_leaf(&H->T[e->u]) && is_leaf(&H->T[e->v]) && e->u != e->v, "well-formed: edges connect distinct leaves");
    __CPROVER_assert(j == 0 || H->E[j - 1].u <= e->u, "well-formed: edges are grouped (sorted) by source node");
    __CPROVER_assert(H->T[e->u].edges_begin <= j && j < H->T[e->u].edges_end, "well-formed: every edge lies in the edge range of its source node");
  }
  long covered = 0;
  for (int i = 0; i < NMAX; i++) if (i < H->n) {
    const dr_pi_dag_node * x = &H->T[i];
    __CPROVER_assert(0 <= x->edges_begin && x->edges_begin <= x->edges_end && x->edges_end <= H->m, "well-formed: 0 <= edges_begin <= edges_end <= m");
    __CPROVER_assert(x->edges_begin == covered, "well-formed: the edge ranges tile E in node order (no foreign edge inside a range)");
    covered = x->edges_end;
  }
  __CPROVER_assert(covered == H->m, "well-formed: the edge ranges cover E");
}

/* file index i2 of table S2 is inside S2 and names the same (3-character) string as index i1 of table S1 */
static void same_name(const dr_pi_string_table * S1, long i1, const dr_pi_string_table * S2, long i2) {
  __CPROVER_assert(0 <= i1 && i1 < S1->n, "file names: the index in the source DAG is inside its string table");
  __CPROVER_assert(0 <= i2 && i2 < S2->n, "file names: every start / end file index of the result is inside the NEW string table");
  __CPROVER_assume(0 <= i1 && i1 < S1->n && 0 <= i2 && i2 < S2->n);
  const char * f1 = S1->C + S1->I[i1]; const char * f2 = S2->C + S2->I[i2];
  __CPROVER_assert(f1[0] == f2[0] && f1[1] == f2[1] && f1[2] == f2[2] && f1[3] == 0 && f2[3] == 0,
                   "file names: the index names the same string as in the source DAG");
}

/* ------------------------------------------------------------------ (d) observer of the replay */
typedef struct { chronological_traverser ct; } observer_t;
observer_t OBS;
int g_ev[NMAX][4];                      /* events seen per node and kind */
int g_ready_now, g_running_now, g_order_ok, g_foreign;
dr_clock_t g_last_t;
static void observe(chronological_traverser * pp, dr_event ev) {
  long i = ev.u - G.T;
  if (pp != &OBS.ct || i < 0 || i >= G.n || ev.kind < 0 || ev.kind > dr_event_kind_end) { g_foreign = 1; return; }
  if (ev.t < g_last_t) g_order_ok = 0;                   /* chronological */
  g_last_t = ev.t;
  /* per node: ready, start, last_start, end -- each once, in this order */
  if (g_ev[i][ev.kind] != 0) g_order_ok = 0;
  if (ev.kind > 0 && g_ev[i][ev.kind - 1] != 1) g_order_ok = 0;
  g_ev[i][ev.kind]++;
  if (ev.kind == dr_event_kind_ready) g_ready_now++;
  if (ev.kind == dr_event_kind_start) { g_ready_now--; g_running_now++; }
  if (ev.kind == dr_event_kind_end) g_running_now--;
}

void h_wf_replay(void) {
  setup();
  build_dag();
  g_plan[0] = P_EDGE; g_plan[1] = P_QUEUE; g_plan[2] = P_EVENTS; g_plan[3] = P_RC; g_plan_n = 4;

  dr_pi_dag_enum_edges(&G);
  dr_pi_dag_sort_edges(&G);
  dr_pi_dag_set_edge_ptrs(&G);
  check_offsets(&G);
  check_edges(&G);

  for (int i = 0; i < NMAX; i++) for (int k = 0; k < 4; k++) g_ev[i][k] = 0;
  g_ready_now = 0; g_running_now = 0; g_order_ok = 1; g_foreign = 0; g_last_t = 0;
  OBS.ct.process_event = observe;
  dr_pi_dag_chronological_traverse(&G, &OBS.ct);

  __CPROVER_assert(!g_foreign, "replay: every event names a node of the DAG");
  for (int i = 0; i < NMAX; i++) if (i < G.n) {
    int leaf = is_leaf(&T[i]);
    __CPROVER_assert(g_ev[i][dr_event_kind_start] == leaf && g_ev[i][dr_event_kind_end] == leaf,
                     "replay: every leaf is started and ended exactly once, inner nodes never");
    __CPROVER_assert(g_ev[i][dr_event_kind_ready] == leaf && g_ev[i][dr_event_kind_last_start] == leaf,
                     "replay: every leaf becomes ready exactly once (every leaf is reachable)");
  }
  __CPROVER_assert(g_order_ok, "replay: events of a node come as ready, start, last_start, end; time never goes back");
  __CPROVER_assert(g_ready_now == 0 && g_running_now == 0, "replay: finishes with nothing ready or running");
  VERIF_CANARY();
}

/* ------------------------------------------------------------------ conversion: dr_copy_pi_dag */
#ifndef COPY_SCEN
#define COPY_SCEN 0
#endif
dr_pi_dag G2;

void h_copy(void) {
  setup();
  build_dag();
  /* the string table of the original: three names (in the states where B was contracted at record time the first one is unused) */
  S_IN.h.n = 3; S_IN.h.sz = FLAT3_BYTES; S_IN.h.I = S_IN.I; S_IN.h.C = S_IN.C;
  S_IN.I[0] = 0; S_IN.I[1] = 4; S_IN.I[2] = 8;
  for (int q = 0; q < 3; q++) { S_IN.C[4 * q] = (char)('a' + q); S_IN.C[4 * q + 1] = '.'; S_IN.C[4 * q + 2] = 'c'; S_IN.C[4 * q + 3] = 0; }
  G.S = &S_IN.h;
  g_plan[0] = P_EDGE; g_plan_n = 1;
  dr_pi_dag_enum_edges(&G);
  dr_pi_dag_sort_edges(&G);
  dr_pi_dag_set_edge_ptrs(&G);

  /* conversion-time contraction (dag2any): */
  long expect_n;
#if COPY_SCEN == 0                       /* nothing further contracted: the copy keeps every node */
  GS.opts.collapse_max_count = 0; GS.opts.uncollapse_min = 0; GS.opts.collapse_max = 0;
  expect_n = G.n;
#elif COPY_SCEN == 1                     /* sections that ran on one worker and are shorter than 1000 clocks are contracted: B goes, A (two workers) stays */
  GS.opts.collapse_max_count = 0; GS.opts.uncollapse_min = 0; GS.opts.collapse_max = 1000;
  expect_n = 5 + (A_CONTRACTED ? 0 : 6);
#else                                    /* span-based: everything shorter than 7 clocks is contracted: A and B go, only the root's children stay */
  GS.opts.collapse_max_count = 0; GS.opts.uncollapse_min = 7; GS.opts.collapse_max = 0;
  expect_n = 5;
#endif
  long expect_names = (COPY_SCEN == 0 && !B_CONTRACTED) ? 3 : 2;     /* "a.c" survives only if the nodes below B do */
  g_plan[1] = P_MAP; g_plan[2] = P_NODE2; g_plan[3] = P_CELL; g_plan[4] = P_CELL;
  if (expect_names == 3) { g_plan[5] = P_CELL; g_plan[6] = P_EDGE2; g_plan[7] = P_STR; g_plan_n = 8; }
  else { g_plan[5] = P_EDGE2; g_plan[6] = P_STR; g_plan_n = 7; }

  dr_copy_pi_dag(&G2, &G);

  check_offsets(&G2);
  check_edges(&G2);
  __CPROVER_assert(G2.n == expect_n && G2.n <= G.n, "conversion: exactly the nodes under contracted sections disappear");
  __CPROVER_assert(G2.num_workers == G.num_workers && G2.start_clock == G.start_clock, "conversion: start clock and number of workers are kept");
  const dr_dag_node_info * r = &G.T[0].info; const dr_dag_node_info * r2 = &G2.T[0].info;
  __CPROVER_assert(r2->t_1 == r->t_1 && r2->t_inf == r->t_inf, "conversion: shrinking preserves work and critical path of the root");
  for (int k = 0; k < dr_dag_node_kind_section; k++)
    __CPROVER_assert(r2->logical_node_counts[k] == r->logical_node_counts[k], "conversion: shrinking preserves the interval counts of the root");
  for (int k = 0; k < dr_dag_edge_kind_max; k++)
    __CPROVER_assert(r2->logical_edge_counts[k] == r->logical_edge_counts[k], "conversion: shrinking preserves the edge counts of the root");
  /* every node of the copy is one node of the original (same kind and interval: unique in this DAG), keeps its work, and
     its start / end file indices lie inside the NEW string table and name the same strings as in the original */
  __CPROVER_assert(G2.S->n == expect_names && G2.S->sz == (long)(sizeof(dr_pi_string_table) + 12 * expect_names),
                   "conversion: the new string table holds exactly the names in use");
  for (int j = 0; j < NMAX; j++) if (j < G2.n) {
    const dr_pi_dag_node * y = &G2.T[j];
    int src = -1, matches = 0;
    for (int i = 0; i < NMAX; i++) if (i < G.n) {
      const dr_pi_dag_node * x = &G.T[i];
      if (x->info.kind == y->info.kind && x->info.start.t == y->info.start.t && x->info.end.t == y->info.end.t) { src = i; matches++; }
    }
    __CPROVER_assert(matches == 1 && src >= j, "conversion: every node of the copy is one node of the original (same kind and interval), order kept");
    __CPROVER_assume(matches == 1 && 0 <= src && src < G.n);
    const dr_pi_dag_node * x = &G.T[src];
    __CPROVER_assert(y->info.t_1 == x->info.t_1 && y->info.t_inf == x->info.t_inf && y->info.worker == x->info.worker && y->info.in_edge_kind == x->info.in_edge_kind,
                     "conversion: a surviving node keeps its work, critical path, worker and in-edge kind");
    same_name(G.S, x->info.start.pos.file_idx, G2.S, y->info.start.pos.file_idx);
    same_name(G.S, x->info.end.pos.file_idx, G2.S, y->info.end.pos.file_idx);
  }
  VERIF_CANARY();
}

/* ------------------------------------------------------------------ recorder side: dr_make_pi_dag (dr_dag_count_nodes,
   dr_pi_dag_enum_nodes, dr_copy_dag_node_1, dr_copy_children_nodes, the dr_dag_node_stack of dag_recorder_impl.h, string
   interning, then enum_edges / sort / set_edge_ptrs / flatten) on the pointer-based DAG of the same shape and state;
   absolute clocks 100..111, start clock 100.  malloc by size here (--replace-calls malloc:verif_malloc_mk): the node
   array, the flattened string table and the edge array are the typed pools, requests of at most 32 bytes (stack cells,
   string cells, arrays of child pointers) are fresh dynamic objects */
dr_dag_node PN[NMAX];
dr_dag_node nondet_dag_node(void);
char FILE_A[4], FILE_B[4];
int g_small;
void * verif_malloc_mk(size_t sz) {
  if (sz == 0) return &ZERO_OBJ;
  if (sz == sizeof(dr_pi_dag_node) * NMAX || (sz % sizeof(dr_pi_dag_node) == 0 && sz <= sizeof(NODE_POOL2))) return NODE_POOL2;
  if (sz == sizeof(S_OUT)) return &S_OUT;
  if (sz <= 32) { g_small++; return __CPROVER_allocate(sz, 0); }
  __CPROVER_assert(sz <= sizeof(EDGE_POOL) && sz % sizeof(dr_pi_dag_edge) == 0, "bounded model of malloc: edge array");
  return EDGE_POOL;
}
static dr_dag_node * pn(int i, int kind, int in_edge, long t0, long t1, int worker, int file) {
  PN[i] = nondet_dag_node();
  PN[i].info.kind = (dr_dag_node_kind_t)kind; PN[i].info.in_edge_kind = (dr_dag_edge_kind_t)in_edge; PN[i].info.worker = worker;
  PN[i].info.start.t = t0; PN[i].info.end.t = t1; PN[i].info.last_start_t = t0; PN[i].info.first_ready_t = t0;
  PN[i].info.start.pos.file = file ? FILE_B : FILE_A; PN[i].info.end.pos.file = file ? FILE_A : FILE_B;
  PN[i].next = 0; PN[i].forward = 0;
  if (kind >= dr_dag_node_kind_section) { PN[i].subgraphs->n = 0; PN[i].subgraphs->head = 0; PN[i].subgraphs->tail = 0; PN[i].parent_section = 0; }
  else PN[i].child = 0;
  return &PN[i];
}
static void kids(dr_dag_node * p, dr_dag_node * first, int n) {
  p->subgraphs->n = n; p->subgraphs->head = first; p->subgraphs->tail = first + (n - 1);
  for (int j = 0; j < 4; j++) if (j + 1 < n) first[j].next = &first[j + 1];
}
void h_make(void) {
  setup();
  FILE_A[0] = 'a'; FILE_A[1] = '.'; FILE_A[2] = 'c'; FILE_A[3] = 0; FILE_B[0] = 'b'; FILE_B[1] = '.'; FILE_B[2] = 'c'; FILE_B[3] = 0;
  GS.worker_specific_state_array = 0; GS.worker_specific_state_list = 0;
  /* pointer-based DAG of the same shape; PN[] in any order (here: the order the recorder allocates is irrelevant) */
  dr_dag_node * u = pn(0, dr_dag_node_kind_task, dr_dag_edge_kind_create, 100, 111, -1, 0);
  dr_dag_node * a = pn(1, dr_dag_node_kind_section, dr_dag_edge_kind_create, 100, 106, -1, 0);
  pn(2, dr_dag_node_kind_other, resume_kind(0), 106, 107, 0, 1);
  dr_dag_node * b = pn(3, dr_dag_node_kind_section, dr_dag_edge_kind_other_cont, 107, 110, 0, 1);
  pn(4, dr_dag_node_kind_end_task, resume_kind(1), 110, 111, 0, 0);
  kids(u, a, 4);
  int nn = 5;
  if (!A_CONTRACTED) {
    dr_dag_node * y1 = pn(5, dr_dag_node_kind_create_task, dr_dag_edge_kind_create, 100, 101, 0, 0);
    pn(6, dr_dag_node_kind_other, dr_dag_edge_kind_create_cont, 102, 103, 0, 1);
    dr_dag_node * y2 = pn(7, dr_dag_node_kind_create_task, dr_dag_edge_kind_other_cont, 103, 104, 0, 0);
    pn(8, dr_dag_node_kind_wait_tasks, dr_dag_edge_kind_create_cont, 105, 106, 0, 1);
    kids(a, y1, 4);
    y1->child = pn(9, dr_dag_node_kind_task, dr_dag_edge_kind_create, 101, 102, 1, 1);
    y2->child = pn(10, dr_dag_node_kind_task, dr_dag_edge_kind_create, 104, 105, 1, 0);
    nn += 6;
  }
  if (!B_CONTRACTED) {
    dr_dag_node * y3 = pn(11, dr_dag_node_kind_create_task, dr_dag_edge_kind_other_cont, 107, 108, 0, 1);
    pn(12, dr_dag_node_kind_wait_tasks, dr_dag_edge_kind_create_cont, 109, 110, 0, 0);
    kids(b, y3, 2);
    y3->child = pn(13, dr_dag_node_kind_task, dr_dag_edge_kind_create, 108, 109, 0, 1);
    nn += 3;
  }
  dr_make_pi_dag(&G2, u, 100);
  __CPROVER_assert(G2.n == nn, "flattening: one position-independent node per node of the recorded DAG");
  __CPROVER_assert(G2.start_clock == 100 && G2.T[0].info.start.t == 0 && G2.T[0].info.end.t == 11, "flattening: times are made relative to the start clock");
  check_offsets(&G2);
  check_edges(&G2);
  __CPROVER_assert(G2.S->n == 2 && G2.S->sz == sizeof(S_OUT), "flattening: the string table holds the two names in use");
  for (int i = 0; i < NMAX; i++) if (i < 5 || (i <= 10 && !A_CONTRACTED) || (i >= 11 && !B_CONTRACTED)) {
    const dr_pi_dag_node * f = PN[i].forward;         /* where the recorder's node went */
    __CPROVER_assert(f >= G2.T && f < G2.T + G2.n && f->info.kind == PN[i].info.kind && f->info.start.t == PN[i].info.start.t - 100,
                     "flattening: every recorded node has its position-independent copy inside T");
    long si = f->info.start.pos.file_idx, ei = f->info.end.pos.file_idx;
    __CPROVER_assert(0 <= si && si < G2.S->n && 0 <= ei && ei < G2.S->n, "file names: every start / end file index of the result is inside the NEW string table");
    __CPROVER_assume(0 <= si && si < G2.S->n && 0 <= ei && ei < G2.S->n);
    const char * fs = G2.S->C + G2.S->I[si]; const char * fe = G2.S->C + G2.S->I[ei];
    __CPROVER_assert(fs[0] == PN[i].info.start.pos.file[0] && fs[1] == '.' && fs[2] == 'c' && fs[3] == 0 &&
                     fe[0] == PN[i].info.end.pos.file[0] && fe[1] == '.' && fe[2] == 'c' && fe[3] == 0,
                     "file names: the index names the string the recorder stored in the node");
  }
  VERIF_CANARY();
}
