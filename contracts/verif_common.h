/* verif_common.h -- shared by all harness translation units (DESIGN §3).
 *
 * A harness TU contains ghosts, contract prototypes, stubs for EXTERNAL functions and a short
 * harness; the functions under contract are the unmodified bodies #included from /repo.
 */
#ifndef VERIF_COMMON_H
#define VERIF_COMMON_H

#ifdef VERIF_NATIVE
/* native replay: contracts compile away, inputs come from -include replay_inputs.h (RP_<name>) */
#include <stdio.h>
#include <stdlib.h>
#define __CPROVER_requires(x)
#define __CPROVER_ensures(x)
#define __CPROVER_assigns(...)
#define __CPROVER_assume(x) do { if (!(x)) { printf("REPLAY-ASSUME-VIOLATED %s\n", #x); exit(3); } } while (0)
#define __CPROVER_assert(x, msg) do { if (!(x)) { printf("REPLAY-OBLIGATION-FAILED %s\n", msg); verif_failed = 1; } } while (0)
static int verif_failed;
#define VERIF_CANARY() do { printf(verif_failed ? "REPLAY-RESULT failed\n" : "REPLAY-RESULT passed\n"); } while (0)
#else
#define VERIF_CANARY() __CPROVER_assert(0, "CANARY reachable (must fail: the harness is not vacuous)")
#endif

/* nondeterministic scalars (CBMC: undefined functions returning nondet) */
#ifndef VERIF_NATIVE
long nondet_long(void);
int nondet_int(void);
unsigned nondet_unsigned(void);
unsigned long nondet_ulong(void);
_Bool nondet_bool(void);
char nondet_char(void);
unsigned char nondet_uchar(void);
#endif

#endif
