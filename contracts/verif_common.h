/* verif_common.h -- shared by all harness translation units (DESIGN §3).
 *
 * A harness TU contains ghosts, contract prototypes, stubs for EXTERNAL functions and a short
 * harness; the functions under contract are the unmodified bodies #included from /repo.
 */
#ifndef VERIF_COMMON_H
#define VERIF_COMMON_H

#ifdef VERIF_NATIVE
#include "verif_native.h"
#else
#define VERIF_CANARY() __CPROVER_assert(0, "CANARY reachable (must fail: the harness is not vacuous)")
#endif

/* nondeterministic scalars (CBMC: undefined functions returning nondet) */
#ifndef VERIF_NATIVE
long nondet_long(void);
int nondet_int(void);
unsigned nondet_unsigned(void);
unsigned long nondet_ulong(void);
_Bool nondet_bool(void);
char nondet_char(void);
unsigned char nondet_uchar(void);
#endif

#endif
