/* verif_ctx.h -- context switches (DESIGN §3.4).  Include BEFORE any other header of /repo.
 *
 * The four switch primitives are inline-asm macros (myth_*_context*_i).  CBMC drops asm bodies, so they are
 * replaced here by their control-flow meaning; what the asm really does with registers and stacks is C03's subject.
 *   swap_withcall(from,to,f,a1,a2,a3): save `from`; call f(a1,a2,a3) [on the next context's stack]; continue in `to`;
 *                                      the caller resumes later, when somebody switches back to `from`
 *                                      = verif_suspend_resume(from,to): an environment step over everything shared.
 *   set_withcall(to,f,a1,a2,a3):       no save; call f; continue in `to`; never returns (path ends).
 * Ghosts: g_ctx_saved (the context whose save has completed), g_switch_to (target of the one switch), g_switch_count.
 * The callbacks f are the real MYTH_CTX_CALLBACK functions.
 */
#ifndef VERIF_CTX_H
#define VERIF_CTX_H
#include "myth_config.h"
#include "myth_context.h"
#include "myth_context_func.h"

myth_context_t g_ctx_saved;        /* context saved by the switch in progress (0: none) */
myth_context_t g_switch_to;        /* where the switch went */
int g_switch_count;                /* number of switches performed by the code under proof (flag-like: 0,1,2=too many) */
int g_in_callback;                 /* 1 while the post-switch callback runs */
int g_jumped;                      /* a set_context (no return) happened */

/* unit hook: obligations that must hold at the instant the context is saved (defined by the unit, or left without a body) */
#ifdef VERIF_HAS_ON_SAVE
void verif_on_save(myth_context_t from);
#else
static inline void verif_on_save(myth_context_t from) { (void)from; }
#endif
static inline void verif_ctx_save(myth_context_t from) { verif_on_save(from); g_ctx_saved = from; }
static inline void verif_count_switch(myth_context_t to) { g_switch_to = to; if (g_switch_count < 2) g_switch_count++; }
/* the suspended thread is resumed arbitrarily later, on any worker: contract supplied by the unit
   (--replace-call-with-contract verif_suspend_resume/<unit's contract>) */
void verif_suspend_resume(myth_context_t from, myth_context_t to);

#undef  myth_swap_context_withcall_i
#define myth_swap_context_withcall_i(from,to,fn,a1,a2,a3) { \
    verif_ctx_save(from); verif_count_switch(to); \
    g_in_callback = 1; fn((void *)(a1), (void *)(a2), (void *)(a3)); g_in_callback = 0; \
    verif_suspend_resume(from, to); g_ctx_saved = 0; }
#undef  myth_swap_context_i
#define myth_swap_context_i(from,to) { verif_ctx_save(from); verif_count_switch(to); verif_suspend_resume(from, to); g_ctx_saved = 0; }
#undef  myth_set_context_withcall_i
#define myth_set_context_withcall_i(to,fn,a1,a2,a3) { \
    verif_count_switch(to); g_jumped = 1; \
    g_in_callback = 1; fn((void *)(a1), (void *)(a2), (void *)(a3)); g_in_callback = 0; \
    verif_after_jump(); __CPROVER_assume(0); }
#undef  myth_set_context_i
#define myth_set_context_i(to) { verif_count_switch(to); g_jumped = 1; verif_after_jump(); __CPROVER_assume(0); }
/* harness hook: the obligations of a path that ends in a jump are asserted here (the path never returns) */
void verif_after_jump(void);
#endif
