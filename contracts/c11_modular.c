/* C11 -- modular (inductive) proof of the destructor walk and the node release (DESIGN §4 C11, round 1 rework).
 *
 * myth_tls_call_destructors_rec and myth_tls_tree_destroy_rec are recursive; they are verified with
 * --enforce-contract-rec: the real body is checked against the contract below for an ARBITRARY level
 * (depth 0..3, any base/stride of that level) with the recursive calls replaced by the same contract.
 * No recursive memory predicate is needed: the contract of level d only looks one pointer down
 * (n->children[i*] must be the next node of the witness path).
 *
 * Ghosts: g_k witness key; g_path[0..3] the nodes on g_k's path (NULL from the level where the thread never
 * created the node); g_val the value the thread holds under g_k; g_has_d whether key g_k has a destructor.
 */
#include "verif_common.h"
#include "myth_tls_func.h"

typedef struct { int type; myth_tls_entry_t entries[myth_tls_tree_node_n_entries_in_leaf]; } verif_leaf_t;

myth_tls_tree_node_t NODES[7];           /* internal nodes available to a harness */
verif_leaf_t LEAVES[6];                  /* leaf nodes available to a harness */
myth_tls_key_allocator_t KA;
myth_tls_tree_t T;
char VALCELL[2];

int   g_k;
myth_tls_tree_node_t * g_path[4];
void * g_val;
_Bool g_has_d;
int   g_watch_calls, g_watch_bad_arg, g_other_got_watched;

static void D_watch(void * v) {
  g_watch_calls++;
  if (v != g_val) g_watch_bad_arg++;
}
static void D_other(void * v) {
  if (v != 0 && v == g_val) g_other_got_watched++;
}

#define NK        myth_tls_n_keys
#define STRIDE(d) (NK >> (myth_tls_tree_node_log_n_children * (d)))
#define INRANGE(base, stride) ((base) <= g_k && g_k < (base) + (stride))
#define CIDX(d)   ((g_k >> (myth_tls_tree_node_log_n_entries_in_leaf + myth_tls_tree_node_log_n_children * (myth_tls_tree_depth - 1 - (d)))) & (myth_tls_tree_node_n_children - 1))
#define LEVEL_OK(depth, base, stride) \
  (0 <= (depth) && (depth) <= myth_tls_tree_depth && (stride) == STRIDE(depth) && 0 <= (base) && (base) % (stride) == 0 && (base) + (stride) <= NK)
/* what the node handed to the walk must look like when it is responsible for g_k */
#define PATH_OK(n, depth) \
  ((n) == g_path[depth] && \
   ((depth) < myth_tls_tree_depth ? (n)->children[CIDX(depth)] == g_path[(depth) + 1] \
                                  : (n)->entries[g_k & (myth_tls_tree_node_n_entries_in_leaf - 1)].value == g_val))
#define EXPECT_CALL (g_path[3] != 0 && g_has_d)

/* ------------------------------------------------------------------ destructor walk */
int destructors_rec_contract(myth_tls_tree_node_t * n, int depth, myth_key_t base, myth_key_t stride,
                             myth_tls_key_allocator_t * ka)
  __CPROVER_requires(ka == &KA && n != 0 && LEVEL_OK(depth, base, stride))
  __CPROVER_requires(INRANGE(base, stride) ==> PATH_OK(n, depth))
  __CPROVER_requires(0 <= g_watch_calls && g_watch_calls <= 1)
  __CPROVER_assigns(g_watch_calls, g_watch_bad_arg, g_other_got_watched, __CPROVER_object_whole(LEAVES))
  /* exactly one call when the thread holds a non-NULL value under g_k in this subtree; for a NULL value a call
     (with NULL) is tolerated, not demanded; never a call from a subtree that is not responsible for g_k */
  __CPROVER_ensures((INRANGE(base, stride) && EXPECT_CALL && g_val != 0) ==> g_watch_calls == __CPROVER_old(g_watch_calls) + 1)
  __CPROVER_ensures(!(INRANGE(base, stride) && EXPECT_CALL) ==> g_watch_calls == __CPROVER_old(g_watch_calls))
  __CPROVER_ensures(g_watch_calls == __CPROVER_old(g_watch_calls) || g_watch_calls == __CPROVER_old(g_watch_calls) + 1)
  __CPROVER_ensures(g_watch_bad_arg == __CPROVER_old(g_watch_bad_arg) && g_other_got_watched == __CPROVER_old(g_other_got_watched))
  __CPROVER_ensures(0 <= __CPROVER_return_value && __CPROVER_return_value <= stride);   /* number of destructor calls made */

/* ------------------------------------------------------------------ node release */
void * g_wn; int g_wn_depth; int g_wn_frees;      /* witness node (the path node of level g_wn_depth) */
void real_free(void * p) { if (p == g_wn) g_wn_frees++; }

int destroy_rec_contract(myth_tls_tree_t * t, myth_tls_tree_node_t * n, int depth, myth_key_t base, myth_key_t stride)
  __CPROVER_requires(t == &T && n != 0 && LEVEL_OK(depth, base, stride))
  __CPROVER_requires(INRANGE(base, stride) ==> (n == g_path[depth] && (depth < myth_tls_tree_depth ==> n->children[CIDX(depth)] == g_path[depth + 1])))
  __CPROVER_requires(!INRANGE(base, stride) ==> n != g_wn)
  __CPROVER_requires(0 <= g_wn_frees && g_wn_frees <= 1)
  __CPROVER_assigns(g_wn_frees)
  /* the witness node g_wn = g_path[g_wn_depth] is released exactly once by the call responsible for its range,
     provided it lies at or below this level */
  __CPROVER_ensures(g_wn_frees == __CPROVER_old(g_wn_frees) + ((INRANGE(base, stride) && g_wn_depth >= depth && g_wn != 0) ? 1 : 0));

/* ------------------------------------------------------------------ harness memory: one node of an arbitrary
   level with its (up to) four children, the witness path threaded through it */
static myth_tls_tree_node_t * setup_level(int depth, myth_key_t base) {
  int i;
  myth_tls_tree_node_t * n;
  g_k = nondet_int(); __CPROVER_assume(0 <= g_k && g_k < NK);
  g_has_d = nondet_bool();
  g_val = nondet_bool() ? (void *)&VALCELL[0] : 0;
  for (i = 0; i < NK; i++) KA.keys[i].destructor = nondet_bool() ? D_other : 0;
  KA.keys[g_k].destructor = g_has_d ? D_watch : 0;
  g_path[0] = g_path[1] = g_path[2] = g_path[3] = 0;
  if (depth < myth_tls_tree_depth) {
    n = &NODES[0];
    n->type = myth_tls_tree_node_type_internal;
    for (i = 0; i < myth_tls_tree_node_n_children; i++) {
      _Bool present = nondet_bool();
      if (depth + 1 < myth_tls_tree_depth) {
        NODES[1 + i].type = myth_tls_tree_node_type_internal;
        n->children[i] = present ? &NODES[1 + i] : 0;
        int j;
        for (j = 0; j < myth_tls_tree_node_n_children; j++)    /* grandchildren: some object or NULL */
          NODES[1 + i].children[j] = nondet_bool() ? (depth + 2 < myth_tls_tree_depth ? &NODES[5] : (myth_tls_tree_node_t *)&LEAVES[4]) : 0;
      } else {
        LEAVES[i].type = myth_tls_tree_node_type_leaf;
        n->children[i] = present ? (myth_tls_tree_node_t *)&LEAVES[i] : 0;
        int j;
        for (j = 0; j < myth_tls_tree_node_n_entries_in_leaf; j++) LEAVES[i].entries[j].value = nondet_bool() ? (void *)&VALCELL[1] : 0;
      }
    }
  } else {
    n = (myth_tls_tree_node_t *)&LEAVES[0];
    LEAVES[0].type = myth_tls_tree_node_type_leaf;
    for (i = 0; i < myth_tls_tree_node_n_entries_in_leaf; i++) LEAVES[0].entries[i].value = nondet_bool() ? (void *)&VALCELL[1] : 0;
  }
  /* thread the witness path through this node when it is responsible for g_k */
  if (INRANGE(base, STRIDE(depth))) {
    int d;
    for (d = 0; d <= myth_tls_tree_depth && d <= depth; d++) g_path[d] = (d == depth) ? n : &NODES[6];      /* ancestors: some non-NULL node */
    if (depth < myth_tls_tree_depth) {
      myth_tls_tree_node_t * c = n->children[CIDX(depth)];
      g_path[depth + 1] = c;
      if (c && depth + 1 < myth_tls_tree_depth) {
        myth_tls_tree_node_t * gc = c->children[CIDX(depth + 1)];
        g_path[depth + 2] = gc;
        if (gc && depth + 2 < myth_tls_tree_depth) g_path[3] = nondet_bool() ? (myth_tls_tree_node_t *)&LEAVES[4] : 0;
      } else if (c) {
        LEAVES[CIDX(depth)].entries[g_k & 15].value = g_val;      /* c == &LEAVES[CIDX(depth)] */
      }
    } else {
      LEAVES[0].entries[g_k & 15].value = g_val;
    }
  } else {
    /* not responsible: the path lives elsewhere in the tree */
    g_path[0] = nondet_bool() ? &NODES[6] : 0;
    g_path[1] = g_path[0] && nondet_bool() ? &NODES[6] : 0;
    g_path[2] = g_path[1] && nondet_bool() ? &NODES[6] : 0;
    g_path[3] = g_path[2] && nondet_bool() ? (myth_tls_tree_node_t *)&LEAVES[5] : 0;
  }
  g_watch_calls = 0; g_watch_bad_arg = 0; g_other_got_watched = 0;
  return n;
}

void h_destructors_rec(void) {
  int depth = nondet_int(); myth_key_t base = nondet_int();
  __CPROVER_assume(0 <= depth && depth <= myth_tls_tree_depth);
  __CPROVER_assume(0 <= base && base < NK && base % STRIDE(depth) == 0 && base + STRIDE(depth) <= NK);
  myth_tls_tree_node_t * n = setup_level(depth, base);
  myth_tls_call_destructors_rec(n, depth, base, STRIDE(depth), &KA);
  VERIF_CANARY();
}

void h_destroy_rec(void) {
  int depth = nondet_int(); myth_key_t base = nondet_int();
  __CPROVER_assume(0 <= depth && depth <= myth_tls_tree_depth);
  __CPROVER_assume(0 <= base && base < NK && base % STRIDE(depth) == 0 && base + STRIDE(depth) <= NK);
  myth_tls_tree_node_t * n = setup_level(depth, base);
  g_wn_depth = nondet_int(); __CPROVER_assume(0 <= g_wn_depth && g_wn_depth <= myth_tls_tree_depth);
  g_wn = g_path[g_wn_depth];
  g_wn_frees = 0;
  T.pre_alloc_p = T.pre_alloc_buf;
  myth_tls_tree_destroy_rec(&T, n, depth, base, STRIDE(depth));
  VERIF_CANARY();
}

/* top level: myth_tls_tree_fini on a tree whose root is NULL or a node satisfying the level-0 precondition;
   the recursive walks are replaced by the contracts proved above */
void h_fini(void) {
  myth_tls_tree_node_t * n = setup_level(0, 0);
  _Bool has_root = nondet_bool();
  T.root = has_root ? n : 0;
  if (!has_root) { g_path[0] = g_path[1] = g_path[2] = g_path[3] = 0; }
  T.pre_alloc_p = T.pre_alloc_buf;
  g_wn_depth = nondet_int(); __CPROVER_assume(0 <= g_wn_depth && g_wn_depth <= myth_tls_tree_depth);
  g_wn = g_path[g_wn_depth];
  g_wn_frees = 0;
  myth_tls_tree_fini(&T, &KA);
  __CPROVER_assert(!(g_path[3] != 0 && g_val != 0 && g_has_d) || g_watch_calls == 1,
                   "C11: a live key with destructor and non-NULL value gets its destructor called exactly once");
  __CPROVER_assert(g_watch_calls <= 1, "C11: no destructor runs twice for the same key");
  __CPROVER_assert(g_watch_bad_arg == 0, "C11: the destructor of key k is only ever called with the value held under k");
  __CPROVER_assert(g_other_got_watched == 0, "C11: the value of key k is never passed to another key's destructor");
  __CPROVER_assert(g_has_d || g_watch_calls == 0, "C11: no call for a key registered without destructor");
  __CPROVER_assert(g_path[3] != 0 || g_watch_calls == 0, "C11: no call for a key whose leaf the thread never created");
  __CPROVER_assert(g_wn_frees == (g_wn != 0 ? 1 : 0), "C11/C12: every node of the tree is released exactly once");
  VERIF_CANARY();
}

#ifdef VERIF_DEBUG
void h_debug(void) {
  int depth = nondet_int(); myth_key_t base = nondet_int();
  __CPROVER_assume(0 <= depth && depth < myth_tls_tree_depth);
  __CPROVER_assume(0 <= base && base < NK && base % STRIDE(depth) == 0 && base + STRIDE(depth) <= NK);
  myth_tls_tree_node_t * n = setup_level(depth, base);
  if (INRANGE(base, STRIDE(depth))) {
    myth_tls_tree_node_t * c = n->children[CIDX(depth)];
    __CPROVER_assert(PATH_OK(n, depth), "dbg: PATH_OK(n)");
    __CPROVER_assert(n == g_path[depth], "dbg: n == g_path[depth]");
    __CPROVER_assert(n->children[CIDX(depth)] == g_path[depth + 1], "dbg: child eq");
    __CPROVER_assert(c == g_path[depth + 1], "dbg: c eq");
    if (c) {
      __CPROVER_assert(c == g_path[depth + 1], "dbg: c is path");
      int d1 = depth + 1;
      __CPROVER_assert(PATH_OK(c, d1), "dbg: PATH_OK(c)");
    }
  }
}
#endif
