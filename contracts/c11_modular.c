/* C11 -- modular (inductive) proof of the destructor walk and the node release (DESIGN §4 C11, round 1 rework).
 *
 * myth_tls_call_destructors_rec and myth_tls_tree_destroy_rec are recursive; they are verified with
 * --enforce-contract-rec: the real body is checked against the contract below for an ARBITRARY level
 * (depth 0..3, any base/stride of that level) with the recursive calls replaced by the same contract.
 * No recursive memory predicate is needed: the contract of level d only looks one pointer down
 * (n->children[i*] must be the next node of the witness path).
 *
 * Ghosts: g_k witness key; g_path[0..3] the nodes on g_k's path (NULL from the level where the thread never
 * created the node); g_val the value the thread holds under g_k; g_has_d whether key g_k has a destructor.
 */
#include "verif_common.h"
#include "myth_tls_func.h"

/* a leaf is myth_tls_tree_node_sz_leaf raw bytes accessed through myth_tls_tree_node_t (entries[] used beyond its
   declared bound of 1, as the library does on malloc'ed / pool memory); a typed look-alike struct is NOT equivalent
   for CBMC (reads of entries[4..15] through the node type returned garbage) */
typedef struct { long raw[(myth_tls_tree_node_sz_leaf + 7) / 8]; } verif_leaf_t;
#define LEAFN(p) ((myth_tls_tree_node_t *)(p))
#define LEAVES_N 6
void * LEAFP[LEAVES_N];               /* malloc'ed untyped in the harness, exactly like the library's own leaves */
#define LEAVES(i) (LEAFP[i])
/* accessors taking the node through a pointer variable, like the library does (a constant address folded into the
   access makes CBMC apply the declared bound entries[1]) */
static void leaf_set(myth_tls_tree_node_t * p, int j, void * v) { p->entries[j].value = v; }
static void leaf_type(myth_tls_tree_node_t * p) { p->type = myth_tls_tree_node_type_leaf; }

myth_tls_tree_node_t NODES[7];           /* internal nodes available to a harness */
myth_tls_key_allocator_t KA;
myth_tls_tree_t T;
char VALCELL[2];

int   g_k;
myth_tls_tree_node_t * g_path[4];
void * g_val;
_Bool g_has_d;
int   g_watch_calls, g_watch_bad_arg, g_other_got_watched;
void * g_leaf;                   /* the leaf of g_k seen with its real layout (NULL: the thread never created it) */

static void D_watch(void * v);            /* defined below (needs the leaf accessors) */
static void D_other(void * v) {
  if (v != 0 && v == g_val) g_other_got_watched++;
}

#define NK        myth_tls_n_keys
#define STRIDE(d) (NK >> (myth_tls_tree_node_log_n_children * (d)))
#define INRANGE(base, stride) ((base) <= g_k && g_k < (base) + (stride))
#define CIDX(d)   ((g_k >> (myth_tls_tree_node_log_n_entries_in_leaf + myth_tls_tree_node_log_n_children * (myth_tls_tree_depth - 1 - (d)))) & (myth_tls_tree_node_n_children - 1))
#define LEVEL_OK(depth, base, stride) \
  (0 <= (depth) && (depth) <= myth_tls_tree_depth && (stride) == STRIDE(depth) && 0 <= (base) && (base) % (stride) == 0 && (base) + (stride) <= NK)
/* CBMC 6.11 under --dfcc mis-reads `p->children[symbolic]` / `p->entries[symbolic]` (anonymous-union member through a
   pointer with a symbolic index yields the bytes at struct offset 0; reproduced in 25 lines, see DESIGN §7).
   The specification therefore only ever indexes these arrays with constants: */
#define CHILD_AT(n, i) ((i) == 0 ? (n)->children[0] : (i) == 1 ? (n)->children[1] : (i) == 2 ? (n)->children[2] : (n)->children[3])
#define E_(n, j) (n)->entries[j].value
#define ENTRY_AT(n, i) ((i) == 0 ? E_(n,0) : (i) == 1 ? E_(n,1) : (i) == 2 ? E_(n,2) : (i) == 3 ? E_(n,3) : (i) == 4 ? E_(n,4) : (i) == 5 ? E_(n,5) : \
                        (i) == 6 ? E_(n,6) : (i) == 7 ? E_(n,7) : (i) == 8 ? E_(n,8) : (i) == 9 ? E_(n,9) : (i) == 10 ? E_(n,10) : (i) == 11 ? E_(n,11) : \
                        (i) == 12 ? E_(n,12) : (i) == 13 ? E_(n,13) : (i) == 14 ? E_(n,14) : E_(n,15))
/* what the node handed to the walk must look like when it is responsible for g_k */
#define PATH_OK(n, depth) \
  ((n) == g_path[depth] && \
   ((depth) < myth_tls_tree_depth ? CHILD_AT(n, CIDX(depth)) == g_path[(depth) + 1] \
                                  : ((void *)(n) == (void *)g_leaf && ENTRY_AT(LEAFN(g_leaf), g_k & (myth_tls_tree_node_n_entries_in_leaf - 1)) == g_val)))
#define EXPECT_CALL (g_path[3] != 0 && g_has_d)

/* ------------------------------------------------------------------ destructor walk */
int destructors_rec_contract(myth_tls_tree_node_t * n, int depth, myth_key_t base, myth_key_t stride,
                             myth_tls_key_allocator_t * ka)
  __CPROVER_requires(ka == &KA && n != 0 && LEVEL_OK(depth, base, stride))
  __CPROVER_requires(INRANGE(base, stride) ==> PATH_OK(n, depth))
  __CPROVER_requires(0 <= g_watch_calls && g_watch_calls <= 1)
  /* frame: the ghosts, and the leaves of the subtree (a leaf call: exactly its own leaf) */
  __CPROVER_assigns(g_watch_calls, g_watch_bad_arg, g_other_got_watched;
                    depth == myth_tls_tree_depth: __CPROVER_object_upto(n, sizeof(verif_leaf_t));
                    depth < myth_tls_tree_depth: __CPROVER_object_whole(LEAFP[0]), __CPROVER_object_whole(LEAFP[1]), __CPROVER_object_whole(LEAFP[2]),
                                                 __CPROVER_object_whole(LEAFP[3]), __CPROVER_object_whole(LEAFP[4]), __CPROVER_object_whole(LEAFP[5]))
  /* exactly one call when the thread holds a non-NULL value under g_k in this subtree; for a NULL value a call
     (with NULL) is tolerated, not demanded; never a call from a subtree that is not responsible for g_k */
  __CPROVER_ensures((INRANGE(base, stride) && EXPECT_CALL && g_val != 0) ==> g_watch_calls == __CPROVER_old(g_watch_calls) + 1)
  __CPROVER_ensures(!(INRANGE(base, stride) && EXPECT_CALL) ==> g_watch_calls == __CPROVER_old(g_watch_calls))
  __CPROVER_ensures(g_watch_calls == __CPROVER_old(g_watch_calls) || g_watch_calls == __CPROVER_old(g_watch_calls) + 1)
  __CPROVER_ensures(g_watch_bad_arg == __CPROVER_old(g_watch_bad_arg) && g_other_got_watched == __CPROVER_old(g_other_got_watched))
  __CPROVER_ensures(0 <= __CPROVER_return_value && __CPROVER_return_value <= stride);   /* number of destructor calls made */

/* ------------------------------------------------------------------ node release */
void * g_wn; int g_wn_depth; int g_wn_frees;      /* witness node (the path node of level g_wn_depth) */
void real_free(void * p) { if (p == g_wn) g_wn_frees++; }

/* myth_tls_tree_node_free decides "node lies in the descriptor's embedded pool" by comparing the node address with
   the pool bounds.  For a node outside the pool this is a relational comparison of pointers into different
   objects, which CBMC evaluates arbitrarily (probed: a malloc'ed block is "inside" a static buffer in some
   model).  The walk is therefore proved against this contract of node_free (flat address space: distinct
   objects do not overlap -- assumed), and node_free's own body is proved for pool nodes in job c11.node_free.pool */
void node_free_contract(myth_tls_tree_t * t, myth_tls_tree_node_t * n)
  __CPROVER_requires(t == &T && n != 0)
  __CPROVER_assigns(g_wn_frees)
  __CPROVER_ensures(g_wn_frees == __CPROVER_old(g_wn_frees) + (((void *)n == g_wn && !__CPROVER_same_object(n, &T)) ? 1 : 0));

int destroy_rec_contract(myth_tls_tree_t * t, myth_tls_tree_node_t * n, int depth, myth_key_t base, myth_key_t stride)
  __CPROVER_requires(t == &T && n != 0 && LEVEL_OK(depth, base, stride))
  __CPROVER_requires(INRANGE(base, stride) ==> (n == g_path[depth] && (depth < myth_tls_tree_depth ==> CHILD_AT(n, CIDX(depth)) == g_path[depth + 1])))
  __CPROVER_requires(!INRANGE(base, stride) ==> n != g_wn)
  __CPROVER_requires(0 <= g_wn_frees && g_wn_frees <= 1)
  __CPROVER_assigns(g_wn_frees)
  /* the witness node g_wn = g_path[g_wn_depth] is released exactly once by the call responsible for its range,
     provided it lies at or below this level */
  __CPROVER_ensures(g_wn_frees == __CPROVER_old(g_wn_frees) + ((INRANGE(base, stride) && g_wn_depth >= depth && g_wn != 0) ? 1 : 0));

/* ------------------------------------------------------------------ harness memory: one node of level DEPTH with
   its (up to) four children, the witness path threaded through it.  One job per level (-DDEPTH=0..3); the code
   for the other levels is compiled out so that no pointer's value set mixes node and leaf objects (CBMC 6.11
   mis-reads through such pointers, DESIGN §7). */
#ifndef DEPTH
#define DEPTH 0
#endif
/* shadow copy of every child pointer written below, in a plain array: the harness never reads the union arrays
   with a symbolic index (CBMC 6.11 returns stale values for such reads, DESIGN §7) */
myth_tls_tree_node_t * SHC[5][4];
static myth_tls_tree_node_t * setup_level(int depth, myth_key_t base) {
  int i, j;
  myth_tls_tree_node_t * n;
  { myth_tls_tree_node_t z = { 0 }; verif_leaf_t zl = { { 0 } };
    for (i = 0; i < 7; i++) NODES[i] = z;
    for (i = 0; i < LEAVES_N; i++) { LEAFP[i] = malloc(myth_tls_tree_node_sz_leaf); __CPROVER_assume(LEAFP[i] != 0); } }
  g_k = nondet_int(); __CPROVER_assume(0 <= g_k && g_k < NK);
  g_has_d = nondet_bool();
  g_val = nondet_bool() ? (void *)&VALCELL[0] : 0;
  for (i = 0; i < NK; i++) KA.keys[i].destructor = nondet_bool() ? D_other : 0;
  KA.keys[g_k].destructor = g_has_d ? D_watch : 0;
  g_path[0] = g_path[1] = g_path[2] = g_path[3] = 0; g_leaf = 0;
#if DEPTH < 3
  n = &NODES[0];
  n->type = myth_tls_tree_node_type_internal;
  for (i = 0; i < myth_tls_tree_node_n_children; i++) {
    _Bool present = nondet_bool();
#if DEPTH + 1 < 3
    NODES[1 + i].type = myth_tls_tree_node_type_internal;
    n->children[i] = present ? &NODES[1 + i] : 0; SHC[0][i] = n->children[i];
    for (j = 0; j < myth_tls_tree_node_n_children; j++) {  /* grandchildren: some node (or leaf, seen only as an address) or NULL */
      myth_tls_tree_node_t * g = nondet_bool() ? &NODES[5] : 0;
      NODES[1 + i].children[j] = g; SHC[1 + i][j] = g;
    }
#else
    leaf_type(LEAFN(LEAFP[i]));
    n->children[i] = present ? LEAFN(LEAFP[i]) : 0; SHC[0][i] = n->children[i];
    for (j = 0; j < myth_tls_tree_node_n_entries_in_leaf; j++) leaf_set(LEAFN(LEAFP[i]), j, nondet_bool() ? (void *)&VALCELL[1] : 0);
#endif
  }
#else
  n = LEAFN(LEAFP[0]);
  leaf_type(n);
  for (i = 0; i < myth_tls_tree_node_n_entries_in_leaf; i++) leaf_set(n, i, nondet_bool() ? (void *)&VALCELL[1] : 0);
#endif
  /* thread the witness path through this node when it is responsible for g_k */
  if (INRANGE(base, STRIDE(depth))) {
    int d;
    for (d = 0; d < DEPTH; d++) g_path[d] = &NODES[6];            /* ancestors: some non-NULL node */
    g_path[DEPTH] = n;
#if DEPTH < 3
    int ci = CIDX(DEPTH);
    _Bool cpresent = SHC[0][ci] != 0;
#if DEPTH + 1 < 3
    g_path[DEPTH + 1] = cpresent ? &NODES[1 + ci] : 0;
    if (cpresent) {
      myth_tls_tree_node_t * gc = SHC[1 + ci][CIDX(DEPTH + 1)];
      g_path[DEPTH + 2] = gc;
#if DEPTH + 2 < 3
      if (gc) g_path[3] = nondet_bool() ? (myth_tls_tree_node_t *)LEAFP[5] : 0;
#endif
    }
#else
    g_path[3] = cpresent ? SHC[0][ci] : 0;
    if (cpresent) {
      g_leaf = LEAFP[ci];
      for (i = 0; i < 4; i++) for (j = 0; j < 16; j++) if (i == ci && j == (g_k & 15)) leaf_set(LEAFN(LEAFP[i]), j, g_val);   /* constant indices only */
    }
#endif
#else
    g_leaf = LEAFP[0];
    for (j = 0; j < 16; j++) if (j == (g_k & 15)) leaf_set(LEAFN(LEAFP[0]), j, g_val);       /* constant indices only */
#endif
  } else {
    /* not responsible: the path lives elsewhere in the tree */
    g_path[0] = nondet_bool() ? &NODES[6] : 0;
    g_path[1] = g_path[0] && nondet_bool() ? &NODES[6] : 0;
    g_path[2] = g_path[1] && nondet_bool() ? &NODES[6] : 0;
    g_path[3] = g_path[2] && nondet_bool() ? (myth_tls_tree_node_t *)LEAFP[5] : 0;
  }
  g_watch_calls = 0; g_watch_bad_arg = 0; g_other_got_watched = 0;
  return n;
}

static void D_watch(void * v) {
  g_watch_calls++;
  if (v != g_val) g_watch_bad_arg++;
  /* destructors are user code: they may re-enter the exit path (myth_exit, a cancellation point with a cancellation
     pending), which walks the tree again -- "exactly once" then rests on the slot having been cleared BEFORE the call */
  __CPROVER_assert(g_leaf == 0 || ENTRY_AT(LEAFN(g_leaf), g_k & (myth_tls_tree_node_n_entries_in_leaf - 1)) == 0,
                   "C11: the slot of key k is cleared before the destructor of k is called (a destructor that re-enters the exit path does not see the value again)");
}
void h_destructors_rec(void) {
  int depth = DEPTH; myth_key_t base = nondet_int();      /* one job per level: 0,1,2 internal, 3 leaf */
  __CPROVER_assume(0 <= base && base < NK && base % STRIDE(depth) == 0 && base + STRIDE(depth) <= NK);
  myth_tls_tree_node_t * n = setup_level(depth, base);
  myth_tls_call_destructors_rec(n, depth, base, STRIDE(depth), &KA);
  VERIF_CANARY();
}

void h_destroy_rec(void) {
  int depth = DEPTH; myth_key_t base = nondet_int();
  __CPROVER_assume(0 <= base && base < NK && base % STRIDE(depth) == 0 && base + STRIDE(depth) <= NK);
  myth_tls_tree_node_t * n = setup_level(depth, base);
  g_wn_depth = nondet_int(); __CPROVER_assume(0 <= g_wn_depth && g_wn_depth <= myth_tls_tree_depth);
  g_wn = g_path[g_wn_depth];
  g_wn_frees = 0;
  T.pre_alloc_p = T.pre_alloc_buf;
  myth_tls_tree_destroy_rec(&T, n, depth, base, STRIDE(depth));
  VERIF_CANARY();
}

/* top level: myth_tls_tree_fini on a tree whose root is NULL or a node satisfying the level-0 precondition;
   the recursive walks are replaced by the contracts proved above */
void h_fini(void) {
  myth_tls_tree_node_t * n = setup_level(0, 0);
  _Bool has_root = nondet_bool();
  T.root = has_root ? n : 0;
  if (!has_root) { g_path[0] = g_path[1] = g_path[2] = g_path[3] = 0; }
  { unsigned off = nondet_unsigned(); __CPROVER_assume(off <= myth_tls_tree_pre_alloc_sz); T.pre_alloc_p = T.pre_alloc_buf + off; }   /* any pool fill level */
  g_wn_depth = nondet_int(); __CPROVER_assume(0 <= g_wn_depth && g_wn_depth <= myth_tls_tree_depth);
  g_wn = g_path[g_wn_depth];
  g_wn_frees = 0;
  myth_tls_tree_fini(&T, &KA);
  __CPROVER_assert(!(g_path[3] != 0 && g_val != 0 && g_has_d) || g_watch_calls == 1,
                   "C11: a live key with destructor and non-NULL value gets its destructor called exactly once");
  __CPROVER_assert(g_watch_calls <= 1, "C11: no destructor runs twice for the same key");
  __CPROVER_assert(g_watch_bad_arg == 0, "C11: the destructor of key k is only ever called with the value held under k");
  __CPROVER_assert(g_other_got_watched == 0, "C11: the value of key k is never passed to another key's destructor");
  __CPROVER_assert(g_has_d || g_watch_calls == 0, "C11: no call for a key registered without destructor");
  __CPROVER_assert(g_path[3] != 0 || g_watch_calls == 0, "C11: no call for a key whose leaf the thread never created");
  __CPROVER_assert(g_wn_frees == (g_wn != 0 ? 1 : 0), "C11/C12: every node of the tree is released exactly once");
  VERIF_CANARY();
}

/* node_free on a node that lies inside the embedded pool: never handed to free */
int g_any_free;
void h_node_free_pool(void) {
  unsigned off = nondet_unsigned();
  __CPROVER_assume(off < myth_tls_tree_pre_alloc_sz);
  g_wn = T.pre_alloc_buf + off; g_wn_frees = 0;
  myth_tls_tree_node_free(&T, (myth_tls_tree_node_t *)(T.pre_alloc_buf + off));
  __CPROVER_assert(g_wn_frees == 0, "C11/C12: a node from the descriptor's embedded pool is never handed to free");
  VERIF_CANARY();
}

#ifdef VERIF_DEBUG
void h_debug(void) {
  int depth = nondet_int(); myth_key_t base = nondet_int();
  __CPROVER_assume(0 <= depth && depth < myth_tls_tree_depth);
  __CPROVER_assume(0 <= base && base < NK && base % STRIDE(depth) == 0 && base + STRIDE(depth) <= NK);
  myth_tls_tree_node_t * n = setup_level(depth, base);
  if (INRANGE(base, STRIDE(depth))) {
    myth_tls_tree_node_t * c = n->children[CIDX(depth)];
    __CPROVER_assert(PATH_OK(n, depth), "dbg: PATH_OK(n)");
    __CPROVER_assert(n == g_path[depth], "dbg: n == g_path[depth]");
    __CPROVER_assert(n->children[CIDX(depth)] == g_path[depth + 1], "dbg: child eq");
    __CPROVER_assert(c == g_path[depth + 1], "dbg: c eq");
    if (c) {
      __CPROVER_assert(c == g_path[depth + 1], "dbg: c is path");
      int d1 = depth + 1;
      __CPROVER_assert(PATH_OK(c, d1), "dbg: PATH_OK(c)");
    }
  }
}
#endif
#ifdef VERIF_DEBUG
void h_dbg2(void) {
  myth_tls_tree_node_t * n = setup_level(0, 0);
  myth_tls_tree_node_t * c = n->children[CIDX(0)];
  if (c) {
    myth_tls_tree_node_t * gc = c->children[CIDX(1)];
    __CPROVER_assert(gc == 0 || gc == &NODES[5], "dbg2: gc is NULL or NODES[5]");
    int ci = CIDX(0);
    myth_tls_tree_node_t * gc2 = NODES[1 + ci].children[CIDX(1)];
    __CPROVER_assert(gc2 == gc, "dbg2: same through array");
    __CPROVER_assert(c == &NODES[1 + ci], "dbg2: c is canonical");
  }
}
#endif
#ifdef VERIF_DEBUG
void h_dbg3(void) {
  myth_tls_tree_node_t * n = setup_level(0, 0);
  int i;
  for (i = 0; i < 4; i++) {
    myth_tls_tree_node_t * c = n->children[i];
    if (c) {
      int depth = 1; int base = i * 256; int stride = 256;
      __CPROVER_assert(LEVEL_OK(depth, base, stride), "dbg3: level ok");
      __CPROVER_assert(!INRANGE(base, stride) || c == g_path[depth], "dbg3: c is path node");
      __CPROVER_assert(!INRANGE(base, stride) || CHILD_AT(c, CIDX(depth)) == g_path[depth + 1], "dbg3: child link");
      __CPROVER_assert(INRANGE(base, stride) ==> (c == g_path[depth] && (depth < myth_tls_tree_depth ==> CHILD_AT(c, CIDX(depth)) == g_path[depth + 1])), "dbg3: whole clause");
    }
  }
}
#endif
