/* C02 -- the user-level work-stealing API on top of the run queue (src/myth_if_native.c, included as a .c file):
 *   myth_wsapi_runqueue_take (steal with a decision callback), myth_wsapi_runqueue_pass / push / pop (forwarders).
 * "A steal attempt whose decision callback declines the candidate leaves it available."
 */
#include "verif_common.h"
#ifndef QMAX
#define QMAX 64
#endif
#include <string.h>
/* the steal cache copies up to 2048 hint bytes with memcpy (symbolic length: out of memory in CBMC).  The hint BYTES
   are outside the property (which thread is shown / taken is not): stub that records the call and copies nothing. */
int g_mc_calls; size_t g_mc_n_max;
static void * verif_memcpy(void * d, const void * s, size_t n) { if (g_mc_calls < 4) g_mc_calls++; if (n > g_mc_n_max) g_mc_n_max = n; return d; }
#define memcpy verif_memcpy
#include "myth_if_native.c"
#undef memcpy

struct myth_running_env ENVS[2];
myth_thread_t BUF[QMAX];
char CELL[4];
int g_lock_held, g_trylock_fails, g_unlocks;
int g_decide_calls, g_decision; myth_thread_t g_decide_arg; void * g_decide_udata;
#define Q (ENVS[VICTIM].runnable_q)
#ifndef VICTIM
#define VICTIM 1
#endif

int trylock_contract(myth_spinlock_t * l)
  __CPROVER_requires(l == &Q.lock && g_lock_held == 0)
  __CPROVER_assigns(g_lock_held)
  __CPROVER_ensures((__CPROVER_return_value == 1 && g_lock_held == 1 && !g_trylock_fails) || (__CPROVER_return_value == 0 && g_lock_held == 0 && g_trylock_fails));
void unlock_contract(myth_spinlock_t * l)
  __CPROVER_requires(l == &Q.lock && g_lock_held == 1)
  __CPROVER_assigns(g_lock_held, g_unlocks)
  __CPROVER_ensures(g_lock_held == 0 && g_unlocks == __CPROVER_old(g_unlocks) + 1);
/* should the steal path take the lock with the blocking primitive (e.g. to re-acquire it after a callback) */
void relock_contract(myth_spinlock_t * l)
  __CPROVER_requires(l == &Q.lock && g_lock_held == 0)
  __CPROVER_assigns(g_lock_held)
  __CPROVER_ensures(g_lock_held == 1);
void (*keep_lock_lock_wsapi)(myth_spinlock_t *) = myth_wsqueue_lock_lock;
static int verif_decide(myth_thread_t th, void * udata) {
  __CPROVER_assert(g_lock_held == 1, "wsapi take: the candidate is shown to the decision callback while the queue is locked (it cannot be taken by anybody else meanwhile)");
  g_decide_calls++; g_decide_arg = th; g_decide_udata = udata;
  return g_decision;
}

void h_wsapi_take(void) {
  g_envs = ENVS; g_envs_sz = 2;
  Q.size = nondet_int(); Q.base = nondet_int(); Q.top = nondet_int();
  __CPROVER_assume(2 <= Q.size && Q.size <= QMAX && 0 <= Q.base && Q.base <= Q.top && Q.top <= Q.size);
  Q.ptr = BUF; Q.wc.seq = nondet_int(); __CPROVER_assume(0 <= Q.wc.seq && Q.wc.seq < 1000000 && (Q.wc.seq & 1) == 0);
  int base0 = Q.base, top0 = Q.top, seq0 = Q.wc.seq;
  myth_thread_t cand = nondet_bool() ? (myth_thread_t)&CELL[1] : (myth_thread_t)&CELL[2];
  if (base0 < top0) BUF[base0] = cand;
  g_lock_held = 0; g_unlocks = 0; g_trylock_fails = nondet_bool(); g_decide_calls = 0; g_decision = nondet_bool();
  _Bool with_fn = nondet_bool();
  myth_thread_t r = myth_wsapi_runqueue_take(VICTIM, with_fn ? verif_decide : 0, (void *)&CELL[3]);
  __CPROVER_assert(g_lock_held == 0, "wsapi take: queue lock released on every return path");
  if (base0 == top0 || g_trylock_fails) {
    __CPROVER_assert(r == 0 && Q.base == base0 && Q.top == top0 && g_decide_calls == 0, "wsapi take: empty queue or busy lock: NULL, nothing changed, nobody asked");
  } else if (with_fn && !g_decision) {
    __CPROVER_assert(g_decide_calls == 1 && g_decide_arg == cand && g_decide_udata == (void *)&CELL[3], "wsapi take: the callback is asked once, about the oldest thread, with the caller's data");
    __CPROVER_assert(r == 0 && Q.base == base0 && Q.top == top0 && BUF[base0] == cand, "wsapi take: a declined candidate stays available: queue unchanged, NULL returned");
    __CPROVER_assert(Q.wc.seq == seq0, "wsapi take: a declined steal does not invalidate the peek cache");
  } else {
    __CPROVER_assert(r == cand && Q.base == base0 + 1 && Q.top == top0, "wsapi take: an accepted (or undecided) candidate is taken from the base, exactly once");
    __CPROVER_assert(g_decide_calls == (with_fn ? 1 : 0), "wsapi take: callback asked once when given");
    __CPROVER_assert(Q.wc.seq == seq0 + 2 && Q.wc.ptr == 0 && Q.wc.size == 0, "wsapi take: peek cache invalidated (sequence even again, +2)");
  }
  VERIF_CANARY();
}

/* ------------------------------------------------------------------ peek (look at the oldest thread of a victim)
 * "peek changes nothing": whatever it finds when it obtains the queue lock, it leaves base and top where they were,
 * every element in place, and the lock released.  Obtaining the lock is the interference point (stub with a body):
 * between the unlocked emptiness test and the lock the owner and other thieves may have moved base and top. */
struct myth_thread PTH;                 /* the thread at the base when the lock is obtained */
char HINT[8];
int g_pk_trylocks, g_pk_base, g_pk_top, g_pk_locked_once;
int verif_pk_trylock(myth_spinlock_t * l) {
  __CPROVER_assert(l == &Q.lock && g_lock_held == 0, "wsapi peek: takes the victim's queue lock, not recursively");
  if (g_pk_trylocks < 2) g_pk_trylocks++;
  if (g_pk_trylocks == 1 && nondet_bool()) return 0;            /* busy once: peek starts over */
  int b = nondet_int(), t = nondet_int();                       /* what the others left behind */
  __CPROVER_assume(0 <= b && b <= t && t <= Q.size);
  Q.base = b; Q.top = t; g_pk_base = b; g_pk_top = t; g_pk_locked_once = 1;
  if (b < t) BUF[b] = &PTH;
  g_lock_held = 1;
  return 1;
}
void h_wsapi_peek(void) {
  g_envs = ENVS; g_envs_sz = 2;
  Q.size = nondet_int(); Q.base = nondet_int(); Q.top = nondet_int();
  __CPROVER_assume(2 <= Q.size && Q.size <= QMAX && 0 <= Q.base && Q.base <= Q.top && Q.top <= Q.size);
  Q.ptr = BUF;
  Q.wc.seq = nondet_int(); __CPROVER_assume(0 <= Q.wc.seq && Q.wc.seq < 1000000 && (Q.wc.seq & 1) == 0);
  _Bool cached = nondet_bool();
  Q.wc.ptr = cached ? (void *)&PTH : (void *)0; Q.wc.size = 0;
  PTH.custom_data_ptr = HINT; PTH.custom_data_size = nondet_bool() ? 0 : 8;
  int base0 = Q.base, top0 = Q.top, seq0 = Q.wc.seq;
  g_lock_held = 0; g_unlocks = 0; g_pk_trylocks = 0; g_pk_locked_once = 0; g_mc_calls = 0; g_mc_n_max = 0;
  char out[8]; size_t sz = 8;
  myth_thread_t r = myth_wsapi_runqueue_peek(VICTIM, out, &sz);
  __CPROVER_assert(g_lock_held == 0 && g_unlocks == g_pk_locked_once, "wsapi peek: queue lock released on every return path");
  if (!g_pk_locked_once) {
    __CPROVER_assert(Q.base == base0 && Q.top == top0, "wsapi peek: without the lock nothing is touched");
    __CPROVER_assert(top0 > base0 || r == 0, "wsapi peek: NULL on an empty queue");
  } else {
    __CPROVER_assert(Q.base == g_pk_base && Q.top == g_pk_top, "wsapi peek: base and top are left exactly as found when the lock was obtained (peek takes nothing)");
    __CPROVER_assert(g_pk_base == g_pk_top || BUF[g_pk_base] == &PTH, "wsapi peek: the oldest thread stays in its slot");
    __CPROVER_assert(g_pk_base == g_pk_top || (r == &PTH && Q.wc.seq == seq0 + 2 && Q.wc.ptr == &PTH), "wsapi peek: shows the oldest thread and caches it (sequence even again, +2)");
    __CPROVER_assert(g_pk_base < g_pk_top || (r == 0 && Q.wc.seq == seq0), "wsapi peek: a queue drained meanwhile: NULL, cache untouched");
    __CPROVER_assert(g_mc_n_max <= WS_CACHE_SIZE && g_mc_n_max <= 8, "wsapi peek: never copies more than the cache holds nor more than the caller's buffer / the hint");
  }
  VERIF_CANARY();
}
