/* C02 -- the user-level work-stealing API on top of the run queue (src/myth_if_native.c, included as a .c file):
 *   myth_wsapi_runqueue_take (steal with a decision callback), myth_wsapi_runqueue_pass / push / pop (forwarders).
 * "A steal attempt whose decision callback declines the candidate leaves it available."
 */
#include "verif_common.h"
#ifndef QMAX
#define QMAX 64
#endif
#include "myth_if_native.c"

struct myth_running_env ENVS[2];
myth_thread_t BUF[QMAX];
char CELL[4];
int g_lock_held, g_trylock_fails, g_unlocks;
int g_decide_calls, g_decision; myth_thread_t g_decide_arg; void * g_decide_udata;
#define Q (ENVS[VICTIM].runnable_q)
#ifndef VICTIM
#define VICTIM 1
#endif

int trylock_contract(myth_spinlock_t * l)
  __CPROVER_requires(l == &Q.lock && g_lock_held == 0)
  __CPROVER_assigns(g_lock_held)
  __CPROVER_ensures((__CPROVER_return_value == 1 && g_lock_held == 1 && !g_trylock_fails) || (__CPROVER_return_value == 0 && g_lock_held == 0 && g_trylock_fails));
void unlock_contract(myth_spinlock_t * l)
  __CPROVER_requires(l == &Q.lock && g_lock_held == 1)
  __CPROVER_assigns(g_lock_held, g_unlocks)
  __CPROVER_ensures(g_lock_held == 0 && g_unlocks == __CPROVER_old(g_unlocks) + 1);
static int verif_decide(myth_thread_t th, void * udata) {
  __CPROVER_assert(g_lock_held == 1, "wsapi take: the candidate is shown to the decision callback while the queue is locked (it cannot be taken by anybody else meanwhile)");
  g_decide_calls++; g_decide_arg = th; g_decide_udata = udata;
  return g_decision;
}

void h_wsapi_take(void) {
  g_envs = ENVS; g_envs_sz = 2;
  Q.size = nondet_int(); Q.base = nondet_int(); Q.top = nondet_int();
  __CPROVER_assume(2 <= Q.size && Q.size <= QMAX && 0 <= Q.base && Q.base <= Q.top && Q.top <= Q.size);
  Q.ptr = BUF; Q.wc.seq = nondet_int(); __CPROVER_assume(0 <= Q.wc.seq && Q.wc.seq < 1000000 && (Q.wc.seq & 1) == 0);
  int base0 = Q.base, top0 = Q.top, seq0 = Q.wc.seq;
  myth_thread_t cand = nondet_bool() ? (myth_thread_t)&CELL[1] : (myth_thread_t)&CELL[2];
  if (base0 < top0) BUF[base0] = cand;
  g_lock_held = 0; g_unlocks = 0; g_trylock_fails = nondet_bool(); g_decide_calls = 0; g_decision = nondet_bool();
  _Bool with_fn = nondet_bool();
  myth_thread_t r = myth_wsapi_runqueue_take(VICTIM, with_fn ? verif_decide : 0, (void *)&CELL[3]);
  __CPROVER_assert(g_lock_held == 0, "wsapi take: queue lock released on every return path");
  if (base0 == top0 || g_trylock_fails) {
    __CPROVER_assert(r == 0 && Q.base == base0 && Q.top == top0 && g_decide_calls == 0, "wsapi take: empty queue or busy lock: NULL, nothing changed, nobody asked");
  } else if (with_fn && !g_decision) {
    __CPROVER_assert(g_decide_calls == 1 && g_decide_arg == cand && g_decide_udata == (void *)&CELL[3], "wsapi take: the callback is asked once, about the oldest thread, with the caller's data");
    __CPROVER_assert(r == 0 && Q.base == base0 && Q.top == top0 && BUF[base0] == cand, "wsapi take: a declined candidate stays available: queue unchanged, NULL returned");
    __CPROVER_assert(Q.wc.seq == seq0, "wsapi take: a declined steal does not invalidate the peek cache");
  } else {
    __CPROVER_assert(r == cand && Q.base == base0 + 1 && Q.top == top0, "wsapi take: an accepted (or undecided) candidate is taken from the base, exactly once");
    __CPROVER_assert(g_decide_calls == (with_fn ? 1 : 0), "wsapi take: callback asked once when given");
    __CPROVER_assert(Q.wc.seq == seq0 + 2 && Q.wc.ptr == 0 && Q.wc.size == 0, "wsapi take: peek cache invalidated (sequence even again, +2)");
  }
  VERIF_CANARY();
}
