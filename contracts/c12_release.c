/* C12 (part 2) -- release discipline of stacks and thread records (DESIGN §4 C12, §3.4, §3.5).
 *
 * Real bodies analysed (src/myth_sched_func.h, src/myth_worker.c), nothing copied:
 *   myth_entry_point_cleanup, myth_entry_point_1, myth_entry_point_2   (the FINISHER of thread T)
 *   myth_join_1, myth_join_2, myth_join_3, myth_join_body, myth_tryjoin_body, myth_detach_body   (the REAPER of thread T)
 *   myth_get_current_env, myth_get_current_env_noinline, myth_desc_* helpers.
 *
 * Ownership ledger of ONE witness thread T (its record *T and its stack), kept by stubs that replace
 * free_myth_thread_struct_stack / free_myth_thread_struct_desc / myth_spin_lock_body / myth_spin_unlock_body:
 *   stack:  LIVE --release--> RELEASED     legal only once (g_stack_rel == 0), only after the finished thread has switched
 *                                          away (g_after_switch: we are in the callback that runs on the next context's
 *                                          stack), only while the record still exists, only to the CURRENT worker's lists.
 *   record: LIVE --release--> RELEASED     legal only once, only to the CURRENT worker's lists, only with the record's
 *                                          lock not held by the releaser, and only by
 *                                            - the finisher, if it read detached != 0 under the lock, after it released the stack;
 *                                            - the reaper (join/tryjoin/detach), at an instant where T->status == FREE_READY2.
 *           hand-over:                     the finisher of a non-detached thread gives the record to the reaper by the unlock
 *                                          that follows the store of FREE_READY2 (obligation: status == FREE_READY2 at that
 *                                          unlock).  A detacher that found T unfinished gives it to the finisher by the unlock
 *                                          that follows the store of detached = 1.
 *   POISON: a released or handed-over record is deallocated in the model (free), so ANY later access by the code under
 *           proof -- a read of the result after the release, a second release, a status store after the unlock -- is a
 *           failing pointer obligation ("deallocated dynamic object").
 * Environment (rely) of the reaper: between two of my reads of T->status, while I do not hold T's lock, the finisher may
 * advance it (anything below FREE_READY -> anything; FREE_READY -> FREE_READY2; FREE_READY2 is final until reaped); the
 * exit value T->result is the agreed value g_result from the moment the status is >= FREE_READY; while I hold the lock
 * nothing changes (the finisher takes the same lock before it decides).  While I am suspended in a join, I can be resumed
 * on ANY worker (the finisher's): g_worker_rank is havocked by the switch.
 */
#include "verif_common.h"
#include <stdlib.h>

#include "myth_config.h"
#include "myth_context.h"
#include "myth_context_func.h"

/* ---------------------------------------------------------------- ghosts */
enum { ROLE_FINISHER = 1, ROLE_REAPER = 2 };
int g_role;
int g_after_switch;            /* 1: the running code is a post-switch callback of a jump away from T (T's stack is no longer in use) */
int g_jumps;                   /* set_context jumps performed (0,1,2=too many) */
int g_swaps;                   /* swap_context switches performed (0,1,2) */
int g_stack_rel, g_desc_rel;   /* releases of T's stack / record (0,1) */
int g_lock_held;               /* I hold T's lock */
int g_locks, g_unlocks;        /* lock / unlock calls (0,1,2) */
int g_handed_over;             /* the record was given to the other party by an unlock (finisher -> reaper, detacher -> finisher) */
int g_status_at_unlock, g_detached_at_unlock, g_detached_at_lock, g_status_at_lock;
int g_detached_snap;           /* finisher harness: the value of T->detached (stable under the lock) */
int g_status_at_release;       /* T->status when the record was released */
void * g_result;               /* the exit value agreed with the finisher */
int g_queue_pops;
int g_had_waiter;              /* finisher harness: a joiner was blocked on T */

static void verif_jump(void)  { g_after_switch = 1; if (g_jumps < 2) g_jumps++; }
void verif_after_jump(void);
static void verif_ctx_save(void) { }
void verif_suspend_resume(void);

/* context switches by their control-flow meaning (DESIGN §3.4); the asm templates are C03's subject */
#undef  myth_set_context_withcall
#define myth_set_context_withcall(ctx,fn,a1,a2,a3) { verif_jump(); fn((void *)(a1), (void *)(a2), (void *)(a3)); verif_after_jump(); __CPROVER_assume(0); }
#undef  myth_set_context
#define myth_set_context(ctx) { verif_jump(); verif_after_jump(); __CPROVER_assume(0); }
#undef  myth_swap_context_withcall
#define myth_swap_context_withcall(from,to,fn,a1,a2,a3) { verif_ctx_save(); fn((void *)(a1), (void *)(a2), (void *)(a3)); verif_suspend_resume(); }
#undef  myth_swap_context
#define myth_swap_context(from,to) { verif_ctx_save(); verif_suspend_resume(); }

struct myth_thread;
void verif_env_status(void);
/* R4 read hook: an environment step precedes every read of a status word by the code under proof */
static inline void verif_rd_status(volatile void * p);

#include "myth_sched_func.h"                       /* the real code */
#include "myth_worker.c"                           /* the real myth_get_current_env_noinline */

/* ---------------------------------------------------------------- world */
#define NW 2
struct myth_running_env ENVS[NW];
struct myth_thread * T;                            /* the witness thread's record (dynamic: release = deallocation) */
struct myth_thread ME, NEXT, WAITER;               /* the reaping thread, a runnable thread, a thread blocked in join(T) */
char * T_STACK;                                    /* T's stack block */

static myth_running_env_t cur_env(void) { return &g_envs[g_worker_rank]; }

void verif_env_status(void) {
  /* the finisher's progress, as far as the reaper can see it */
  if (g_role != ROLE_REAPER || g_lock_held || g_desc_rel || g_handed_over) return;
  int s = T->status;
  int n = nondet_int();
  __CPROVER_assume(0 <= n && n <= 3);
  __CPROVER_assume(s != MYTH_STATUS_FREE_READY2 || n == MYTH_STATUS_FREE_READY2);     /* final until reaped */
  __CPROVER_assume(s != MYTH_STATUS_FREE_READY || n >= MYTH_STATUS_FREE_READY);       /* finishing is not undone */
  T->status = n;
  if (n >= MYTH_STATUS_FREE_READY) T->result = g_result;                              /* exit value fixed once finished */
}
static inline void verif_rd_status(volatile void * p) {
  if (g_desc_rel == 0 && g_handed_over == 0 && p == (volatile void *)&T->status) verif_env_status();
}

void verif_suspend_resume(void) {
  /* the suspended joiner is resumed by the finisher of T, on the finisher's worker, arbitrarily later */
  if (g_swaps < 2) g_swaps++;
  if (nondet_bool()) g_worker_rank = 0; else g_worker_rank = 1;
  verif_env_status();
}

int g_fini_migrated, g_fini_calls, g_cleanup_job;
/* ---------------------------------------------------------------- ledger stubs (--replace-calls) */
void verif_free_stack(myth_running_env_t e, myth_thread_t th) {
  __CPROVER_assert(th == T, "stack release: of the finished thread");
  __CPROVER_assert(g_stack_rel == 0, "stack release: at most once");
  __CPROVER_assert(g_after_switch == 1, "stack release: only from the post-switch callback (the finished thread has left its stack)");
  __CPROVER_assert(g_desc_rel == 0 && g_handed_over == 0, "stack release: while the record that names the stack is still owned by the finisher");
  __CPROVER_assert(e == cur_env(), "stack release: to the free lists of the CURRENT worker");
  __CPROVER_assert(g_role == ROLE_FINISHER, "stack release: by the finisher only");
  __CPROVER_assert(th->stack == (void *)T_STACK, "stack release: the stack named by the record");
  __CPROVER_assert(!g_cleanup_job || g_fini_calls == 1, "finish: the thread-specific values of the finishing thread have been destructed (tls fini, exactly once) on every way a thread ends, before its stack is released");
  g_stack_rel = 1;
}
void verif_free_desc(myth_running_env_t e, myth_thread_t th) {
  __CPROVER_assert(th == T, "record release: of the witness thread");
  __CPROVER_assert(g_desc_rel == 0, "record release: at most once");
  __CPROVER_assert(e == cur_env(), "record release: to the free lists of the CURRENT worker");
  __CPROVER_assert(g_lock_held == 0, "record release: the record's lock is not held by the releaser (a recycled record must not carry a held lock)");
  if (g_role == ROLE_FINISHER) {
    __CPROVER_assert(g_detached_snap != 0, "record release by the finisher: only if the thread is detached (decided under the lock)");
    __CPROVER_assert(g_stack_rel == 1, "record release by the finisher: after the stack was released (the record names the stack)");
    __CPROVER_assert(g_unlocks == 1, "record release by the finisher: after the unlock");
  } else {
    __CPROVER_assert(g_handed_over == 0, "record release by the reaper: not after it gave the record to the finisher (detached)");
    __CPROVER_assert(T->status == MYTH_STATUS_FREE_READY2, "record release by the reaper: only when FREE_READY2 is visible (the finisher has made its last access)");
  }
  g_status_at_release = (g_handed_over == 0) ? (int)T->status : -1;
  g_desc_rel = 1;
  free(T);                                         /* POISON: any later access to the record is a failing obligation */
}
int verif_lock(myth_spinlock_t * lock) {
  __CPROVER_assert(lock == &T->lock, "lock: the record's own lock");
  __CPROVER_assert(g_lock_held == 0 && g_desc_rel == 0 && g_handed_over == 0, "lock: not held, record still owned");
  verif_env_status();                              /* whatever happened before I got the lock */
  g_lock_held = 1; if (g_locks < 2) g_locks++;
  g_detached_at_lock = T->detached; g_status_at_lock = T->status;
  return 0;
}
int verif_unlock(myth_spinlock_t * lock) {
  __CPROVER_assert(lock == &T->lock, "unlock: the record's own lock");
  __CPROVER_assert(g_lock_held == 1, "unlock: lock held");
  g_lock_held = 0; if (g_unlocks < 2) g_unlocks++;
  g_status_at_unlock = T->status; g_detached_at_unlock = T->detached;
  if (g_role == ROLE_FINISHER) {
    __CPROVER_assert(T->detached == g_detached_snap, "finisher: detached flag not changed by the finisher");
    if (!T->detached) {
      __CPROVER_assert(T->status == MYTH_STATUS_FREE_READY2, "finisher of a joinable thread: FREE_READY2 is published BEFORE the unlock");
      g_handed_over = 1;
      free(T);                                     /* POISON: from here on the record belongs to the reaper */
    }
  } else if (T->detached && T->status < MYTH_STATUS_FREE_READY) {
    g_handed_over = 1;                             /* detacher: the still running thread will release its own record */
    free(T);                                       /* POISON */
  }
  return 0;
}
myth_thread_t verif_queue_pop(myth_thread_queue_t q) {
  __CPROVER_assert(q == &cur_env()->runnable_q, "run queue: the current worker's");
  if (g_queue_pops < 2) g_queue_pops++;
  return nondet_bool() ? &NEXT : (myth_thread_t)0;
}
/* the destructors of thread-specific values (C11) are user code: they may yield or block, so the finishing thread may
   come back from them on ANOTHER worker -- whatever was read from the old worker's descriptor before is stale then */
void verif_tls_fini(myth_tls_tree_t * t, myth_tls_key_allocator_t * ka) {
  if (g_fini_calls < 2) g_fini_calls++;
  if (nondet_bool()) {
    myth_running_env_t from = cur_env();
    myth_thread_t me = from->this_thread;
    g_worker_rank = 1 - g_worker_rank;
    myth_running_env_t to = cur_env();
    to->this_thread = me; if (me) me->env = to;
    from->this_thread = nondet_bool() ? &NEXT : (myth_thread_t)0;       /* the old worker runs something else now */
    g_fini_migrated = 1;
  }
}

/* ---------------------------------------------------------------- set-up */
static void setup(int role) {
  g_role = role;
  ENVS[0].rank = 0; ENVS[1].rank = 1;
  g_envs = ENVS; g_envs_sz = NW;
  T = malloc(sizeof(struct myth_thread));
  __CPROVER_assume(T != 0);
  T_STACK = malloc(64);
  __CPROVER_assume(T_STACK != 0);
  T->stack = (void *)T_STACK;
  T->detached = 0; T->join_thread = 0; T->status = MYTH_STATUS_READY; T->result = 0; T->env = 0;
  g_cleanup_job = 0; g_fini_calls = 0; g_fini_migrated = 0;
  g_after_switch = 0; g_jumps = 0; g_swaps = 0; g_stack_rel = 0; g_desc_rel = 0; g_lock_held = 0; g_locks = 0; g_unlocks = 0;
  g_handed_over = 0; g_status_at_unlock = -1; g_detached_at_unlock = -1; g_detached_at_lock = -1; g_status_at_lock = -1;
  g_detached_snap = 0; g_status_at_release = -1; g_queue_pops = 0;
  g_result = nondet_bool() ? (void *)&NEXT : (void *)0;           /* some exit value (an address or NULL) */
}

/* ================================================================ FINISHER */
static void finisher_final_checks(void) {
  __CPROVER_assert(g_stack_rel == 1, "finish: the stack is released exactly once on every finishing path");
  __CPROVER_assert(g_unlocks == 1 && g_lock_held == 0, "finish: the record's lock is released exactly once");
  if (g_detached_snap) {
    __CPROVER_assert(g_desc_rel == 1 && g_handed_over == 0, "finish, detached: the finisher releases the record itself, exactly once");
  } else {
    __CPROVER_assert(g_desc_rel == 0, "finish, joinable: the record is NOT released by the finisher (it holds the exit value until reaped)");
    __CPROVER_assert(g_handed_over == 1 && g_status_at_unlock == MYTH_STATUS_FREE_READY2, "finish, joinable: FREE_READY2 published, then unlocked");
  }
}

/* the callbacks themselves, as they are entered after the jump: lock held, stack not yet released */
static void b_entry_point_1(void) {
  setup(ROLE_FINISHER);
  T->detached = nondet_bool(); g_detached_snap = T->detached;
  T->status = nondet_bool() ? MYTH_STATUS_READY : MYTH_STATUS_BLOCKED;
  T->result = g_result;
  g_lock_held = 1; g_locks = 1; g_after_switch = 1; g_jumps = 1;
  myth_running_env_t env = cur_env();
  env->this_thread = T;
  myth_entry_point_1((void *)env, (void *)T, (void *)&NEXT);
  finisher_final_checks();
  __CPROVER_assert(env->this_thread == &NEXT, "finish: the worker now runs the next thread");
  VERIF_CANARY();
}
static void b_entry_point_2(void) {
  setup(ROLE_FINISHER);
  T->detached = nondet_bool(); g_detached_snap = T->detached;
  T->status = nondet_bool() ? MYTH_STATUS_READY : MYTH_STATUS_BLOCKED;
  T->result = g_result;
  g_lock_held = 1; g_locks = 1; g_after_switch = 1; g_jumps = 1;
  myth_running_env_t env = cur_env();
  env->this_thread = T;
  myth_entry_point_2((void *)env, (void *)T, (void *)0);
  finisher_final_checks();
  VERIF_CANARY();
}

/* the whole finish path: every path ends in a jump; nothing is released before the jump */
void verif_after_jump(void) {
  __CPROVER_assert(g_jumps == 1, "finish: exactly one jump away from the finished thread");
  finisher_final_checks();
  if (g_had_waiter)  __CPROVER_assert(0, "CANARY reachable: finish with a blocked joiner (jump to the joiner)");
  if (!g_had_waiter) __CPROVER_assert(0, "CANARY reachable: finish without joiner (jump to the next thread or the scheduler)");
  VERIF_CANARY();                                  /* the jump is reachable */
}
static void b_cleanup(void) {
  setup(ROLE_FINISHER);
  T->detached = nondet_bool(); g_detached_snap = T->detached;
  T->status = MYTH_STATUS_READY;
  T->result = g_result;
  T->join_thread = nondet_bool() ? &WAITER : (myth_thread_t)0;       /* a joiner is blocked on T, or not */
  g_had_waiter = (T->join_thread != 0);
  WAITER.status = MYTH_STATUS_BLOCKED;
  myth_running_env_t env = cur_env();
  env->this_thread = T; T->env = env;
  g_cleanup_job = 1; g_fini_calls = 0;
  myth_entry_point_cleanup(T);
  __CPROVER_assert(0, "finish: myth_entry_point_cleanup returned into the finished thread (must be unreachable: every path jumps away)");
}

/* ================================================================ REAPER */
static void reaper_setup(void) {
  setup(ROLE_REAPER);
  int s = nondet_int(); __CPROVER_assume(0 <= s && s <= 3);
  T->status = s;
  T->result = (s >= MYTH_STATUS_FREE_READY) ? g_result : (void *)&WAITER;     /* not yet the exit value while running */
  ME.status = MYTH_STATUS_READY;
  cur_env()->this_thread = &ME; ME.env = cur_env();
}

static void b_join_1(void) {
  reaper_setup();
  __CPROVER_assume(T->status == MYTH_STATUS_FREE_READY2);
  _Bool want = nondet_bool();
  void * res = (void *)&ME;
  myth_join_1(cur_env(), T, want ? &res : (void **)0);
  __CPROVER_assert(g_desc_rel == 1, "join_1: the record is released exactly once");
  __CPROVER_assert(!want || res == g_result, "join_1: the exit value is read from the intact record (before the release)");
  VERIF_CANARY();
}

static void b_join(void) {
  reaper_setup();
  _Bool want = nondet_bool();
  void * res = (void *)&ME;
  int r = myth_join_body(T, want ? &res : (void **)0);
  __CPROVER_assert(r == 0, "join: returns 0");
  __CPROVER_assert(g_desc_rel == 1 && g_status_at_release == MYTH_STATUS_FREE_READY2, "join: the record is released exactly once, after FREE_READY2 was seen");
  __CPROVER_assert(!want || res == g_result, "join: delivers the exit value stored by the finisher (late join: the record stayed intact)");
  __CPROVER_assert(g_locks == 1 && g_unlocks == 1 && g_lock_held == 0, "join: lock taken and released once");
  __CPROVER_assert(g_stack_rel == 0, "join: never touches the stack");
  __CPROVER_assert(g_swaps <= 1, "join: blocks at most once");
  if (g_status_at_lock <  MYTH_STATUS_FREE_READY) __CPROVER_assert(0, "CANARY reachable: join of a thread found running under the lock (blocks, resumed possibly on another worker)");
  if (g_status_at_lock >= MYTH_STATUS_FREE_READY) __CPROVER_assert(0, "CANARY reachable: join of a thread found finished under the lock");
  VERIF_CANARY();
}

static void b_tryjoin(void) {
  reaper_setup();
  _Bool want = nondet_bool();
  void * res = (void *)&ME;
  int r = myth_tryjoin_body(T, want ? &res : (void **)0);
  __CPROVER_assert(r == 0 || r == EBUSY, "tryjoin: 0 or EBUSY");
  __CPROVER_assert((r == 0) == (g_desc_rel == 1), "tryjoin: releases the record iff it reaped the thread");
  __CPROVER_assert(r != 0 || g_status_at_release == MYTH_STATUS_FREE_READY2, "tryjoin: release only after FREE_READY2 was seen");
  __CPROVER_assert(r != 0 || !want || res == g_result, "tryjoin: delivers the exit value");
  __CPROVER_assert(r != EBUSY || g_status_at_lock < MYTH_STATUS_FREE_READY, "tryjoin: EBUSY only if the thread was unfinished under the lock");
  __CPROVER_assert(g_stack_rel == 0 && g_swaps == 0, "tryjoin: never touches the stack, never blocks");
  VERIF_CANARY();
}

static void b_detach(void) {
  reaper_setup();
  int r = myth_detach_body(T);
  __CPROVER_assert(r == 0, "detach: returns 0");
  __CPROVER_assert(g_desc_rel + g_handed_over == 1, "detach: EITHER releases the record (finished thread) OR leaves it to the finisher (running thread)");
  __CPROVER_assert(g_desc_rel == 0 || g_status_at_release == MYTH_STATUS_FREE_READY2, "detach: release only when FREE_READY2 is visible");
  __CPROVER_assert(g_handed_over == 0 || (g_locks == 1 && g_detached_at_lock == 0 && g_detached_at_unlock == 1 && g_status_at_unlock < MYTH_STATUS_FREE_READY),
                   "detach of a running thread: the flag is set between lock and unlock, the thread was unfinished under the lock");
  __CPROVER_assert(g_lock_held == 0 && g_locks == g_unlocks, "detach: lock released on every path");
  __CPROVER_assert(g_stack_rel == 0 && g_swaps == 0, "detach: never touches the stack, never blocks");
  if (g_locks == 1 && g_status_at_lock <  MYTH_STATUS_FREE_READY) __CPROVER_assert(0, "CANARY reachable: detach of a thread found running under the lock");
  if (g_locks == 1 && g_status_at_lock >= MYTH_STATUS_FREE_READY) __CPROVER_assert(0, "CANARY reachable: detach of a thread found finished under the lock");
  if (g_locks == 0) __CPROVER_assert(0, "CANARY reachable: detach of a finished thread, unlocked fast path");
  VERIF_CANARY();
}

/* every harness runs its body once per possible current worker (two constant cases instead of a symbolic index into
   the array of 2.5 KB worker structs, which made the solver 50x slower) */
#define ON_EACH_WORKER(body) do { if (nondet_bool()) { g_worker_rank = 0; body(); } else { g_worker_rank = 1; body(); } } while (0)
void h_entry_point_1(void) { ON_EACH_WORKER(b_entry_point_1); }
void h_entry_point_2(void) { ON_EACH_WORKER(b_entry_point_2); }
void h_cleanup(void)       { ON_EACH_WORKER(b_cleanup); }
void h_join_1(void)        { ON_EACH_WORKER(b_join_1); }
void h_join(void)          { ON_EACH_WORKER(b_join); }
void h_tryjoin(void)       { ON_EACH_WORKER(b_tryjoin); }
void h_detach(void)        { ON_EACH_WORKER(b_detach); }
