/* C14 -- myth_once (DESIGN §4 C14).  Functions under contract (real bodies, src/myth_sync_func.h):
 *   myth_once_body, myth_once_try_set, myth_once_wait_until.
 *
 * Word: once.state in {0 init, 1 in progress, 2 completed}.
 * Ghosts: g_A agreed value; g_i_elected / g_env_elected: who won the 0->1 election and has not completed yet.
 *   INV: g_A in {0,1,2}; (g_A == 1) <=> exactly one of the two is elected; otherwise none.
 *   G:   CAS 0 -> 1 (I become the elected caller); plain store 2 only by me while elected, after init returned.
 *   R:   0 -> 1 by another thread, 1 -> 2 by the elected other thread; 2 is absorbing; while I am elected the word
 *        stays 1.
 * The init routine may block or yield: it contains an environment step.
 */
#include "verif_common.h"

int g_A, g_i_elected, g_env_elected;
int g_init_calls, g_init_returned, g_last_read, g_yield_ever;
#define ONCE_INV ((g_A == 0 || g_A == 1 || g_A == 2) && (g_i_elected == 0 || g_i_elected == 1) && (g_env_elected == 0 || g_env_elected == 1) && \
                  (g_A == 1 ? g_i_elected + g_env_elected == 1 : (g_i_elected == 0 && g_env_elected == 0)))
volatile int * verif_word(void);

void myth_verif_env_step(volatile int * p)
  __CPROVER_requires(*p == g_A && ONCE_INV && "no unannounced write to the once word")
  __CPROVER_assigns(*p, g_A, g_env_elected)
  __CPROVER_ensures(*p == g_A && ONCE_INV)
  __CPROVER_ensures(g_A >= __CPROVER_old(g_A))                    /* init -> in progress -> completed, never back */
  __CPROVER_ensures(g_i_elected ==> g_A == 1);                     /* nobody completes or restarts MY initialisation */

static inline _Bool verif_cas_int(volatile int * p, int o, int n) {
  if (p != verif_word()) return __sync_bool_compare_and_swap(p, o, n);
  myth_verif_env_step(p);
  _Bool r = __sync_bool_compare_and_swap(p, o, n);
  if (r) {
    __CPROVER_assert(o == 0 && n == 1 && !g_i_elected, "GUARANTEE once: the only CAS is the election 0 -> 1");
    g_i_elected = 1; g_A = 1;
  }
  return r;
}
#define __sync_bool_compare_and_swap(p,o,n) \
  (sizeof(*(p)) == sizeof(int) ? verif_cas_int((volatile int *)(p), (int)(long)(o), (int)(long)(n)) \
                               : (_Bool)(__sync_val_compare_and_swap((volatile long *)(p), (long)(o), (long)(n)) == (long)(o)))
static inline void myth_verif_rd(volatile void * p) {
  if (p == (volatile void *)verif_word()) { myth_verif_env_step((volatile int *)p); g_last_read = g_A; }
}

#include "myth_sync_func.h"
#undef __sync_bool_compare_and_swap

myth_once_t O;
volatile int * verif_word(void) { return &O.state; }
void (*keep_env)(volatile int *) = myth_verif_env_step;
void (*keep_yield)(void) = myth_yield;

/* myth_yield (public): other threads run */
void yield_contract(void)
  __CPROVER_requires(O.state == g_A && ONCE_INV && g_i_elected == 0 && "a waiting caller yields; the elected caller never waits")
  __CPROVER_assigns(O.state, g_A, g_env_elected, g_yield_ever)
  __CPROVER_ensures(O.state == g_A && ONCE_INV && g_A >= __CPROVER_old(g_A) && g_yield_ever == 1);

/* the user's init routine: any code, may block or yield (environment step inside) */
static void verif_init_routine(void) {
  __CPROVER_assert(g_i_elected == 1, "once: the init routine is run only by the caller that won the election");
  __CPROVER_assert(g_init_calls == 0, "once: the init routine is run at most once by a caller");
  g_init_calls = 1;
  myth_verif_env_step(&O.state);
  g_init_returned = 1;
}

static void setup(void) {
  g_A = nondet_int(); g_env_elected = nondet_int(); g_i_elected = 0;
  __CPROVER_assume(ONCE_INV);
  O.state = g_A;
  g_init_calls = g_init_returned = 0; g_last_read = -1; g_yield_ever = 0;
}

void h_once(void) {
  setup();
  int a0 = g_A;
  int r = myth_once_body(&O, verif_init_routine);
  __CPROVER_assert(r == 0, "once: returns 0");
  __CPROVER_assert(g_init_calls == g_i_elected, "once: the init routine ran (once) iff this caller won the election");
  __CPROVER_assert(g_i_elected ? (g_init_returned == 1 && O.state == myth_once_state_completed)
                               : (g_last_read == myth_once_state_completed),
                   "once: no caller returns before the initialisation has completed (completed by me after init returned, or observed completed)");
  __CPROVER_assert(a0 != myth_once_state_completed || (g_init_calls == 0 && g_yield_ever == 0), "once: a later call returns immediately without running init");
  __CPROVER_assert(a0 == 0 || g_init_calls == 0, "once: init is not run again once somebody has been elected");
  VERIF_CANARY();
}

void h_wait_until(void) {
  setup();
  int r = myth_once_wait_until(&O, myth_once_state_completed);
  __CPROVER_assert(r == 0 && g_last_read == myth_once_state_completed, "once_wait_until: returns only after having read the awaited state");
  __CPROVER_assert(O.state == g_A && ONCE_INV, "once_wait_until: writes nothing");
  VERIF_CANARY();
}

/* lemmas: at most one elected caller; G preserves INV */
void h_lemmas(void) {
  setup();
  g_i_elected = nondet_int();
  __CPROVER_assume(ONCE_INV);
  __CPROVER_assert(g_i_elected + g_env_elected <= 1, "lemma: at most one caller is elected (init runs exactly once per control)");
  if (g_A == 0) { __CPROVER_assert(g_i_elected == 0 && g_env_elected == 0, "lemma: election possible only when nobody is elected"); }
  if (g_i_elected) { __CPROVER_assert(g_A == 1, "lemma: the completing store 2 happens in state 1"); }
  VERIF_CANARY();
}
