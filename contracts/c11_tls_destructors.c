/* C11 -- thread-specific-data destructors (DESIGN §4 C11).
 * Functions under contract (real bodies, src/myth_tls_func.h): myth_tls_tree_fini, myth_tls_call_destructors(_rec),
 * myth_tls_tree_destroy(_rec), myth_tls_tree_node_free.
 *
 * All trees at once: canonical static pools P0[1], P1[4], P2[16], P3[64]; every child pointer is NULL or its
 * canonical child (2^85 shapes incl. the empty tree); all 1024 values NULL-or-distinct-cell; all 1024 destructor
 * slots {0, D_other}; witness key g_k with the unique logging destructor D_watch (or none).
 * Complete by type bound (depth 3, fan-out 4, 16 entries): every loop is unwound to its constant and the
 * unwinding assertions are on.
 */
#include "verif_common.h"
#include "myth_tls_func.h"

typedef struct { int type; myth_tls_entry_t entries[myth_tls_tree_node_n_entries_in_leaf]; } verif_leaf_t;

myth_tls_tree_node_t P0[1], P1[4], P2[16];
verif_leaf_t P3[64];
myth_tls_key_allocator_t KA;
myth_tls_tree_t T;
char VAL[myth_tls_n_keys];          /* &VAL[k] is "the value stored under key k" */

int g_k;                 /* witness key */
int g_watch_calls, g_watch_bad_arg, g_watch_null_calls;
int g_other_got_watched_value;
int g_free_calls, g_free_pool;

static void D_watch(void * v) {
  g_watch_calls++;
  if (v == 0) g_watch_null_calls++;
  else if (v != (void *)&VAL[g_k]) g_watch_bad_arg++;
}
static void D_other(void * v) {
  if (v == (void *)&VAL[g_k]) g_other_got_watched_value++;
}

/* real_free is the libc free the library resolves at start-up (myth_real.c): external, stubbed here.
   g_wn is a witness node: it must be handed to free exactly once iff it is part of the tree */
void * g_wn; int g_wn_frees;
void real_free(void * p) {
  g_free_calls++;
  if (p == g_wn) g_wn_frees++;
}

static _Bool build_tree(_Bool with_root) {
  int i;
  /* embedded bump pool unused by canonical nodes: every canonical node counts as malloc'ed unless it lies in
     pre_alloc_buf -- it never does, so destroy must hand each present node to free exactly once */
  T.pre_alloc_p = T.pre_alloc_buf;
  T.root = with_root ? &P0[0] : 0;
  P0[0].type = myth_tls_tree_node_type_internal;
  for (i = 0; i < 4; i++)  { P1[i].type = myth_tls_tree_node_type_internal; P0[0].children[i] = nondet_bool() ? &P1[i] : 0; }
  for (i = 0; i < 16; i++) { P2[i].type = myth_tls_tree_node_type_internal; P1[i / 4].children[i % 4] = nondet_bool() ? &P2[i] : 0; }
  for (i = 0; i < 64; i++) { P3[i].type = myth_tls_tree_node_type_leaf;     P2[i / 4].children[i % 4] = nondet_bool() ? (myth_tls_tree_node_t *)&P3[i] : 0; }
  return 1;
}

static _Bool key_present(int k) {       /* is the leaf of key k reachable? */
  int l = k >> 4;
  return T.root != 0 && P0[0].children[l >> 4] != 0 && P1[l >> 4].children[(l >> 2) & 3] != 0 && P2[l >> 2].children[l & 3] != 0;
}

void h_fini(void) {
  int i;
  _Bool with_root = nondet_bool();
  build_tree(with_root);
  g_k = nondet_int();
  __CPROVER_assume(0 <= g_k && g_k < myth_tls_n_keys);
  for (i = 0; i < myth_tls_n_keys; i++) {
    P3[i >> 4].entries[i & 15].value = nondet_bool() ? (void *)&VAL[i] : 0;
    KA.keys[i].destructor = nondet_bool() ? D_other : 0;
    KA.keys[i].next = (myth_tls_key_entry_t *)-1;       /* live */
  }
  _Bool watched_has_destructor = nondet_bool();
  KA.keys[g_k].destructor = watched_has_destructor ? D_watch : 0;
  void * v_k = P3[g_k >> 4].entries[g_k & 15].value;
  _Bool present = key_present(g_k);
  g_watch_calls = g_watch_bad_arg = g_watch_null_calls = g_other_got_watched_value = g_free_calls = g_free_pool = 0;

  /* witness node for the release obligations */
  int wl = nondet_int(), wi = nondet_int();
  __CPROVER_assume(0 <= wl && wl <= 3 && 0 <= wi && wi < (wl == 0 ? 1 : wl == 1 ? 4 : wl == 2 ? 16 : 64));
  _Bool wn_present = T.root != 0;
  if (wl == 0) g_wn = &P0[0];
  if (wl == 1) { g_wn = &P1[wi]; wn_present = wn_present && P0[0].children[wi] != 0; }
  if (wl == 2) { g_wn = &P2[wi]; wn_present = wn_present && P0[0].children[wi >> 2] != 0 && P1[wi >> 2].children[wi & 3] != 0; }
  if (wl == 3) { g_wn = &P3[wi]; wn_present = wn_present && P0[0].children[wi >> 4] != 0 && P1[wi >> 4].children[(wi >> 2) & 3] != 0 && P2[wi >> 2].children[wi & 3] != 0; }
  g_wn_frees = 0;

  myth_tls_tree_fini(&T, &KA);

  __CPROVER_assert(g_wn_frees == (wn_present ? 1 : 0), "C11/C12: every node of the tree is released exactly once, unreachable nodes never");

  __CPROVER_assert(!(present && v_k != 0 && watched_has_destructor) || (g_watch_calls == 1 && g_watch_null_calls == 0),
                   "C11: a live key with destructor and non-NULL value gets its destructor called exactly once");
  __CPROVER_assert(g_watch_bad_arg == 0, "C11: the destructor of key k is never called with another key's value");
  __CPROVER_assert(g_other_got_watched_value == 0, "C11: the value of key k is never passed to another key's destructor");
  __CPROVER_assert(g_watch_calls <= 1, "C11: no destructor runs twice for the same key");
  __CPROVER_assert(watched_has_destructor || g_watch_calls == 0, "C11: no call for a key registered without destructor");
  __CPROVER_assert((present && watched_has_destructor) || g_watch_calls == 0, "C11: no call for a key whose leaf the thread never created");
  VERIF_CANARY();
}
