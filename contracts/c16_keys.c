/* C16 (e) -- thread-specific keys with destructors, as POSIX states them for pthread_key_create / pthread_key_delete /
 * thread exit (the program was written against that text, and the system library implements it):
 *   E1  at thread exit the destructor of a key is called only if the thread's value for that key is non-NULL;
 *   E2  no destructor is called for a key that has been deleted (pthread_key_delete), whatever value is left behind;
 *   E3  a live key with a destructor and a non-NULL value gets its destructor called, with that value (holds; C11).
 * Functions under contract (real bodies, src/myth_tls_func.h): myth_tls_call_destructors_rec at leaf level (the place
 * where the decision "call or not" is taken; the walk down to the leaves is C11's), myth_tls_key_allocator_dealloc.
 * E1 and E2 are EXPECTED TO FAIL on the pinned tree (DESIGN C16): destructor(val) is called whenever a destructor is
 * registered, also for val == NULL; myth_tls_key_allocator_dealloc leaves the destructor in the recycled cell.
 *
 * One leaf (16 keys, constant of the type), leaf index per job, any witness key in it, any values, any other destructors.
 */
#include "verif_common.h"
#include "myth_tls_func.h"

/* a leaf is myth_tls_tree_node_sz_leaf raw bytes accessed through myth_tls_tree_node_t (entries[] used beyond its declared
   bound of 1, as the library does on malloc'ed / pool memory): allocated untyped, written through a pointer variable with
   constant indices only; SH[] is the harness's own plain copy of the values (DESIGN §7 / HOWTO: CBMC 6.11 union quirks) */
myth_tls_tree_node_t * LEAFN;
void * SH[myth_tls_tree_node_n_entries_in_leaf];
static void leaf_set(myth_tls_tree_node_t * p, int j, void * v) { p->entries[j].value = v; }
static void leaf_type(myth_tls_tree_node_t * p) { p->type = myth_tls_tree_node_type_leaf; }
myth_tls_key_allocator_t KA;
char VAL[myth_tls_tree_node_n_entries_in_leaf];

int g_k;                               /* witness key */
int g_watch_calls, g_watch_null, g_watch_bad;
static void D_watch(void * v) {
  if (g_watch_calls < 2) g_watch_calls++;
  if (v == 0) g_watch_null = 1;
  else if (v != (void *)&VAL[g_k & 15]) g_watch_bad = 1;
}
static void D_other(void * v) { (void)v; }

static int world(void) {
  /* the leaf index is a job parameter (-DLEAF_IX=0 / 63): with a symbolic index into the 1024-cell key table each job took
     > 35 s; that the walk reaches every leaf with the right base is C11's contract (any base) */
  int leaf = LEAF_IX;
  int base = leaf * myth_tls_tree_node_n_entries_in_leaf;
  int w = nondet_int();                                                           /* witness key = base + w; the key table is
                                                                                     only ever indexed with constants */
  __CPROVER_assume(0 <= w && w < myth_tls_tree_node_n_entries_in_leaf);
  void * raw = malloc(myth_tls_tree_node_sz_leaf);
  __CPROVER_assume(raw != 0);
  LEAFN = raw;
  leaf_type(LEAFN);
  KA.free = 0; KA.pop_lock.locked = 0;
  for (int i = 0; i < myth_tls_tree_node_n_entries_in_leaf; i++) {                /* constant bound */
    SH[i] = nondet_bool() ? (void *)&VAL[i] : 0;
    leaf_set(LEAFN, i, SH[i]);
    KA.keys[base + i].destructor = (i == w) ? D_watch : (nondet_bool() ? D_other : 0);   /* witness: pthread_key_create(&k, D_watch) */
    KA.keys[base + i].next = (myth_tls_key_entry_t *)-1;                          /* live */
  }
  g_k = base + w;
  g_watch_calls = g_watch_null = g_watch_bad = 0;
  return base;
}

/* E1 + E3: thread exit with a live key */
void h_exit_live_key(void) {
  int base = world();
  void * v = SH[g_k - base];
  myth_tls_call_destructors_rec(LEAFN, myth_tls_tree_depth, base, myth_tls_tree_node_n_entries_in_leaf, &KA);
  __CPROVER_assert(v == 0 || (g_watch_calls == 1 && !g_watch_bad && !g_watch_null), "E3: live key, non-NULL value: destructor called exactly once with that value");
  __CPROVER_assert(g_watch_null == 0 && (v != 0 || g_watch_calls == 0), "E1: the destructor of a key is called only for a non-NULL value (POSIX pthread_key_create)");
  VERIF_CANARY();
}

/* E2: pthread_key_delete, then thread exit with the value still in place */
void h_exit_deleted_key(void) {
  int base = world();
  for (int i = 0; i < myth_tls_tree_node_n_entries_in_leaf; i++)                   /* constant indices only */
    if (i == g_k - base) { SH[i] = (void *)&VAL[i]; leaf_set(LEAFN, i, SH[i]); }
  myth_tls_destructor_fun_t f = 0;
  for (int i = 0; i < myth_tls_tree_node_n_entries_in_leaf; i++)
    if (i == g_k - base) f = myth_tls_key_allocator_dealloc(&KA, base + i);        /* = myth_key_delete_body's work */
  __CPROVER_assert(f == D_watch, "key delete: succeeds on a live key");
  __CPROVER_assert(KA.free != 0 && KA.free - KA.keys == g_k && KA.free->next != (myth_tls_key_entry_t *)-1, "key delete: the key is no longer live (back on the free list)");
  myth_tls_call_destructors_rec(LEAFN, myth_tls_tree_depth, base, myth_tls_tree_node_n_entries_in_leaf, &KA);
  __CPROVER_assert(g_watch_calls == 0, "E2: no destructor is called for a deleted key at thread exit (POSIX pthread_key_delete)");
  VERIF_CANARY();
}
