#!/bin/sh
# offline set-up: nothing to build -- the driver is Python 3 (stdlib only), the engines are the pre-installed
# cbmc/goto-cc/goto-instrument and (C03) python3-vt with z3.  Just check they are there.
set -e
cd "$(dirname "$0")"
for t in cbmc goto-cc goto-instrument gcc python3 rsync patch; do command -v $t >/dev/null || { echo "missing tool: $t"; exit 1; }; done
test -f /repo/src/config.h || { echo "/repo is not configured (src/config.h missing)"; exit 1; }
mkdir -p work evidence replays
echo setup ok
