#!/usr/bin/env python3
"""mk_locals_baseline.py: records, for every job whose loop contracts name locals of /repo code (symbol_map), the locals
of those functions on the CURRENT tree -> contracts/locals_baseline.json.  Run on the unchanged tree only (it is the
reference against which lib/vf.py recognises a pure rename of one local)."""
import os, sys, json, importlib, shutil
HERE = os.path.dirname(os.path.abspath(__file__))
sys.path.insert(0, os.path.join(HERE, "lib")); sys.path.insert(0, HERE)
import vf

def main():
    out = {}
    seen = set()
    for pid in sorted(open(os.path.join(HERE, "units", "READY")).read().split()):
        u = importlib.import_module("units." + pid.lower())
        for j in u.JOBS:
            if j.name in seen or not isinstance(j.loops, dict):
                continue
            if not any(e.get("symbol_map") for es in j.loops.values() for e in es):
                continue
            seen.add(j.name)
            wd = os.path.join(vf.WORK, j.name + ".locals")
            shutil.rmtree(wd, ignore_errors=True); os.makedirs(wd)
            log = open(os.path.join(wd, "log.txt"), "w")
            try:
                unit_i, _ = vf.preprocess(j, wd, log)
                a_gb = os.path.join(wd, "a.gb")
                rc, text, _ = vf.run(["goto-cc", "--function", j.harness, unit_i, "-o", a_gb], 300)
                if rc != 0:
                    print("SKIP", j.name, text[-200:]); continue
                out[j.name] = vf.function_locals(a_gb, list(j.loops.keys()))
                print(j.name, {f: len(v) for f, v in out[j.name].items()})
            finally:
                log.close(); shutil.rmtree(wd, ignore_errors=True)
    json.dump(out, open(vf.LOCALS_BASELINE, "w"), indent=1, sort_keys=True)
    print("wrote", vf.LOCALS_BASELINE, len(out), "jobs")

if __name__ == "__main__":
    main()
