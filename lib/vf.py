"""Core of the contract-verification driver (see DESIGN.md §2, §3.6, §8).

A *unit* (one per property, units/cNN.py) is a list of Job objects.  A Job is one
goto-cc → goto-instrument --dfcc → cbmc pipeline on a harness translation unit
under contracts/ that #includes the real sources of the repository.

Exit codes of a check: 0 every obligation discharged, 1 violation, 2 undecided
(tool failure, extraction broke, timeout, vacuity) -- never reported as violation.
"""
import json, os, re, resource, shutil, subprocess, sys, threading, time, hashlib, signal, atexit
from concurrent.futures import ThreadPoolExecutor

VERIF = os.path.dirname(os.path.dirname(os.path.abspath(__file__)))
REPO = os.environ.get("VERIF_REPO", "/repo")
WORK = os.environ.get("VERIF_WORK", os.path.join(VERIF, "work"))
CONTRACTS = os.path.join(VERIF, "contracts")

# the flags of the real build (src/Makefile), plus our guard (no file of /repo tests it)
CPPFLAGS = ["-DHAVE_CONFIG_H", "-D_GNU_SOURCE", "-D_XOPEN_SOURCE", "-D_DARWIN_C_SOURCE",
            "-DMYTH_WRAP=MYTH_WRAP_VANILLA", "-DMYTH_VERIF=1"]

SAFETY = ["--bounds-check", "--pointer-check", "--signed-overflow-check",
          "--undefined-shift-check", "--div-by-zero-check", "--conversion-check"]

# ---------------------------------------------------------------- must-fire rewrites (DESIGN §2.1)
R1_FROM = ("myth_tls_tree_node_sz_leaf = (size_t)(&((myth_tls_tree_node_t *)0)->entries"
           "[myth_tls_tree_node_n_entries_in_leaf])")
R1_TO = ("myth_tls_tree_node_sz_leaf = __builtin_offsetof(myth_tls_tree_node_t, "
         "entries[myth_tls_tree_node_n_entries_in_leaf])")
R2_RE = re.compile(r"static\s+__attribute__\(\(used,noinline,sysv_abi\)\)")


class Undecided(Exception):
    pass


class Job:
    def __init__(self, name, tu, harness, enforce=(), replace=(), loops=None, loop_counts=None,
                 cbmc=(), timeout=300, mem_gb=8, kind="proof", tiers=("quick", "thorough"),
                 defines=(), fuc=(), assumes=(), solver=None, rec=(), no_canary=False,
                 restrict_fp=(), safety=None, note="", r1=None, r2=None, nondet_static=False,
                 expect_unwind_fail=False, drop_checks=(), replace_calls=(), native=None, read_hooks=(), rewrites=(), unknown_ok=(), degraded_unwind=4):
        self.name = name            # job id, unique in the unit
        self.tu = tu                # file under contracts/
        self.harness = harness      # entry function
        self.enforce = list(enforce)    # ["f/contract", ...]
        self.rec = list(rec)            # --enforce-contract-rec
        self.replace = list(replace)    # ["g/contract", ...]
        self.loops = loops          # loop contracts JSON under contracts/
        self.loop_counts = loop_counts or {}   # {function: number of loops expected}
        self.cbmc = list(cbmc)
        self.timeout = timeout
        self.mem_gb = mem_gb
        self.kind = kind            # "proof" | "bounded"
        self.tiers = tiers
        self.defines = list(defines)
        self.fuc = list(fuc)        # functions under contract (real bodies analysed)
        self.assumes = list(assumes)    # assumptions specific to this job
        self.solver = solver        # None (SAT) | "cvc5" | "z3"
        self.no_canary = no_canary
        self.restrict_fp = list(restrict_fp)
        self.safety = SAFETY if safety is None else list(safety)
        self.note = note
        self.r1 = r1                # expected fire count of rewrite R1 (None = 0 or 1 accepted and recorded)
        self.r2 = r2
        self.nondet_static = nondet_static
        self.drop_checks = list(drop_checks)
        self.replace_calls = list(replace_calls)   # ["f:g"] stubs WITH bodies (goto-instrument --replace-calls)
        self.native = native
        self.read_hooks = list(read_hooks)   # [(field, hook_fn)]: rule R4, see preprocess()
        self.unknown_ok = [re.compile(x) for x in unknown_ok]   # obligations CBMC leaves UNKNOWN behind a benign-listed failed check
        self.degraded_unwind = int(degraded_unwind)   # unwinding bound of the bounded search that replaces a proof whose loop contracts no longer fit
        self.rewrites = list(rewrites)       # [(from, to, expected_count)]: job-specific must-fire rewrites (a bounded stand-in must say so)


class Obligation:
    __slots__ = ("job", "prop", "desc", "status", "func", "line", "file", "trace")

    def __init__(self, job, prop, desc, status, func, line, file, trace=None):
        self.job, self.prop, self.desc, self.status = job, prop, desc, status
        self.func, self.line, self.file, self.trace = func, line, file, trace

    def key(self):
        return "%s:%s: %s" % (self.job, self.func or "-", self.desc)


def _limits(mem_gb):
    def f():
        b = int(mem_gb * (1 << 30))
        resource.setrlimit(resource.RLIMIT_AS, (b, b))
        os.setsid()
    return f


_LIVE = set()


def _kill_all(*a):
    for pid in list(_LIVE):
        try:
            os.killpg(pid, 9)
        except Exception:
            pass
    if a:
        os._exit(2)


atexit.register(_kill_all)
try:
    signal.signal(signal.SIGTERM, _kill_all)
    signal.signal(signal.SIGINT, _kill_all)
except ValueError:
    pass


def run(cmd, timeout, mem_gb=8, cwd=None, stdout_path=None):
    t0 = time.time()
    out = open(stdout_path, "wb") if stdout_path else subprocess.PIPE
    try:
        p = subprocess.Popen(cmd, stdout=out, stderr=subprocess.PIPE if stdout_path else subprocess.STDOUT,
                             cwd=cwd, preexec_fn=_limits(mem_gb))
        _LIVE.add(p.pid)
        try:
            so, se = p.communicate(timeout=timeout)
        except subprocess.TimeoutExpired:
            try:
                os.killpg(p.pid, 9)
            except Exception:
                p.kill()
            p.communicate()
            return None, "TIMEOUT after %ds" % timeout, time.time() - t0
    finally:
        if stdout_path:
            out.close()
    _LIVE.discard(p.pid)
    text = (so or b"").decode("utf-8", "replace") + (se or b"").decode("utf-8", "replace")
    return p.returncode, text, time.time() - t0


def preprocess(job, wd, log):
    src = os.path.join(CONTRACTS, job.tu)
    if not os.path.exists(os.path.join(REPO, "src", "config.h")):
        raise Undecided("%s/src/config.h missing: the repository is not configured" % REPO)
    out_i = os.path.join(wd, "unit.i")
    cmd = ["gcc", "-E", "-I" + CONTRACTS, "-I" + os.path.join(REPO, "src"), "-I" + os.path.join(REPO, "include"),
           "-I" + os.path.join(REPO, "src", "profiler")] + CPPFLAGS + job.defines + [src, "-o", out_i]
    rc, text, _ = run(cmd, 120)
    log.write("$ %s\n%s\n" % (" ".join(cmd), text))
    if rc != 0:
        raise Undecided("gcc -E failed (the tree does not preprocess): " + text[-400:])
    s = open(out_i).read()
    n1 = s.count(R1_FROM)
    s = s.replace(R1_FROM, R1_TO)
    s, n2 = R2_RE.subn("static", s)
    # rule R1 must fire iff myth_tls.h is in the unit; rule R2 fires once per MYTH_CTX_CALLBACK
    has_tls = "myth_tls_tree_node_sz_leaf" in s
    if has_tls and n1 != 1:
        raise Undecided("extraction rule R1 fired %d times (expected 1): myth_tls.h changed shape" % n1)
    ncb_decl = len(re.findall(r"__attribute__\(\(used,noinline,sysv_abi\)\)", s))
    if ncb_decl:
        raise Undecided("extraction rule R2 left %d callback attributes in place" % ncb_decl)
    if job.r2 is not None and n2 != job.r2:
        raise Undecided("extraction rule R2 fired %d times, recorded %d" % (n2, job.r2))
    fires = {"R1": n1, "R2": n2}
    for k, (frm, to, cnt) in enumerate(job.rewrites):
        n = s.count(frm)
        if n != cnt:
            raise Undecided("job rewrite %d fired %d times, recorded %d: %r" % (k, n, cnt, frm))
        s = s.replace(frm, to)
        fires["job%d" % k] = n
    if job.read_hooks:
        # R4: inside text that comes from files of the repository, every rvalue read `X->field` of a protocol
        # word (not `&X->field`, not the left side of a plain assignment) becomes `(*hook(&(X->field)))`; the hook
        # performs an environment step before the read, so two reads of the word are never assumed to agree.
        out, cur_repo, n4 = [], False, 0
        for ln in s.split("\n"):
            m = re.match(r'# \d+ "([^"]*)"', ln)
            if m:
                cur_repo = m.group(1).startswith(REPO + "/")
                out.append(ln)
                continue
            if cur_repo:
                for field, hook in job.read_hooks:
                    rx = re.compile(r"(?<![&\w>.])(\b\w+(?:\[\d+\])?)->" + field + r"\b(?!\s*(?:=[^=]|\+=|-=|\+\+|--|\[|->|\.))")
                    ln, k = rx.subn(r"(*({ __typeof__(&(\1->%s)) verif_rp = &(\1->%s); %s((volatile void *)verif_rp); "
                                    r"verif_rp; }))" % (field, field, hook), ln)
                    n4 += k
            out.append(ln)
        s = "\n".join(out)
        fires["R4"] = n4
        if n4 == 0:
            raise Undecided("extraction rule R4 (read hook) did not fire")
    open(out_i, "w").write(s)
    return out_i, fires


def loop_check(job, a_gb, log):
    """abort (exit 2) if the number of loops in a function under loop contract differs from the recorded one"""
    if not job.loop_counts:
        return
    rc, text, _ = run(["goto-instrument", "--show-loops", a_gb], 120)
    if rc != 0:
        raise Undecided("goto-instrument --show-loops failed")
    counts = {}
    for m in re.finditer(r"^Loop (\S+?)\.(\d+):", text, re.M):
        counts[m.group(1)] = counts.get(m.group(1), 0) + 1
    for f, n in job.loop_counts.items():
        if counts.get(f, 0) != n:
            raise Undecided("function %s has %d loops, contracts were written for %d: loop ordinals may have "
                            "shifted" % (f, counts.get(f, 0), n))


LOCALS_BASELINE = os.path.join(CONTRACTS, "locals_baseline.json")


def function_locals(gb, funcs):
    """names of the source-level locals and parameters of the given functions in a goto binary"""
    rc, text, _ = run(["goto-instrument", "--show-symbol-table", gb], 120)
    out = {f: [] for f in funcs}
    for m in re.finditer(r"^Symbol\.+: (\S+)$", text or "", re.M):
        n = m.group(1)
        f = n.split("::")[0]
        if f in out and "::" in n and "$" not in n:
            out[f].append(n)
    return {f: sorted(v) for f, v in out.items()}


def remap_renamed_locals(job, a_gb, log):
    """A loop contract names locals of /repo code through symbol_map.  If exactly one local of the function was renamed
    (baseline minus current = one name, current minus baseline = one name) the map is re-pointed at the new name; the
    caller falls back to the bounded search if anything then fails.  Returns (loops, note) or (None, None)."""
    if not isinstance(job.loops, dict) or not os.path.exists(LOCALS_BASELINE):
        return None, None
    base = json.load(open(LOCALS_BASELINE)).get(job.name)
    if not base:
        return None, None
    cur = function_locals(a_gb, list(job.loops.keys()))
    ren = {}
    for f in job.loops:
        b, c = set(base.get(f, [])), set(cur.get(f, []))
        gone, new = sorted(b - c), sorted(c - b)
        if not gone and not new:
            continue
        if len(gone) == 1 and len(new) == 1 and gone[0].rsplit("::", 1)[0] == new[0].rsplit("::", 1)[0]:
            ren[gone[0]] = new[0]
        else:
            return None, None
    if not ren:
        return None, None
    loops = {}
    for f, es in job.loops.items():
        loops[f] = []
        for e in es:
            e = dict(e)
            sm = e.get("symbol_map", "")
            for old_n, new_n in ren.items():
                sm = ";".join((x.split(",")[0] + "," + new_n) if x.split(",")[-1] == old_n else x for x in sm.split(";") if x)
            e["symbol_map"] = sm
            loops[f].append(e)
    note = "; ".join("%s -> %s" % kv for kv in ren.items())
    log.write("loop-contract locals re-pointed after a pure rename: %s\n" % note)
    return loops, note


def pipeline(job, trace_props=None, tag="", force_degraded=None):
    """returns (list[Obligation], info dict); raises Undecided"""
    wd = os.path.join(WORK, job.name + tag)
    shutil.rmtree(wd, ignore_errors=True)
    os.makedirs(wd)
    log = open(os.path.join(wd, "log.txt"), "w")
    info = {"job": job.name, "stages": {}, "kind": job.kind, "enforced": list(job.enforce) + list(job.rec), "replaced": list(job.replace) + list(job.replace_calls),
            "loops": sorted(job.loops.keys()) if isinstance(job.loops, dict) else ([job.loops] if job.loops else [])}
    try:
        t0 = time.time()
        unit_i, fires = preprocess(job, wd, log)
        info["rewrites"] = fires
        a_gb, b_gb = os.path.join(wd, "a.gb"), os.path.join(wd, "b.gb")
        cmd = ["goto-cc", "--function", job.harness, unit_i, "-o", a_gb]
        rc, text, dt = run(cmd, 300)
        log.write("$ %s\n%s\n" % (" ".join(cmd), text))
        if rc != 0 or not os.path.exists(a_gb):
            raise Undecided("goto-cc failed: " + text[-600:])
        info["stages"]["goto-cc"] = round(dt, 2)
        degraded = force_degraded
        loops_now, renamed = (None, None)
        try:
            if not degraded:
                loop_check(job, a_gb, log)
                loops_now, renamed = remap_renamed_locals(job, a_gb, log)
                if renamed:
                    info["renamed_locals"] = renamed
        except Undecided as e:
            # the loop structure of a function under loop contract changed: the proof cannot be attempted.  Fall back
            # to a bounded search for counterexamples WITHOUT loop contracts: a failure found there is a real
            # counterexample of the (changed) code; finding none decides nothing (exit 2).
            degraded = str(e)
            info["degraded"] = degraded
        if force_degraded:
            info["degraded"] = force_degraded
        cur = a_gb
        if job.replace_calls:
            c_gb = os.path.join(wd, "c.gb")
            cmd = ["goto-instrument"]
            for r in job.replace_calls:
                cmd += ["--replace-calls", r]
            for r in job.restrict_fp:          # must happen in the first pass: later passes have already removed the pointers
                cmd += ["--restrict-function-pointer", r]
            cmd += [a_gb, c_gb]
            rc, text, dt = run(cmd, 300)
            log.write("$ %s\n%s\n" % (" ".join(cmd), text))
            if rc != 0 or not os.path.exists(c_gb):
                raise Undecided("goto-instrument --replace-calls failed: " + text[-600:])
            a_gb = c_gb
            cur = c_gb
        if job.enforce or job.replace or job.loops or job.rec:
            cmd = ["goto-instrument", "--dfcc", job.harness]
            for e in job.enforce:
                cmd += ["--enforce-contract", e]
            for e in job.rec:
                cmd += ["--enforce-contract-rec", e]
            for r in job.replace:
                cmd += ["--replace-call-with-contract", r]
            if not job.replace_calls:
                for r in job.restrict_fp:
                    cmd += ["--restrict-function-pointer", r]
            if job.loops and not degraded:
                lf = os.path.join(wd, "loops.json")
                if isinstance(job.loops, dict):
                    # {function: [ {loop_id, assigns, invariants, decreases?, symbol_map?}, ... ]}
                    doc = {"functions": [{f: [dict((k, v) for k, v in e.items() if v not in ("", None)) for e in es]}
                                         for f, es in (loops_now or job.loops).items()]}
                    json.dump(doc, open(lf, "w"), indent=1)
                else:
                    shutil.copy(os.path.join(CONTRACTS, job.loops), lf)
                cmd += ["--loop-contracts-file", lf, "--apply-loop-contracts"]
            if job.nondet_static:
                cmd += ["--nondet-static"]
            cmd += [a_gb, b_gb]
            rc, text, dt = run(cmd, 600, mem_gb=job.mem_gb)
            log.write("$ %s\n%s\n" % (" ".join(cmd), text))
            if (rc != 0 or not os.path.exists(b_gb)) and job.loops and not degraded and "--loop-contracts-file" in cmd:
                # the loop contracts could not be applied to the (changed) code: bounded search for counterexamples instead
                degraded = "loop contracts could not be applied: " + text[-200:].replace("\n", " ")
                info["degraded"] = degraded
                i = cmd.index("--loop-contracts-file")
                cmd2 = cmd[:i] + cmd[i + 3:]
                rc, text, dt = run(cmd2, 600, mem_gb=job.mem_gb)
                log.write("$ %s\n%s\n" % (" ".join(cmd2), text))
            if rc != 0 or not os.path.exists(b_gb):
                raise Undecided("goto-instrument failed: " + text[-800:])
            info["stages"]["goto-instrument"] = round(dt, 2)
            cur = b_gb
        # text UI for the all-properties run (the JSON UI builds a trace for every failed property, which made a
        # run with 20 failures five times slower); JSON UI only for the single-property trace run of a replay
        out_txt = os.path.join(wd, "result.json" if trace_props else "result.txt")
        cmd = ["cbmc", cur, "--verbosity", "8", "--drop-unused-functions", "--object-bits", "12"] + job.safety + job.cbmc
        if degraded:
            cmd = [c for c in cmd if c != "--unwinding-assertions"] + ["--unwind", str(job.degraded_unwind), "--no-unwinding-assertions"]   # cbmc 6 has them on by default
            # the loops of dfcc's own instrumentation (write-set bookkeeping) must not be cut by the small bound meant for the
            # loops of the code: they get a bound of their own
            rc_i, text_i, _ = run(["goto-instrument", "--show-loops", cur], 120)
            internal = sorted(set(m.group(1) for m in re.finditer(r"^Loop (__CPROVER_contracts\S*?\.\d+):", text_i or "", re.M)))
            if internal:
                cmd += ["--unwindset", ",".join("%s:64" % n for n in internal)]
            if job.degraded_unwind > 8:
                # a deep bounded search: keep it feasible by unwinding the LAST-numbered loop of every function with
                # several loops (the outermost of a nest: back edges are numbered in order) only 3 times.  Any choice of
                # bounds is sound for refutation; it only decides how far the search looks.
                rc_, text_, _ = run(["goto-instrument", "--show-loops", cur], 120)
                last = {}
                for m in re.finditer(r"^Loop (\S+?)\.(\d+):", text_ or "", re.M):
                    last.setdefault(m.group(1), []).append(int(m.group(2)))
                us = ["%s.%d:3" % (f, max(ns)) for f, ns in last.items() if len(ns) > 1 and not f.startswith("__CPROVER")]
                if us:
                    cmd += ["--unwindset", ",".join(us)]
        if job.solver:
            cmd += ["--" + job.solver]
        if trace_props:
            cmd += ["--json-ui", "--trace"]
            for p in trace_props:
                cmd += ["--property", p]
        if degraded and not trace_props:
            # nothing can be proved any more: look for ONE counterexample among the obligations of the specification
            # (--stop-on-fail on that subset: one solver call on a sliced formula instead of one per obligation)
            t1 = time.time()
            # the unwinding bound also cuts the loops of dfcc's own instrumentation (write-set bookkeeping): with too small
            # a bound the end of the harness is unreachable and the search is vacuous.  Deepen until the canary is reachable.
            if not job.no_canary:
                ub = job.degraded_unwind
                for _ in range(4):
                    if canary_reachable(job, cmd, log):
                        break
                    ub *= 4
                    i = len(cmd) - 1 - cmd[::-1].index("--unwind")
                    cmd[i + 1] = str(ub)
                    log.write("bounded search: end of the harness not reachable, unwinding bound raised to %d\n" % ub)
                else:
                    info["degraded"] += " (bounded search vacuous: the end of the harness is not reachable within the unwinding bound)"
                    info["stages"]["cbmc"] = round(time.time() - t1, 2)
                    return [], info
            info["checker_cmd"] = " ".join(cmd).replace(WORK + "/", "work/") + " --stop-on-fail --property <spec obligations>"
            o = stop_on_fail(job, cmd, wd, log, spec_only=True)
            info["stages"]["cbmc"] = round(time.time() - t1, 2)
            info["wall"] = round(time.time() - t0, 2)
            return ([o] if o else []), info
        rc, text, dt = run(cmd, job.timeout, mem_gb=job.mem_gb, stdout_path=out_txt)
        log.write("$ %s\nrc=%s %.1fs\n%s\n" % (" ".join(cmd), rc, dt, text[-2000:]))
        info["stages"]["cbmc"] = round(dt, 2)
        info["checker_cmd"] = " ".join(cmd).replace(WORK + "/", "work/")
        if rc is None:
            partial = None
            if not trace_props and "SATISFIABLE" in open(out_txt, errors="replace").read().replace("UNSATISFIABLE", ""):
                # the solver had already found a counterexample for some obligation and then stalled on the others:
                # ask for that one (--stop-on-fail); everything else of the job stays undecided
                partial = stop_on_fail(job, cmd, wd, log)
            if partial is None:
                raise Undecided("cbmc " + text)
            info["partial_after_timeout"] = "cbmc " + text
            info["wall"] = round(time.time() - t0, 2)
            return [partial], info
        obls = []
        if trace_props:
            try:
                doc = json.load(open(out_txt))
            except Exception as e:
                raise Undecided("cbmc produced no parsable result (rc=%s): %s" % (rc, text[-300:]))
            for el in doc:
                if isinstance(el, dict) and "result" in el:
                    for r in el["result"]:
                        sl = r.get("sourceLocation", {})
                        obls.append(Obligation(job.name, r.get("property"), r.get("description", ""), r.get("status"),
                                               sl.get("function"), sl.get("line"), sl.get("file"), r.get("trace")))
            return obls, info
        body = open(out_txt, errors="replace").read()
        if "ignoring" in body and "forall" in body:
            raise Undecided("back end ignored a quantifier")
        if "** Results:" not in body or not re.search(r"^VERIFICATION (SUCCESSFUL|FAILED)", body, re.M):
            tail = body[-500:].replace("\n", " | ")
            raise Undecided("cbmc gave no result table (rc=%s; out of memory, crash or conversion error): %s %s" % (rc, tail, text[-300:]))
        cur_file = cur_fn = None
        for ln in body[body.index("** Results:"):].split("\n"):
            m = re.match(r"^(\S.*) function (\S+)$", ln)
            if m:
                cur_file, cur_fn = m.group(1), m.group(2)
                continue
            m = re.match(r"^\[([^\]]+)\] (?:line (\d+) )?(.*): (SUCCESS|FAILURE|UNKNOWN|ERROR)$", ln)
            if m:
                fn = cur_fn or ""
                if fn.startswith("h_") and fn != job.harness:
                    continue            # another harness of the same TU
                obls.append(Obligation(job.name, m.group(1), m.group(3), m.group(4), fn, m.group(2), cur_file))
        m = re.search(r"Runtime Solver: ([\d.]+)s", body)
        info["solver_s"] = sum(float(x) for x in re.findall(r"Runtime Solver: ([\d.e+-]+)s", body))
        info["symex_s"] = sum(float(x) for x in re.findall(r"Runtime Symex: ([\d.e+-]+)s", body))
        vc = re.findall(r"^(\d+) variables, (\d+) clauses", body, re.M)
        if vc:
            info["sat_vars"], info["sat_clauses"] = max(int(v) for v, _ in vc), max(int(c) for _, c in vc)
        info["wall"] = round(time.time() - t0, 2)
        skip_rx = [rx for (_, rx, _) in parse_benign()] + [rx for (_, rx, _) in parse_known()]
        if renamed and any(o.status != "SUCCESS" and CANARY not in o.desc and not any(rx.search(o.key()) for rx in skip_rx) for o in obls):
            log.write("obligations fail after re-pointing renamed locals: falling back to the bounded search\n")
            log.close()
            return pipeline(job, trace_props, tag, force_degraded="a local named in a loop contract was renamed (%s) and the proof did not go through with the re-pointed contract" % renamed)
        return obls, info
    finally:
        log.close()


def spec_obligation(job, prop, func, desc, file_=None):
    """obligations of the specification itself (harness assertions, contract clauses, GUARANTEEs, asserts of the stubs and
    of the functions under contract) -- as opposed to generic safety checks of code that runs outside its contracts"""
    pr = prop or ""
    if "undefined function should be unreachable" in desc:
        return False          # code outside the job's contracts reached a callee the job has no body for: noise, not a verdict
    in_harness_tu = bool(file_) and (os.path.abspath(file_).startswith(CONTRACTS + os.sep) or os.path.abspath(file_).startswith(os.path.join(WORK, "gen")))
    return (func == job.harness or ".precondition." in pr or ".postcondition." in pr or desc.startswith("GUARANTEE") or
            (".assertion." in pr and (func in job.fuc or (func or "").startswith("verif_") or in_harness_tu)))


def canary_reachable(job, cmd, log):
    """is the end of the harness reachable under the unwinding bound of cmd?  (the canary assertion must FAIL)"""
    base = [c for c in cmd if c not in ("--json-ui", "--trace")]
    rc, text, dt = run(base + ["--show-properties", "--json-ui"], 120, mem_gb=job.mem_gb)
    names = []
    try:
        for el in json.loads(text[text.index("["):]):
            for pr in (el.get("properties", []) if isinstance(el, dict) else []):
                if CANARY in (pr.get("description") or "") and (pr.get("sourceLocation", {}).get("function") or "") == job.harness:
                    names.append(pr.get("name"))
    except Exception:
        return True          # cannot tell: do not block the search
    if not names:
        return True
    c2 = base[:]
    for n in names:
        c2 += ["--property", n]
    rc, text, dt = run(c2, min(job.timeout, 200), mem_gb=job.mem_gb)
    log.write("canary reachability under the bound: rc=%s %.1fs\n" % (rc, dt))
    return rc is None or "VERIFICATION FAILED" in (text or "")


def stop_on_fail(job, cmd, wd, log, spec_only=False):
    """after a timeout of the all-obligations run: one failed obligation (not the canary, not a benign-listed or known
    one) with its real property name, or None"""
    base = [c for c in cmd if c not in ("--json-ui", "--trace")]
    rc, text, dt = run(base + ["--show-properties", "--json-ui"], 120, mem_gb=job.mem_gb)
    props = {}
    try:
        for el in json.loads(text[text.index("["):]):
            for pr in (el.get("properties", []) if isinstance(el, dict) else []):
                sl = pr.get("sourceLocation", {})
                props[pr.get("name")] = (sl.get("function") or "", str(sl.get("line")), pr.get("description") or "", sl.get("file"))
    except Exception:
        return None
    skip = [rx for (_, rx, _) in parse_benign()] + [rx for (_, rx, _) in parse_known()]
    sel = []
    for name, (fn, line, desc, file_) in props.items():
        key = "%s:%s: %s" % (job.name, fn, desc)
        if CANARY in desc or any(rx.search(key) for rx in skip) or (fn.startswith("h_") and fn != job.harness):
            continue
        if spec_only and not spec_obligation(job, name, fn, desc, file_):
            continue
        sel.append(name)
    if not sel:
        return None
    sof = os.path.join(wd, "stop_on_fail.txt")
    c2 = base + ["--stop-on-fail"]
    for n in sel:
        c2 += ["--property", n]
    rc, text, dt = run(c2, min(job.timeout, 300), mem_gb=job.mem_gb, stdout_path=sof)
    log.write("$ %s ... --stop-on-fail (%d properties)\nrc=%s %.1fs\n" % (" ".join(base), len(sel), rc, dt))
    if rc is None:
        return None
    body = open(sof, errors="replace").read()
    m = re.search(r"^Violated property:\n  file (\S+) function (\S+) line (\d+) thread \d+\n  (.*)\n", body, re.M)
    if not m:
        return None
    file_, fn, line, desc = m.group(1), m.group(2), m.group(3), m.group(4)
    prop = None
    for want in ((fn, line, desc), (None, line, desc), (None, None, desc)):       # the reported function can differ from the
        for name in sel:                                                          # property's (contract clauses): line + text decide
            f_, l_, d_ = props[name][:3]
            if d_ == want[2] and (want[1] is None or l_ == want[1]) and (want[0] is None or f_ == want[0]):
                prop = name
                break
        if prop:
            break
    if prop:
        fn = props[prop][0] or fn
    return Obligation(job.name, prop or ("%s.line%s" % (fn, line)), desc, "FAILURE", fn, line, file_)


# ---------------------------------------------------------------- classification

def load_patterns(path):
    pats = []
    if os.path.exists(path):
        for ln in open(path):
            ln = ln.rstrip("\n")
            if not ln.strip() or ln.startswith("#"):
                continue
            pats.append(ln)
    return pats


def parse_benign():
    """lines: <property-id|*> <TAB> <regex on 'job:function: description'> <TAB> reason"""
    out = []
    for ln in load_patterns(os.path.join(CONTRACTS, "benign_obligations.txt")):
        parts = ln.split("\t")
        if len(parts) >= 3:
            out.append((parts[0], re.compile(parts[1]), parts[2]))
    return out


def parse_known():
    """known_findings.txt lines:
         known: property=<id> match=<regex on 'job:function: description'> :: <what fails>
         fixed: property=<id> <commit> <what failed>            (suppresses nothing)"""
    known = []
    for ln in load_patterns(os.path.join(VERIF, "known_findings.txt")):
        m = re.match(r"known:\s+property=(\S+)\s+match=(.*?)\s+::\s+(.*)$", ln)
        if m:
            known.append((m.group(1), re.compile(m.group(2)), m.group(3)))
    return known


CANARY = "CANARY"


class UnitResult:
    def __init__(self):
        self.obls = []          # all obligations (proof jobs)
        self.bounded = []       # obligations of bounded jobs
        self.infos = []
        self.undecided = []     # (job, reason)
        self.violations = []    # Obligation
        self.known_hits = []    # (Obligation, text)
        self.benign_hits = []


def run_unit(pid, jobs, tier, seed=0, only=None):
    jobs = [j for j in jobs if tier in j.tiers and (only is None or j.name in only)]
    if seed:
        import random
        random.Random(seed).shuffle(jobs)
    res = UnitResult()
    benign = parse_benign()
    known = parse_known()
    total = int(os.environ.get("VERIF_MEM_SLOTS", "44"))   # GB
    state = {"free": total}
    cv = threading.Condition()

    def one(job):
        n = min(total, max(1, int(job.mem_gb)))
        with cv:                               # all-or-nothing: acquiring slot by slot deadlocks when several jobs hold a part each
            while state["free"] < n:
                cv.wait()
            state["free"] -= n
        try:
            return job, pipeline(job), None
        except Undecided as e:
            return job, None, str(e)
        except Exception as e:   # never turn a driver bug into a verdict
            return job, None, "driver error: %r" % (e,)
        finally:
            with cv:
                state["free"] += n
                cv.notify_all()

    with ThreadPoolExecutor(max_workers=int(os.environ.get("VERIF_JOBS", "14"))) as ex:
        results = list(ex.map(one, jobs))

    for job, pr, err in results:
        if err:
            res.undecided.append((job.name, err))
            continue
        obls, info = pr
        res.infos.append(info)
        canaries = [o for o in obls if CANARY in o.desc]
        rest = [o for o in obls if CANARY not in o.desc]
        if info.get("partial_after_timeout"):
            # one counterexample recovered after a timeout; nothing else of the job is decided
            for o in rest:
                if o.status == "FAILURE" and not any(p_ in ("*", pid, o.job[:3].upper()) and rx.search(o.key()) for (p_, rx, r_) in benign) \
                        and not any(p_ == pid and rx.search(o.key()) for (p_, rx, t_) in known):
                    res.obls.append(o)
                    res.violations.append(o)
            res.undecided.append((job.name, info["partial_after_timeout"] + " (one failed obligation recovered with --stop-on-fail)"))
            continue
        if info.get("degraded"):
            # only counterexamples count; nothing is proved
            bad = [o for o in rest if o.status == "FAILURE" and "unwinding assertion" not in o.desc
                   and spec_obligation(job, o.prop, o.func, o.desc, o.file)
                   and not any(p_ in ("*", pid, o.job[:3].upper()) and rx.search(o.key()) for (p_, rx, r_) in benign)
                   and not any(p_ == pid and rx.search(o.key()) for (p_, rx, t_) in known)]
            for o in bad:
                res.obls.append(o)
                res.violations.append(o)
            res.undecided.append((job.name, "DEGRADED (bounded search only, nothing proved): " + info["degraded"]))
            continue
        if not job.no_canary:
            if not canaries:
                res.undecided.append((job.name, "vacuity: no canary obligation generated"))
                continue
            if any(o.status != "FAILURE" for o in canaries):
                # the end of the harness is not reachable.  Nothing that "passed" counts -- but an obligation that FAILED
                # has a counterexample, which vacuity cannot produce: those are reported
                for o in rest:
                    if o.status == "FAILURE" and "unwinding assertion" not in o.desc \
                            and not any(p_ in ("*", pid, o.job[:3].upper()) and rx.search(o.key()) for (p_, rx, r_) in benign) \
                            and not any(p_ == pid and rx.search(o.key()) for (p_, rx, t_) in known):
                        res.obls.append(o)
                        res.violations.append(o)
                res.undecided.append((job.name, "vacuity: canary not reachable (preconditions contradictory or "
                                                "the function cannot return)"))
                continue
        if not rest:
            res.undecided.append((job.name, "vacuity: zero obligations"))
            continue
        if job.loops and not any("loop_invariant_step" in (o.prop or "") for o in rest):
            res.undecided.append((job.name, "loop contracts were not applied (no loop-invariant obligations)"))
            continue
        info["n_obligations"] = len(rest)
        for o in rest:
            if o.status == "SUCCESS":
                (res.obls if job.kind == "proof" else res.bounded).append(o)
                continue
            if o.status not in ("FAILURE",):
                if o.status == "UNKNOWN" and any(rx.search(o.key()) for rx in job.unknown_ok):
                    res.benign_hits.append((o, "left UNKNOWN by CBMC: reachable only past a benign-listed failed check (see job note); not counted as discharged"))
                    continue
                res.undecided.append((job.name, "obligation %s has status %s" % (o.prop, o.status)))
                continue
            if "unwinding assertion" in o.desc or "recursion unwinding assertion" in o.desc:
                # the unwinding bound of the job does not cover a loop of the (changed) code: a limit of the search, not a verdict
                res.undecided.append((job.name, "unwinding bound exceeded: %s in %s" % (o.desc, o.func)))
                continue
            k = o.key()
            b = [r for (p, rx, r) in benign if p in ("*", pid, o.job[:3].upper()) and rx.search(k)]
            if b:
                res.benign_hits.append((o, b[0]))
                continue
            kn = [t for (p, rx, t) in known if p == pid and rx.search(k)]
            if kn:
                res.known_hits.append((o, kn[0]))
                (res.obls if job.kind == "proof" else res.bounded).append(o)
                continue
            (res.obls if job.kind == "proof" else res.bounded).append(o)
            res.violations.append(o)
    return res, jobs
