"""Replay files for failed obligations (DESIGN §3.7).

For a failed obligation the job is re-run with --trace restricted to that property; the values CBMC chose for
the harness inputs (globals/locals of the harness function whose names start with in_ or g_) are extracted.
If the unit provides a native replay (job.native: a C file compiled against the real headers with
-DVERIF_NATIVE and fed the extracted inputs) it is run and the file says "replayed": true when the real code,
compiled by gcc, reproduces the failure.  Otherwise the file carries the obligation and the verifier's output
and the VIOLATION line ends with no-failing-input-found.
"""
import json, os, re, subprocess, time
import vf

REPLAYS = os.path.join(vf.VERIF, "replays")


def _val(v):
    if not isinstance(v, dict):
        return v
    if "data" in v:
        return v["data"]
    if "members" in v:
        return {m.get("name"): _val(m.get("value")) for m in v["members"]}
    if "elements" in v:
        return [_val(e.get("value")) for e in v["elements"]]
    return v.get("name")


def extract_inputs(trace, harness):
    """last assignment to every in_* / g_* symbol before the failure + the sequence of env-step results"""
    inputs, order = {}, []
    for st in trace or []:
        if st.get("stepType") != "assignment":
            continue
        lhs = st.get("lhs", "")
        base = re.split(r"[\.\[]", lhs)[0]
        if st.get("hidden"):
            continue
        if base.startswith("in_") or base.startswith("g_") or base.startswith("rp_"):
            v = _val(st.get("value", {}))
            fn = st.get("sourceLocation", {}).get("function")
            if base.startswith("in_") and lhs not in inputs:
                order.append(lhs)
            if base.startswith("in_"):
                if lhs in inputs and fn != harness:
                    continue
                inputs[lhs] = v
            else:
                inputs.setdefault("_ghost_history", []).append([lhs, v, fn, st.get("sourceLocation", {}).get("line")])
    if "_ghost_history" in inputs:
        inputs["_ghost_history"] = inputs["_ghost_history"][-60:]
    return inputs


def nondet_sequence(trace):
    """results of the harness' nondet_* calls, in call order, from a JSON trace"""
    seq = []
    for st in trace or []:
        if st.get("stepType") != "assignment":
            continue
        lhs = st.get("lhs", "")
        if lhs.startswith("return_value_nondet_") and not st.get("hidden") and st.get("assignmentType") != "actual-parameter" \
                and (st.get("sourceLocation", {}).get("function") or "") != "":
            v = st.get("value", {})
            d = v.get("data")
            if d is None:
                d = v.get("name")
            if d in ("TRUE", "true"):
                d = 1
            if d in ("FALSE", "false"):
                d = 0
            try:
                seq.append(int(str(d).rstrip("ulUL")))
            except Exception:
                seq.append(0)
    return seq


def native_generic(job, trace, o):
    """compile the SAME harness TU natively (gcc -DVERIF_NATIVE, sanitizers on) against the real headers, feed it the
    counterexample's inputs and run the real code.  Reproduced = the same harness obligation fails natively, or (for a
    safety obligation inside /repo code) the real code aborts / a sanitizer fires."""
    seq = nondet_sequence(trace)
    wd = os.path.join(vf.WORK, job.name + ".native")
    os.makedirs(wd, exist_ok=True)
    main_c = os.path.join(wd, "main.c")
    with open(main_c, "w") as f:
        f.write('#include "%s"\n' % os.path.join(vf.CONTRACTS, job.tu))
        f.write("const long long RP_VALUES[] = { %s };\nconst int RP_N = %d;\n" % (", ".join("%dLL" % v for v in seq) or "0", len(seq)))
        f.write("int main(void) { %s(); return verif_failed ? 1 : 0; }\n" % job.harness)
    exe = os.path.join(wd, "replay")
    cmd = ["gcc", "-O0", "-g", "-w", "-DVERIF_NATIVE=1", "-fsanitize=address,undefined", "-fno-sanitize-recover=undefined",
           "-I" + vf.CONTRACTS, "-I" + os.path.join(vf.REPO, "src"), "-I" + os.path.join(vf.REPO, "include"),
           "-I" + os.path.join(vf.REPO, "src", "profiler")] + vf.CPPFLAGS + job.defines + [main_c, "-o", exe,
           "-L/repo/src/.libs", "-Wl,-rpath,/repo/src/.libs", "-lmyth", "-lpthread"]     # the built library supplies the library's globals
    p = subprocess.run(cmd, capture_output=True, text=True)
    if p.returncode != 0:
        # symbols that only OTHER harnesses of the TU need (contract-only functions, library globals): stub them
        undef = sorted(set(re.findall(r"undefined reference to `([A-Za-z_][A-Za-z0-9_]*)'", p.stderr)))
        if not undef:
            return False, "native build failed (this job cannot be replayed natively):\n" + p.stderr[-1500:]
        stubs = os.path.join(wd, "stubs.c")
        with open(stubs, "w") as f:
            f.write("#include <stdio.h>\n#include <stdlib.h>\n")
            for u in undef:
                if u.startswith("g_"):
                    f.write("char %s[1 << 16];\n" % u)
                else:
                    f.write('void %s(void) { printf("REPLAY-NOT-POSSIBLE: contract-only function %s reached\\n"); exit(4); }\n' % (u, u))
        p = subprocess.run(cmd[:-4] + [stubs] + cmd[-4:], capture_output=True, text=True)
        if p.returncode != 0:
            return False, "native build failed (this job cannot be replayed natively):\n" + p.stderr[-1500:]
    try:
        q = subprocess.run([exe], capture_output=True, text=True, timeout=60)
        out = q.stdout + q.stderr + "\n[exit %d]" % q.returncode
        rc = q.returncode
    except subprocess.TimeoutExpired:
        out, rc = "[timeout]", -1
    if "REPLAY-ASSUMPTION-VIOLATED" in out or "REPLAY-NOT-POSSIBLE" in out or rc in (126, 127, -1):
        return False, out
    harness_obl = (o.func == job.harness)
    if harness_obl:
        return ("REPLAY-OBLIGATION-FAILED: " + o.desc) in out, out
    # an obligation inside the code under proof: reproduced only if the real code trips over the SAME thing --
    # the library's own assert with the same text, or a sanitizer report at the same source line
    if o.desc.startswith("assertion "):
        return ("Assertion `%s' failed" % o.desc[len("assertion "):]) in out, out
    loc = "%s:%s" % (os.path.basename(o.file or "?"), o.line)
    if ("runtime error" in out or "AddressSanitizer" in out) and loc in out:
        return True, out
    return False, out


def write_replay_simple(pid, name, detail):
    os.makedirs(REPLAYS, exist_ok=True)
    path = os.path.join(REPLAYS, "%s-%s.json" % (pid, re.sub(r"[^A-Za-z0-9_.-]+", "_", name)[:80]))
    json.dump({"property_id": pid, "obligation": name, "replayed": False, "verifier_output": detail,
               "note": "no-failing-input-found: the back end gave no input that can be run against the real code"},
              open(path, "w"), indent=1)
    return path


def make_replay(pid, job, o):
    os.makedirs(REPLAYS, exist_ok=True)
    slug = re.sub(r"[^A-Za-z0-9_.-]+", "_", "%s-%s-%s" % (pid, job.name, o.prop))[:100]
    path = os.path.join(REPLAYS, slug + ".json")
    doc = {"property_id": pid, "job": job.name, "obligation": o.prop, "description": o.desc,
           "function": o.func, "file": o.file, "line": o.line, "status": o.status, "replayed": False}
    trace = None
    try:
        obls, info = vf.pipeline(job, trace_props=[o.prop], tag=".trace")
        for x in obls:
            if x.prop == o.prop and x.trace:
                trace = x.trace
        doc["checker_cmd"] = info.get("checker_cmd")
    except Exception as e:
        doc["trace_error"] = str(e)
    if trace:
        doc["inputs"] = extract_inputs(trace, job.harness)
        doc["inputs"]["nondet_call_results_in_order"] = nondet_sequence(trace)
        # a compact rendering of the verifier's counterexample: the last source-level steps
        steps = []
        for st in trace:
            if st.get("hidden"):
                continue
            sl = st.get("sourceLocation", {})
            f = sl.get("file", "") or ""
            if st.get("stepType") == "assignment" and vf.REPO in f:
                steps.append("%s:%s %s = %s" % (os.path.relpath(f, vf.REPO), sl.get("line"), st.get("lhs"),
                                                 _val(st.get("value", {}))))
            elif st.get("stepType") == "failure":
                steps.append("FAILURE %s:%s %s" % (f, sl.get("line"), st.get("reason")))
        doc["verifier_counterexample_tail"] = steps[-80:]
    native = getattr(job, "native", None)
    if native is None and not os.environ.get("VERIF_NO_NATIVE"):
        native = True          # try by default; jobs whose callees exist only as contracts end in REPLAY-NOT-POSSIBLE
    if native is True:
        native = lambda j, inp, ob: native_generic(j, trace, ob)
    if native and trace:
        try:
            ok, out = native(job, doc["inputs"], o)
            doc["replayed"] = bool(ok)
            doc["native_output"] = out[-3000:]
        except Exception as e:
            doc["native_error"] = repr(e)
    if not doc["replayed"]:
        doc["note"] = ("no-failing-input-found: the counterexample passes through contract-replaced callees or "
                       "environment steps and is not reconstructed natively; the failed obligation and the "
                       "verifier's counterexample are above")
    json.dump(doc, open(path, "w"), indent=1)
    return path, doc["replayed"]


def native_run(src_rel, defines, inputs, expect_re, timeout=60, extra_cflags=()):
    """compile contracts/<src_rel> natively against the real headers with the inputs as -D macros and run it.
    returns (reproduced, output)"""
    wd = os.path.join(vf.WORK, "native")
    os.makedirs(wd, exist_ok=True)
    exe = os.path.join(wd, "replay_%d" % os.getpid())
    hdr = os.path.join(wd, "replay_inputs_%d.h" % os.getpid())
    with open(hdr, "w") as f:
        for k, v in inputs.items():
            if k.startswith("_"):
                continue
            if isinstance(v, (dict, list)):
                continue
            name = re.sub(r"[^A-Za-z0-9_]", "_", k)
            f.write("#define RP_%s (%s)\n" % (name, v))
    cmd = ["gcc", "-O0", "-g", "-w", "-DVERIF_NATIVE=1", "-include", hdr, "-I" + vf.CONTRACTS,
           "-I" + os.path.join(vf.REPO, "src"), "-I" + os.path.join(vf.REPO, "include"),
           "-I" + os.path.join(vf.REPO, "src", "profiler")] + vf.CPPFLAGS + list(defines) + list(extra_cflags) + \
          [os.path.join(vf.CONTRACTS, src_rel), "-o", exe, "-lpthread"]
    p = subprocess.run(cmd, capture_output=True, text=True)
    if p.returncode != 0:
        return False, "native build failed:\n" + p.stderr[-2000:]
    try:
        q = subprocess.run([exe], capture_output=True, text=True, timeout=timeout)
        out = q.stdout + q.stderr + "\n[exit %d]" % q.returncode
    except subprocess.TimeoutExpired:
        out = "[timeout]"
    finally:
        for x in (exe, hdr):
            try:
                os.remove(x)
            except OSError:
                pass
    return bool(re.search(expect_re, out)), out


def replay_file(path):
    doc = json.load(open(path))
    print(json.dumps({k: doc.get(k) for k in ("property_id", "job", "obligation", "description", "function",
                                               "line", "replayed", "inputs", "note")}, indent=1))
    return 0
