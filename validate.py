#!/usr/bin/env python3-vt
import json, sys, glob, jsonschema
ms = json.load(open("/root/.vp/MANIFEST.schema.json")); es = json.load(open("/root/.vp/EVIDENCE.schema.json"))
jsonschema.validate(json.load(open("/verif/MANIFEST.json")), ms); print("MANIFEST ok")
for f in sorted(glob.glob("/verif/evidence/*.json")):
    jsonschema.validate(json.load(open(f)), es); print(f, "ok")
