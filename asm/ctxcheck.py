#!/usr/local/bin/python3-vt
"""ctxcheck.py [--json] [--verbose]  -- C03 engine 2: contracts on the four inline-asm context-switch templates,
discharged with z3 (DESIGN §4 C03.2).  Run with python3-vt (z3 5.1).

Verified text = the text that is compiled: the templates are taken, on every run, from `gcc -E -P` of
contracts/c03_asm_extract.c, which includes the REAL src/myth_context_func.h of the tree named by lib/vf.py (vf.REPO,
i.e. $VERIF_REPO or /repo) and expands each macro once.  Nothing of the templates is written down here.

Model.  A template is split at its SWITCH POINT (the first instruction that loads %rsp from memory):
    save part      start .. switch point          runs on the stack of the thread being suspended
    dispatch part  switch point .. `jmp *%rax`    runs on the stack of the context switched to
    tail           label `1:` .. end              runs when somebody dispatches into the context saved by this template
and three kinds of scenario are executed symbolically over 64-bit bit-vectors and a z3 array of 64-bit words indexed by address
(exact because every access is shown to be 8 bytes wide at an address that is a multiple of 8):
    save(S)            S in {swap, swap_withcall}: every register and all memory arbitrary, entry rsp = R
    dispatch(D)        D in all four templates: into ANY context value T with T % 16 == 0 (the invariant established by
                       myth_make_context_* -- CBMC jobs of this unit -- and re-established by save(S))
    resume(S <- D)     the 2 x 4 pairs: S saved; later (all registers arbitrary = whatever other threads left there) D
                       dispatches into S's context; S's tail runs
Obligations (one z3 validity query each; sat -> violation with the model, unknown -> undecided):
    frame      after save + dispatch + tail: rsp, rbp, rbx, r12-r15 equal their values at the start of save(S); the context
               word holds the final rsp of the save part; every save-part write lies in [saved rsp, R-128) -- so the
               128-byte red zone [R-128, R) and everything above is unwritten; the resume path reads only that frame;
               the dispatch jumps to S's own label 1
    alignment  rsp % 16 == 0 at the callback's `call` (callback entered with rsp % 16 == 8), the saved rsp is again
               16-aligned, `pop;jmp` enters the target with rsp == T+8 (rsp % 16 == 8), target = the word at T
    clobber    every general-purpose register is restored by the template or named as output/clobber; "memory" (all four)
               and "cc" (swap templates) are clobbered; arg1..arg3 are bound to rdi, rsi, rdx and intact at the `call`
    structure  no `call` before the context is saved; set_* templates end in the jump and are followed by `ud2`;
               the public macros expand to exactly the statement that was checked
Instruction subset (anything else -> UNDECIDED, never a verdict):  sub/add $imm,%r   push/pop %r   lea L(%rip),%r
    mov %r,(%r) | (%r),%r | %r,%r   call sym   jmp *%r   ret   local labels;   stmxcsr/ldmxcsr/fnstcw/fldcw d(%r) (they
    occur only with MYTH_SAVE_FPCSR=1; then mxcsr and the x87 control word join the registers that must be restored; with
    MYTH_SAVE_FPCSR=0, the shipped configuration, they are not saved at all and are outside what is checked).
Trusted: these ten semantics; GCC's reading of the constraint strings (a,c,d,S,D, matching digits, clobber names);
    rsp % 16 == 0 at the asm statement (the header's own comment relies on it); the callback obeys the SysV ABI
    (preserves rsp and callee-saved registers, writes only below its entry rsp on this stack).
Assumed (not decided here, C12/C02 territory): between save and resume nobody writes the saved frame
    [saved rsp, R) or the context word; context words do not lie in the 4 KiB below the entry rsp.
"""
import sys, os, re, json, subprocess, time

HERE = os.path.dirname(os.path.abspath(__file__))
sys.path.insert(0, os.path.join(os.path.dirname(HERE), "lib"))
import vf                                    # vf.REPO: the tree under check (selftest: a mutated scratch copy)
import z3

EXTRACT_TU = os.path.join(vf.CONTRACTS, "c03_asm_extract.c")
TEMPLATES = ["swap_withcall", "swap", "set_withcall", "set"]
SAVERS = ["swap_withcall", "swap"]
GPR = ["rax", "rbx", "rcx", "rdx", "rsi", "rdi", "rbp", "rsp", "r8", "r9", "r10", "r11", "r12", "r13", "r14", "r15"]
CALLEE_SAVED = ["rbx", "rbp", "r12", "r13", "r14", "r15"]          # SysV AMD64 ABI, besides rsp
CALLER_SAVED = ["rax", "rcx", "rdx", "rsi", "rdi", "r8", "r9", "r10", "r11"]
CONSTRAINT_REG = {"a": "rax", "b": "rbx", "c": "rcx", "d": "rdx", "S": "rsi", "D": "rdi"}
ARG_REG = {"VERIF_A1": "rdi", "VERIF_A2": "rsi", "VERIF_A3": "rdx"}    # SysV: first three integer arguments
CALLBACK = "verif_callback"
EXPECT_CONFIG = {"inline_context": ("1",), "inline_push": ("1",), "save_fpcsr": ("0", "1")}
FPREGS = {"mxcsr": 32, "fpcw": 16}          # callee-saved control state; saved by the templates only if MYTH_SAVE_FPCSR
CONFIG = {}


class Undecided(Exception):
    pass


# ------------------------------------------------------------------------------------------------ extraction
def preprocess():
    cmd = ["gcc", "-E", "-P", "-I" + vf.CONTRACTS, "-I" + os.path.join(vf.REPO, "src"), "-I" + os.path.join(vf.REPO, "include"),
           "-I" + os.path.join(vf.REPO, "src", "profiler")] + vf.CPPFLAGS + [EXTRACT_TU]
    p = subprocess.run(cmd, capture_output=True, text=True, timeout=120)
    if p.returncode != 0:
        raise Undecided("gcc -E failed on the extraction unit: " + p.stderr[-400:])
    return p.stdout, " ".join(cmd)


def scan_asm_statements(text):
    """all `asm volatile( ... )` statements in text -> list of the raw text between the outer parentheses"""
    out, pos = [], 0
    while True:
        m = re.compile(r"\b(?:asm|__asm__)\s+(?:volatile|__volatile__)\s*\(").search(text, pos)
        if not m:
            return out
        i, depth, in_s = m.end(), 1, False
        start = i
        while i < len(text) and depth:
            c = text[i]
            if in_s:
                if c == "\\":
                    i += 1
                elif c == '"':
                    in_s = False
            elif c == '"':
                in_s = True
            elif c == "(":
                depth += 1
            elif c == ")":
                depth -= 1
            i += 1
        if depth:
            raise Undecided("unbalanced asm statement")
        out.append(text[start:i - 1])
        pos = i


def split_top(s, sep):
    """split s at top-level occurrences of sep (outside strings and parentheses)"""
    parts, cur, depth, in_s, i = [], "", 0, False, 0
    while i < len(s):
        c = s[i]
        if in_s:
            cur += c
            if c == "\\":
                cur += s[i + 1]
                i += 1
            elif c == '"':
                in_s = False
        elif c == '"':
            in_s = True
            cur += c
        elif c in "([":
            depth += 1
            cur += c
        elif c in ")]":
            depth -= 1
            cur += c
        elif c == sep and depth == 0:
            parts.append(cur)
            cur = ""
        else:
            cur += c
        i += 1
    parts.append(cur)
    return parts


def strings_only(s, what):
    """s must be a sequence of adjacent string literals: return their concatenation, C escapes decoded"""
    out, rest = "", s.strip()
    while rest:
        m = re.match(r'"((?:[^"\\]|\\.)*)"\s*', rest)
        if not m:
            raise Undecided("%s is not a sequence of string literals: %r" % (what, rest[:60]))
        lit = m.group(1)
        for esc in re.findall(r"\\(.)", lit):
            if esc not in 'nt"\\':
                raise Undecided("escape \\%s in %s" % (esc, what))
        out += lit.replace("\\n", "\n").replace("\\t", "\t").replace('\\"', '"').replace("\\\\", "\\")
        rest = rest[m.end():]
    return out


class Template:
    pass


def parse_statement(raw, name):
    secs = split_top(raw, ":")
    if len(secs) != 4:
        raise Undecided("%s: asm statement has %d sections, expected template:outputs:inputs:clobbers" % (name, len(secs)))
    t = Template()
    t.name, t.raw = name, re.sub(r"\s+", " ", raw.strip())
    t.text = strings_only(secs[0], name + " template")
    t.outputs, t.inputs = [], []
    for lst, sec in ((t.outputs, secs[1]), (t.inputs, secs[2])):
        for op in split_top(sec, ","):
            op = op.strip()
            if not op:
                continue
            m = re.match(r'"([^"]*)"\s*\((.*)\)$', op, re.S)
            if not m:
                raise Undecided("%s: operand %r not understood" % (name, op))
            lst.append((m.group(1), m.group(2).strip()))
    t.clobbers = [strings_only(c, name + " clobber").lstrip("%") for c in split_top(secs[3], ",") if c.strip()]
    # operand number -> register (None: the compiler chooses)
    t.opreg = []
    for cons, _ in t.outputs:
        letters = cons.lstrip("=+&%")
        t.opreg.append(CONSTRAINT_REG.get(letters) if len(letters) == 1 else None)
    for cons, _ in t.inputs:
        if cons.isdigit() and int(cons) < len(t.outputs):
            t.opreg.append(t.opreg[int(cons)])
        else:
            t.opreg.append(CONSTRAINT_REG.get(cons) if len(cons) == 1 else None)
    t.declared = set(r for r in t.opreg[:len(t.outputs)] if r) | set(c for c in t.clobbers)
    t.insns = parse_template(t)
    return t


def marker_reg(t, marker):
    """register that the constraints bind the input whose expression mentions `marker` to (None if not fixed)"""
    for k, (cons, expr) in enumerate(t.inputs):
        if re.search(r"\b%s\b" % marker, expr):
            return t.opreg[len(t.outputs) + k]
    return None


def parse_template(t):
    """-> list of (mnemonic, [operands]) / ("label", name); %N resolved through the constraint lists"""
    def subst(m):
        n = int(m.group(1))
        if n >= len(t.opreg) or n < len(t.outputs) or t.opreg[n] is None:
            raise Undecided("%s: %%%d does not name an input operand bound to a fixed register" % (t.name, n))
        if not re.match(r"\(\s*void\s*\*\s*\)", t.inputs[n - len(t.outputs)][1]):
            raise Undecided("%s: operand %%%d is not pointer sized" % (t.name, n))
        return "%" + t.opreg[n]
    insns = []
    for line in re.split(r"[\n;]", t.text):
        line = line.strip()
        if not line:
            continue
        if re.search(r"%\[|%[a-zA-Z]\d", line.replace("%%", "")):
            raise Undecided("%s: operand modifier in %r" % (t.name, line))
        line = re.sub(r"(?<!%)%(\d+)", subst, line).replace("%%", "%")
        m = re.match(r"^([A-Za-z0-9_.$]+):$", line)
        if m:
            insns.append(("label", [m.group(1)], line))
            continue
        m = re.match(r"^(\S+)\s*(.*)$", line)
        ops = [o.strip() for o in m.group(2).split(",")] if m.group(2).strip() else []
        insns.append((m.group(1), ops, line))
    return insns


def extract():
    text, cmd = preprocess()
    m = re.search(r"VERIF_CONFIG_BEGIN(.*?)VERIF_CONFIG_END", text, re.S)
    if not m:
        raise Undecided("configuration marker not found in the preprocessed extraction unit")
    cfg = dict(kv.split("=", 1) for kv in m.group(1).split())
    if cfg.get("arch") != cfg.get("arch_amd64") or cfg.get("context") != cfg.get("context_amd64"):
        raise Undecided("the tree is not configured for MYTH_ARCH_amd64 / MYTH_CONTEXT_amd64: %r" % cfg)
    for k, v in EXPECT_CONFIG.items():
        if cfg.get(k) not in v:
            raise Undecided("configuration %s=%s, the contracts were written for %s" % (k, cfg.get(k), "/".join(v)))
    CONFIG.update(cfg)
    blocks = dict((a, b) for a, b in re.findall(r"VERIF_ASM_BEGIN\((\w+)\)(.*?)VERIF_ASM_END", text, re.S))
    ts, extra = {}, {}
    for name in TEMPLATES:
        for key in (name, "public_" + name):
            if key not in blocks:
                raise Undecided("macro block %s not found" % key)
        st = scan_asm_statements(blocks[name])
        if not st:
            raise Undecided("myth_%s: expansion contains no asm statement" % name)
        ts[name] = parse_statement(st[0], name)
        ts[name].following = [re.sub(r"\s+", "", s) for s in st[1:]]
        norm = lambda s: re.sub(r"\s+", "", s)
        pub = norm(blocks["public_" + name])
        ts[name].public_same = norm(blocks[name]) in pub and len(scan_asm_statements(blocks["public_" + name])) == len(st)
    return ts, cmd


# ------------------------------------------------------------------------------------------------ symbolic machine
BV = lambda n, w=64: z3.BitVecVal(n, w)
LO, HI = 0x10000, 0x7ffffffff000                     # user-space addresses: no wrap-around in what follows


class Machine:
    def __init__(self, prefix, mem):
        self.regs = dict((r, z3.BitVec("%s.%s" % (prefix, r), 64)) for r in GPR)
        for r, w in FPREGS.items():
            self.regs[r] = z3.ZeroExt(64 - w, z3.BitVec("%s.%s" % (prefix, r), w))
        self.nfresh = 0
        self.mem = mem
        self.prefix = prefix
        self.writes = []      # (addr, nbytes, text)
        self.reads = []       # (addr, nbytes, text)
        self.calls = []       # (symbol, rsp at the call, regs at the call)
        self.labels = {}      # label -> symbolic address
        self.jumped = None    # (target, rsp) after jmp/ret
        self.ncall = 0

    # Memory is an array of 64-bit words indexed by ADDRESS.  Every access of the subset is 8 bytes wide; the model is
    # exact as long as every access address is a multiple of 8 (two accesses then coincide or are disjoint).  That is
    # itself an obligation of every scenario (`*.accesses-8-aligned`), not an assumption.
    def load(self, addr, text):
        self.reads.append((addr, 8, text))
        return z3.Select(self.mem, addr)

    def store(self, addr, val, text):
        self.writes.append((addr, 8, text))
        self.mem = z3.Store(self.mem, addr, val)


def reg_of(op, t, line):
    m = re.match(r"^%(\w+)$", op)
    if not m or m.group(1) not in GPR:
        raise Undecided("%s: operand %r in %r is outside the modelled subset" % (t.name, op, line))
    return m.group(1)


def imm_of(op, t, line):
    m = re.match(r"^\$(-?(?:0x[0-9a-fA-F]+|\d+))$", op)
    if not m:
        raise Undecided("%s: immediate %r in %r not understood" % (t.name, op, line))
    return int(m.group(1), 0)


def label_sym(t, name):
    return z3.BitVec("label.%s.%s" % (t.name, name), 64)


def is_switch_point(ins):
    mn, ops, _ = ins
    return mn in ("mov", "movq") and len(ops) == 2 and re.match(r"^\(%\w+\)$", ops[0]) and ops[1] == "%rsp"


def step(mc, t, idx):
    """execute instruction idx of template t on machine mc"""
    mn, ops, line = t.insns[idx]
    R = mc.regs
    if mn == "label":
        return
    if mn in ("sub", "subq", "add", "addq") and len(ops) == 2:
        k, r = imm_of(ops[0], t, line), reg_of(ops[1], t, line)
        R[r] = R[r] - BV(k) if mn.startswith("sub") else R[r] + BV(k)
    elif mn in ("push", "pushq") and len(ops) == 1:
        r = reg_of(ops[0], t, line)
        v = R[r]
        R["rsp"] = R["rsp"] - BV(8)
        mc.store(R["rsp"], v, line)
    elif mn in ("pop", "popq") and len(ops) == 1:
        r = reg_of(ops[0], t, line)
        v = mc.load(R["rsp"], line)
        R["rsp"] = R["rsp"] + BV(8)
        R[r] = v                                   # pop %rsp would take the loaded value: this order gives that
    elif mn in ("lea", "leaq") and len(ops) == 2:
        m = re.match(r"^(\w+?)([fb]?)\(%rip\)$", ops[0])
        if not m:
            raise Undecided("%s: lea source %r not understood" % (t.name, ops[0]))
        lab, direction = m.group(1), m.group(2)
        cands = [j for j, ins in enumerate(t.insns) if ins[0] == "label" and ins[1][0] == lab]
        if direction == "f":
            cands = [j for j in cands if j > idx][:1]
        elif direction == "b":
            cands = [j for j in cands if j < idx][-1:]
        if len(cands) != 1:
            raise Undecided("%s: label %s%s does not resolve to one place" % (t.name, lab, direction))
        R[reg_of(ops[1], t, line)] = label_sym(t, "%s@%d" % (lab, cands[0]))
    elif mn in ("mov", "movq") and len(ops) == 2:
        ms, md = re.match(r"^\(%(\w+)\)$", ops[0]), re.match(r"^\(%(\w+)\)$", ops[1])
        if ms and not md:
            if ms.group(1) not in GPR:
                raise Undecided("%s: %r" % (t.name, line))
            R[reg_of(ops[1], t, line)] = mc.load(R[ms.group(1)], line)
        elif md and not ms:
            if md.group(1) not in GPR:
                raise Undecided("%s: %r" % (t.name, line))
            mc.store(R[md.group(1)], R[reg_of(ops[0], t, line)], line)
        elif not ms and not md:
            R[reg_of(ops[1], t, line)] = R[reg_of(ops[0], t, line)]
        else:
            raise Undecided("%s: %r" % (t.name, line))
    elif mn in ("call", "callq") and len(ops) == 1 and re.match(r"^[A-Za-z_][\w]*(@PLT)?$", ops[0]):
        mc.calls.append((ops[0], R["rsp"], dict(R)))
        ret = z3.BitVec("%s.retaddr%d" % (mc.prefix, mc.ncall), 64)
        R["rsp"] = R["rsp"] - BV(8)
        mc.store(R["rsp"], ret, line + " (return address)")
        R["rsp"] = R["rsp"] + BV(8)               # the callee returns: ABI-conforming, rsp and callee-saved registers kept,
        for r in CALLER_SAVED:                    # caller-saved registers arbitrary; what it writes lies below its entry rsp
            R[r] = z3.BitVec("%s.aftercall%d.%s" % (mc.prefix, mc.ncall, r), 64)
        mc.ncall += 1
    elif mn in ("stmxcsr", "fnstcw", "ldmxcsr", "fldcw") and len(ops) == 1 and re.match(r"^(-?\d+)?\(%\w+\)$", ops[0]):
        # MYTH_SAVE_FPCSR=1: 4-byte (mxcsr) / 2-byte (x87 control word) accesses.  Modelled on the word at the address
        # (which must be a multiple of 8, `accesses-8-aligned`): a store leaves the other bytes of that word arbitrary --
        # an over-approximation, so that a later full-word load of it proves nothing it should not
        m = re.match(r"^(-?\d+)?\(%(\w+)\)$", ops[0])
        if m.group(2) not in GPR:
            raise Undecided("%s: %r" % (t.name, line))
        addr = R[m.group(2)] + BV(int(m.group(1) or "0"))
        fr = "mxcsr" if "mxcsr" in mn else "fpcw"
        w = FPREGS[fr]
        if mn in ("stmxcsr", "fnstcw"):
            mc.nfresh += 1
            junk = z3.BitVec("%s.junk%d" % (mc.prefix, mc.nfresh), 64 - w)
            mc.store(addr, z3.Concat(junk, z3.Extract(w - 1, 0, R[fr])), line)
        else:
            R[fr] = z3.ZeroExt(64 - w, z3.Extract(w - 1, 0, mc.load(addr, line)))
    elif mn == "jmp" and len(ops) == 1 and re.match(r"^\*%\w+$", ops[0]):
        mc.jumped = (R[reg_of(ops[0][1:], t, line)], R["rsp"])
    elif mn in ("ret", "retq") and not ops:
        v = mc.load(R["rsp"], line)
        R["rsp"] = R["rsp"] + BV(8)
        mc.jumped = (v, R["rsp"])
    else:
        raise Undecided("%s: instruction %r is outside the modelled subset" % (t.name, line))


def structure(t):
    """indices: sw = switch point, j = the jump that ends the head, lab = index of the resume label (savers)"""
    sw = [i for i, ins in enumerate(t.insns) if is_switch_point(ins)]
    if not sw:
        raise Undecided("%s: no instruction loads %%rsp from memory: no switch point" % t.name)
    sw = sw[0]
    j = [i for i, ins in enumerate(t.insns) if i > sw and ins[0] in ("jmp", "ret", "retq")]
    if not j:
        raise Undecided("%s: no jump after the switch point" % t.name)
    return sw, j[0]


# ------------------------------------------------------------------------------------------------ obligations
RESULTS = []
TIMES = []


def model_str(m, exprs):
    out = []
    for k, e in exprs:
        try:
            v = m.eval(e, model_completion=True)
            out.append("%s=%s" % (k, hex(v.as_long()) if z3.is_bv_value(v) else v))
        except Exception:
            pass
    return ", ".join(out)


def prove(name, assumptions, goal, show=(), why=""):
    s = z3.Solver()
    s.set("timeout", 20000)
    s.add(*assumptions)
    s.add(z3.Not(goal))
    t0 = time.time()
    r = s.check()
    TIMES.append((time.time() - t0, name))
    if r == z3.unsat:
        RESULTS.append(dict(name=name, ok=True, detail=why, engine="z3"))
    elif r == z3.sat:
        RESULTS.append(dict(name=name, ok=False, engine="z3",
                            detail="%s -- counterexample: %s" % (why, model_str(s.model(), show))))
    else:
        RESULTS.append(dict(name=name, undecided=True, detail="z3 answered unknown: " + why, engine="z3"))


def static(name, ok, why):
    RESULTS.append(dict(name=name, ok=bool(ok), detail=why, engine="template text"))


def satisfiable(name, assumptions):
    s = z3.Solver()
    s.set("timeout", 20000)
    s.add(*assumptions)
    if s.check() != z3.sat:
        RESULTS.append(dict(name=name, undecided=True, engine="z3",
                            detail="vacuity: the assumptions of this scenario are not satisfiable"))
        return False
    return True


def in_range(x):
    return z3.And(z3.UGE(x, BV(LO)), z3.ULE(x, BV(HI)))


def outside(addr, lo, hi):
    """the 8 bytes at addr do not meet [lo, hi)"""
    return z3.Or(z3.ULE(addr + BV(8), lo), z3.UGE(addr, hi))


def inside(addr, n, lo, hi):
    return z3.And(z3.UGE(addr, lo), z3.ULE(addr + BV(n), hi))


def check_aligned(n, A, mc):
    acc = mc.reads + mc.writes
    prove(n + ".accesses-8-aligned", A, z3.And(*[a & BV(7) == BV(0) for a, _, _ in acc]) if acc else z3.BoolVal(True), [],
          "model validity: all %d memory accesses are 8 bytes wide at multiples of 8 (the word-indexed memory is exact)" % len(acc))


def run_save(t):
    """save part of saver t from an arbitrary state.  -> dict"""
    sw, j = structure(t)
    mem0 = z3.Array("mem0." + t.name, z3.BitVecSort(64), z3.BitVecSort(64))
    mc = Machine("S_" + t.name, mem0)
    init = dict(mc.regs)
    Rsp = init["rsp"]
    freg, treg = marker_reg(t, "VERIF_FROM"), marker_reg(t, "VERIF_TO")
    A = [in_range(Rsp), Rsp & BV(15) == BV(0)]
    if freg:
        A += [in_range(init[freg]), init[freg] & BV(7) == BV(0), outside(init[freg], Rsp - BV(4096), Rsp)]
    for i in range(sw):
        step(mc, t, i)
    return dict(t=t, mc=mc, init=init, R=Rsp, A=A, sw=sw, j=j, freg=freg, treg=treg,
                saved=mc.regs["rsp"], FROM=init[freg] if freg else None, mem=mc.mem)


def check_save(t):
    n = "save." + t.name
    sv = run_save(t)
    mc, R, A, init = sv["mc"], sv["R"], sv["A"], sv["init"]
    static(n + ".from-operand-bound", sv["freg"] is not None,
           "the constraints bind switch_from to a fixed register (%s)" % sv["freg"])
    static(n + ".no-call-before-context-saved", not mc.calls,
           "no `call` precedes the switch point: the callback cannot run on, or before the save of, the suspended thread's stack")
    if sv["freg"] is None:
        return sv
    if not satisfiable(n, A):
        return sv
    show = [("entry_rsp", R), ("saved_rsp", sv["saved"]), ("from", sv["FROM"])]
    m2 = Machine("tmp", sv["mem"])
    prove(n + ".context-holds-final-rsp", A, m2.load(sv["FROM"], "") == sv["saved"], show,
          "the word at switch_from holds the stack pointer at the switch point (nothing is pushed after the store)")
    prove(n + ".saved-rsp-aligned", A, sv["saved"] & BV(15) == BV(0), show,
          "entry rsp % 16 == 0 ==> saved context rsp % 16 == 0 (invariant I re-established)")
    k = 0
    for addr, nb, text in mc.writes:
        k += 1
        prove("%s.write%d-below-red-zone[%s]" % (n, k, text), A,
              z3.Or(addr == sv["FROM"], inside(addr, nb, sv["saved"], R - BV(128))), show + [("addr", addr)],
              "a save-part write is the context store or lies in [saved rsp, entry rsp - 128): red zone and caller frame unwritten")
    check_aligned(n, A, mc)
    if sv["treg"]:
        prove(n + ".to-operand-intact-at-switch-point", A, mc.regs[sv["treg"]] == init[sv["treg"]], show,
              "%s still holds switch_to when the new rsp is loaded through it" % sv["treg"])
    return sv


def bind_dispatch(t, mc, ctxaddr):
    treg = marker_reg(t, "VERIF_TO")
    if treg is None:
        return None
    mc.regs[treg] = ctxaddr
    return treg


def run_dispatch(t, mc):
    """execute from the switch point through the jump; the call events stay in mc"""
    sw, j = structure(t)
    for i in range(sw, j + 1):
        step(mc, t, i)
        if mc.jumped:
            break
    return sw, j


def check_dispatch(t):
    """dispatch into an arbitrary context value T with T % 16 == 0 whose word at T is W"""
    n = "dispatch." + t.name
    mem = z3.Array("memD." + t.name, z3.BitVecSort(64), z3.BitVecSort(64))
    mc = Machine("D_" + t.name, mem)
    CT = z3.BitVec("D_%s.ctx" % t.name, 64)
    treg = bind_dispatch(t, mc, CT)
    static(n + ".to-operand-bound", treg is not None, "the constraints bind switch_to to a fixed register (%s)" % treg)
    if treg is None:
        return
    init = dict(mc.regs)
    T = Machine("tmp", mem).load(CT, "")
    W = Machine("tmp", mem).load(T, "")
    A = [in_range(CT), CT & BV(7) == BV(0), in_range(T), T & BV(15) == BV(0)]
    if not satisfiable(n, A):
        return
    sw, j = run_dispatch(t, mc)
    show = [("ctx", CT), ("ctx_rsp", T)]
    withcall = "withcall" in t.name
    static(n + ".callback-called" if withcall else n + ".no-callback", len(mc.calls) == (1 if withcall else 0),
           "%d call instruction(s) between the switch point and the jump" % len(mc.calls))
    for sym, rsp, regs in mc.calls:
        static(n + ".call-symbol", re.sub(r"@PLT$", "", sym) == CALLBACK, "the call goes to the macro's function argument (%s)" % sym)
        prove(n + ".call-on-target-stack", A, rsp == T, show + [("rsp_at_call", rsp)], "at the call rsp is the context's rsp")
        prove(n + ".call-rsp-aligned", A, rsp & BV(15) == BV(0), show + [("rsp_at_call", rsp)],
              "rsp % 16 == 0 at the callback's call: the callback is entered with rsp % 16 == 8")
        for marker, areg in sorted(ARG_REG.items()):
            bound = marker_reg(t, marker)
            static("%s.%s-bound-to-%s" % (n, marker[-2:].lower(), areg), bound == areg,
                   "the constraints put %s into %s (found: %s)" % (marker[-2:].lower(), areg, bound))
            if bound == areg and not t.name.startswith("swap"):
                prove("%s.%s-intact-at-call" % (n, marker[-2:].lower()), A, regs[areg] == init[areg], show,
                      "%s still holds the argument at the call" % areg)
    if mc.jumped is None:
        static(n + ".ends-in-jump", False, "no jump executed")
        return
    tgt, rsp = mc.jumped
    prove(n + ".jump-target-is-word-at-ctx-rsp", A, tgt == W, show + [("target", tgt), ("word", W)],
          "the jump goes to the address stored at the context's rsp (func of make_context_voidcall / a saver's resume label)")
    prove(n + ".entry-rsp", A, rsp == T + BV(8), show + [("rsp_at_jump", rsp)],
          "at the jump rsp == ctx rsp + 8, hence rsp % 16 == 8 at a function entered this way")
    k = 0
    for addr, nb, text in mc.writes:
        k += 1
        prove("%s.write%d-below-ctx-rsp[%s]" % (n, k, text), A, z3.ULE(addr + BV(nb), T), show + [("addr", addr)],
              "the dispatch part writes only below the target's rsp (the target's frame is untouched)")
    k = 0
    for addr, nb, text in mc.reads:
        k += 1
        prove("%s.read%d-confined[%s]" % (n, k, text), A, z3.Or(addr == CT, addr == T), show + [("addr", addr)],
              "the dispatch part reads only the context word and the word at the context's rsp")
    check_aligned(n, A, mc)
    static(n + ".memory-clobber", "memory" in t.clobbers, "\"memory\" is in the clobber list (stores are not moved across the switch)")
    if not t.name.startswith("swap"):
        static(n + ".ends-in-jump", j == len(t.insns) - 1, "the template ends with the jump (nothing after it)")
        static(n + ".followed-by-ud2", t.following == ['"ud2\\n"'], "the statement is followed by myth_unreachable(): %r" % (t.following,))


def check_args_swap(t):
    """arguments of a swap-with-callback: intact at the call although the save part ran before"""
    if "withcall" not in t.name:
        return
    n = "dispatch." + t.name
    sv = run_save(t)
    mc, init = sv["mc"], sv["init"]
    if sv["treg"] is None or sv["freg"] is None:
        return
    run_dispatch(t, mc)
    for sym, rsp, regs in mc.calls:
        for marker, areg in sorted(ARG_REG.items()):
            if marker_reg(t, marker) == areg:
                prove("%s.%s-intact-at-call" % (n, marker[-2:].lower()), sv["A"], regs[areg] == init[areg], [],
                      "%s still holds the argument at the call (the save part and the switch did not overwrite it)" % areg)


def check_resume(S, D, sv):
    """S saved (sv); D dispatches into S's context from an arbitrary register state; S's tail runs"""
    n = "resume.%s<-%s" % (S.name, D.name)
    if sv["freg"] is None:
        return None
    mc = Machine("X_%s_%s" % (S.name, D.name), sv["mem"])
    if bind_dispatch(D, mc, sv["FROM"]) is None:
        return None
    A, R, saved = sv["A"], sv["R"], sv["saved"]
    run_dispatch(D, mc)
    show = [("entry_rsp", R), ("saved_rsp", saved)]
    if mc.jumped is None:
        static(n + ".jump", False, "no jump executed")
        return None
    labs = [i for i, ins in enumerate(S.insns) if ins[0] == "label" and i > sv["j"]]
    if not labs:
        static(n + ".resume-label", False, "no label after the saver's jump")
        return None
    lab = labs[0]
    tgt, _ = mc.jumped
    prove(n + ".jumps-to-resume-label", A, tgt == label_sym(S, "%s@%d" % (S.insns[lab][1][0], lab)), show + [("target", tgt)],
          "the dispatch jumps to the saver's own label following its jump")
    static(n + ".label-follows-jump", lab == sv["j"] + 1, "the resume label directly follows the jump that ends the head")
    for sym, rsp, regs in mc.calls:
        prove(n + ".call-rsp-aligned", A, rsp & BV(15) == BV(0), show + [("rsp_at_call", rsp)],
              "callback called on the suspended thread's stack with rsp % 16 == 0")
        prove(n + ".call-below-saved-frame", A, rsp == saved, show + [("rsp_at_call", rsp)],
              "the callback's frame starts at the saved rsp: it grows below the saved frame")
    nw = len(mc.writes)
    for i in range(lab, len(S.insns)):
        step(mc, S, i)
    for r in ["rsp"] + CALLEE_SAVED + (sorted(FPREGS) if CONFIG.get("save_fpcsr") == "1" else []):
        if r in S.declared and r != "rsp":
            static("%s.restored.%s" % (n, r), True, "%s is declared clobbered: the compiler keeps no value there" % r)
        else:
            prove("%s.restored.%s" % (n, r), A, mc.regs[r] == sv["init"][r], show + [(r, mc.regs[r]), (r + "_at_save", sv["init"][r])],
                  "%s after save + dispatch + tail equals its value at the start of the save sequence" % r)
    k = 0
    for addr, nb, text in mc.reads:
        k += 1
        prove("%s.read%d-in-saved-frame[%s]" % (n, k, text), A,
              z3.Or(addr == sv["FROM"], inside(addr, nb, saved, R - BV(128))), show + [("addr", addr)],
              "the resume path reads only the context word and the saved frame [saved rsp, entry rsp - 128)")
    k = 0
    for addr, nb, text in mc.writes:
        k += 1
        prove("%s.write%d-outside-frame-and-red-zone[%s]" % (n, k, text), A, z3.ULE(addr + BV(nb), saved),
              show + [("addr", addr)], "the resume path writes only below the saved rsp")
    check_aligned(n, A, mc)
    return mc


def check_clobbers(S, finals, sv):
    n = "clobber." + S.name
    static(n + ".cc", "cc" in S.clobbers, "\"cc\" is in the clobber list (flags are not preserved)")
    static(n + ".rsp-not-clobbered", "rsp" not in S.declared, "rsp is not declared clobbered")
    for r in GPR:
        if r in S.declared and r != "rsp":
            static("%s.%s" % (n, r), True, "%s is named as output or clobber" % r)
            continue
        if not finals or any(f is None for f in finals):
            static("%s.%s" % (n, r), False, "%s is not declared and the resume scenarios could not be run" % r)
            continue
        goal = z3.And(*[f.regs[r] == sv["init"][r] for f in finals])
        prove("%s.%s" % (n, r), sv["A"], goal, [("entry_rsp", sv["R"])],
              "%s is neither output nor clobber: it must be restored by the template whichever template resumes the thread" % r)


def main():
    t0 = time.time()
    try:
        ts, cmd = extract()
        for name in TEMPLATES:
            structure(ts[name])
        for name in TEMPLATES:
            static("text.%s.public-macro-expands-to-checked-statement" % name, ts[name].public_same,
                   "myth_%s(...) expands to the myth_%s_i(...) statement(s) that were checked" %
                   (name.replace("swap", "swap_context").replace("set", "set_context"),
                    name.replace("swap", "swap_context").replace("set", "set_context")))
        saves = {}
        for name in SAVERS:
            saves[name] = check_save(ts[name])
        for name in TEMPLATES:
            check_dispatch(ts[name])
            check_args_swap(ts[name])
        for s in SAVERS:
            finals = [check_resume(ts[s], ts[d], saves[s]) for d in TEMPLATES]
            check_clobbers(ts[s], finals, saves[s])
    except Undecided as e:
        RESULTS.append(dict(name="asm.extraction-or-subset", undecided=True, engine="ctxcheck", detail=str(e)))
    except Exception as e:                       # a bug of this script is never a verdict
        RESULTS.append(dict(name="asm.ctxcheck", undecided=True, engine="ctxcheck", detail="internal error: %r" % (e,)))
    if "--json" in sys.argv:
        json.dump(RESULTS, sys.stdout, indent=1)
    else:
        for r in RESULTS:
            st = "UNDECIDED" if r.get("undecided") else ("ok" if r["ok"] else "FAILED")
            if "--verbose" in sys.argv or st != "ok":
                print("%-9s %s\n            %s" % (st, r["name"], r["detail"]))
            else:
                print("%-9s %s" % (st, r["name"]))
        nd = len([r for r in RESULTS if r.get("undecided")])
        nf = len([r for r in RESULTS if not r.get("undecided") and not r["ok"]])
        if "--times" in sys.argv:
            for dt, nm in sorted(TIMES, reverse=True)[:8]:
                print("   %6.2fs %s" % (dt, nm))
        print("%d obligations, %d failed, %d undecided, %.1fs (z3 %s, tree %s)" %
              (len(RESULTS) - nd, nf, nd, time.time() - t0, z3.get_version_string(), vf.REPO))
    return 0


if __name__ == "__main__":
    sys.exit(main())
