#!/usr/bin/env python3
"""seedrun.py <Cnn> <patch> [<Cnn> <patch> ...]: run a property's quick check against a scratch copy of /repo with the patch applied"""
import sys, re
import selftest as st
a = sys.argv[1:]
for pid, patch in zip(a[0::2], a[1::2]):
    v, out = st.run_one(pid.upper(), patch, "quick")
    print("%-9s %s %s" % (v, pid, patch), flush=True)
    for ln in out.split("\n"):
        if re.match(r"(violation-line|UNDECIDED|C\d\d tier)", ln):
            print("    " + ln[:300], flush=True)
