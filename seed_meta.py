#!/usr/bin/env python3
"""seed_meta.py <id> <property> <needs...>: write seeded/<id>/meta.json from confirm.log"""
import sys, json, re, os
sid, prop, needs = sys.argv[1], sys.argv[2], " ".join(sys.argv[3:])
d = os.path.join("/verif/seeded", sid)
log = open(os.path.join(d, "confirm.log")).read()
m = re.search(r"RESULT id=\S+ build_rc=(\d+) tests_failed=(\d*) demo_without_rc=(\d+) demo_with_rc=(\d+)", log)
meta = {"id": sid, "property": prop, "breaks": prop, "needs_to_manifest": needs,
        "source": "independent sub-agent given only the property record and a scratch worktree",
        "what_i_ran": "confirm_seed.sh in the scratch worktree: baseline build; demo without the change; git apply patch.diff; make; make -C tests check (whole suite); demo with the change",
        "confirmed": {"build_rc": int(m.group(1)), "tests_failed": int(m.group(2) or -1), "demo_without_change_rc": int(m.group(3)), "demo_with_change_rc": int(m.group(4))},
        "detected_by": "see DESIGN.md table of seeded changes"}
json.dump(meta, open(os.path.join(d, "meta.json"), "w"), indent=1)
print(meta["confirmed"])
