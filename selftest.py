#!/usr/bin/env python3
"""selftest.py [Cnn ...] [--tier quick] [--seeded]  -- mutation self-test of the contracts (DESIGN §8).

Every selftest/<Cnn>/<name>.patch (and, with --seeded, seeded/<id>/patch.diff) is a change to /repo that breaks
the property while still compiling.  It is applied to a scratch copy of /repo's src/ and include/ (under
$TMPDIR, removed afterwards); the property's check is run against the copy with VERIF_REPO.  Prints
CAUGHT / MISSED / UNDECIDED lines -- never a VIOLATION line -- and exits 0 iff everything was caught.
"""
import os, sys, subprocess, tempfile, shutil, glob, json, re

HERE = os.path.dirname(os.path.abspath(__file__))
REPO = "/repo"


def scratch():
    d = tempfile.mkdtemp(prefix="verif_st_")
    subprocess.check_call(["rsync", "-a", "--exclude", "*.o", "--exclude", "*.lo", "--exclude", "*.la", "--exclude", ".libs",
                           "--exclude", ".deps", "--exclude", "*.a", REPO + "/src", REPO + "/include", d + "/"])
    return d


def run_one(pid, patch, tier, only=None):
    d = scratch()
    try:
        p = subprocess.run(["patch", "-p1", "-s", "-d", d, "-i", patch], capture_output=True, text=True)
        if p.returncode != 0:
            return "PATCH-FAILED", p.stdout + p.stderr
        env = dict(os.environ, VERIF_REPO=d, VERIF_WORK=os.path.join(d, "work"), VERIF_NO_REPLAY="1")
        cmd = [os.path.join(HERE, "check"), pid, "--tier", tier, "--no-evidence"]
        if only:
            cmd += ["--only", only]
        q = subprocess.run(cmd, capture_output=True, text=True, env=env)
        out = q.stdout.replace("VIOLATION ", "violation-line: ")
        verdict = {0: "MISSED", 1: "CAUGHT", 2: "UNDECIDED"}.get(q.returncode, "ERROR")
        return verdict, out
    finally:
        shutil.rmtree(d, ignore_errors=True)


def main():
    args = [a for a in sys.argv[1:] if not a.startswith("--")]
    tier = "quick"
    if "--tier" in sys.argv:
        tier = sys.argv[sys.argv.index("--tier") + 1]
        args = [a for a in args if a != tier]
    seeded = "--seeded" in sys.argv
    verbose = "--verbose" in sys.argv
    items = []
    for pat in sorted(glob.glob(os.path.join(HERE, "selftest", "C*", "*.patch"))):
        pid = os.path.basename(os.path.dirname(pat))
        items.append((pid, pat, os.path.basename(pat)))
    if seeded:
        for meta in sorted(glob.glob(os.path.join(HERE, "seeded", "*", "meta.json"))):
            m = json.load(open(meta))
            items.append((m["property"], os.path.join(os.path.dirname(meta), "patch.diff"),
                          "seeded/" + os.path.basename(os.path.dirname(meta))))
    if args:
        items = [i for i in items if i[0] in [a.upper() for a in args] or any(a in i[2] for a in args)]
    bad = 0
    for pid, pat, name in items:
        verdict, out = run_one(pid, pat, tier)
        first = [l for l in out.splitlines() if l.startswith("violation-line")][:2]
        print("%-9s %s %s %s" % (verdict, pid, name, (" | " + first[0][:200]) if first else ""))
        if verbose or verdict not in ("CAUGHT",):
            print("    " + "\n    ".join(out.splitlines()[-6:]))
        if verdict != "CAUGHT":
            bad += 1
    print("selftest: %d/%d caught" % (len(items) - bad, len(items)))
    return 1 if bad else 0


if __name__ == "__main__":
    sys.exit(main())
