from vf import Job
TU = "c06_barrier.c"
INV = "(1 <= g_N && g_N < (1L << 31) && (g_tok == 0 || g_tok == 1) && 0 <= g_A && g_A <= g_N - g_tok)"
L_WAIT = {"myth_barrier_wait_body": [dict(loop_id="0", assigns="B.state, g_A, g_tok, g_ticket, g_ticket_taken",
           invariants="B.state == g_A && B.n_threads == g_N && " + INV + " && g_tok == 1 && g_ticket_taken == 0 && g_wake_calls == 0 && g_block_calls == 0")]}
JOBS = [
  Job("c06.wait", TU, "h_barrier_wait", loops=L_WAIT, loop_counts={"myth_barrier_wait_body": 1},
      replace=["myth_verif_env_step/myth_verif_env_step", "myth_wake_many_from_stack/wake_many_stack_contract",
               "myth_block_on_stack/block_on_stack_contract", "exit/exit_contract"],
      read_hooks=[("state", "myth_verif_rd")], fuc=["myth_barrier_wait_body"], timeout=300),
  Job("c06.init", TU, "h_barrier_init", fuc=["myth_barrier_init_body", "myth_sleep_stack_init"], timeout=100),
  Job("c06.lemmas", TU, "h_lemmas", timeout=100),
  Job("c06.wake_many.bounded", TU, "h_wake_many_stack", kind="bounded",
      replace_calls=["myth_sleep_stack_pop:verif_stack_pop", "myth_queue_push:verif_push", "myth_yield_body:verif_yield_wm"],
      cbmc=["--unwind", "8", "--unwinding-assertions"], defines=["-DWM_N=4", "-DWM_K=2"],
      fuc=["myth_wake_many_from_stack"], timeout=300, tiers=("quick",),
      note="bounded: n <= 4 sleepers, at most 2 empty polls of the sleep stack (late sleepers)"),
  Job("c06.wake_many.n12.bounded", TU, "h_wake_many_stack", kind="bounded",
      replace_calls=["myth_sleep_stack_pop:verif_stack_pop", "myth_queue_push:verif_push", "myth_yield_body:verif_yield_wm"],
      cbmc=["--unwind", "20", "--unwinding-assertions"], defines=["-DWM_N=12", "-DWM_K=4"],
      fuc=["myth_wake_many_from_stack"], timeout=1800, mem_gb=12, tiers=("thorough",),
      note="bounded: n <= 12 sleepers, at most 4 empty polls of the sleep stack (late sleepers)"),
  Job("c06.block_on_stack", TU, "h_block_on_stack",
      replace=["myth_sleep_stack_push/stack_push_contract", "verif_suspend_resume/suspend_resume_contract"],
      replace_calls=["myth_queue_pop:verif_pop"], fuc=["myth_block_on_stack", "myth_block_on_stack_cb"], timeout=200),
  Job("c06.stack.push.bounded", "c06_stack.c", "h_stack_push", kind="bounded", read_hooks=[("top", "verif_rd_top")],
      cbmc=["--unwind", "6", "--unwinding-assertions"], fuc=["myth_sleep_stack_push"], timeout=200,
      note="bounded: at most 3 interfering operations of other threads per call (2 pushes, 1 pop)"),
  Job("c06.stack.pop.bounded", "c06_stack.c", "h_stack_pop", kind="bounded", read_hooks=[("top", "verif_rd_top")],
      cbmc=["--unwind", "4", "--unwinding-assertions"], fuc=["myth_sleep_stack_pop"], timeout=200,
      note="bounded: at most 2 interfering pushes by other threads per call, hence at most 3 CAS retries; single popper (rely)"),
  Job("c06.stack.init", "c06_stack.c", "h_stack_init", fuc=["myth_sleep_stack_init"], timeout=100),
]
# the public API functions are one-line forwarders to the bodies under contract: checked mechanically (DESIGN §3.5b)
from units.common_forward import forward_job
JOBS = list(JOBS) + [forward_job("c06")]
META = {
 "level": "proof",
 "level_text": "Rely/guarantee contract on the real barrier_wait body for every N < 2^31 and every interference on the counter: one arrival per call, the serial indicator exactly for ticket N-1, reset before release, everybody else blocks once; the block path by call-protocol contracts. wake_many_from_stack and the Treiber-stack steps are bounded stand-ins and are not counted as proved.",
 "level_note": "Trusted: cbmc 6.11, SC interleaving, exactly N participants per round (entitlement ghost), single popper of the sleep stack per round, 'a sleeper resumes only through a push onto a run queue' (C02). Liveness not decided.",
 "trusted_base": ["cbmc 6.11.0 (goto-cc, goto-instrument --dfcc with loop contracts, SAT back end)", "gcc -E of the real headers (rules R1, R2, R4)", "rely/guarantee rule, distinct-ticket lemma (paper steps)"],
 "explanation": "barrier counter protocol under RG contracts; wake/stack bounded",
 "assumptions": [
   "exactly N participants enter each round (an (N+1)-th caller makes the library abort: outside the property)",
   "N < 2^31",
   "a participant asleep on the barrier is resumed only through the push done by the round's last arriver (scheduler fact, C02)",
   "the last arriver is the only thread that pops from the barrier's sleep stack in a round (rely of myth_sleep_stack_pop)",
   "bounded: wake_many_from_stack n <= 4 / 2 empty polls; sleep stack push/pop under at most 2-3 interfering operations",
   "liveness not decided",
 ],
}
