from vf import Job
TU = "c17_bulk.c"
# ghost hook at the first statement of aux's body (measure: decreases b - a), see contracts/c17_bulk.c
HOOK = [("myth_create_join_various_arg * meta_arg = meta_arg_;",
         "myth_create_join_various_arg * meta_arg = meta_arg_; verif_aux_entered();", 1)]
# the five products of aux go through the uninterpreted multiplication verif_mul (0 ids, 1 funcs, 2 args, 3 results, 4 attrs)
MUL = [("a * id_stride", "verif_mul(a, id_stride, 0)", 1), ("a * func_stride", "verif_mul(a, func_stride, 1)", 1),
       ("a * arg_stride", "verif_mul(a, arg_stride, 2)", 1), ("a * result_stride", "verif_mul(a, result_stride, 3)", 1),
       ("a * attr_stride", "verif_mul(a, attr_stride, 4)", 1)]
THREADS = ["verif_create_c/create_contract", "verif_join_c/join_contract"]
THREAD_STUBS = ["myth_create_ex_body:verif_create_stub", "myth_join_body:verif_join_stub"]
FP = ["myth_create_join_various_ex_aux.function_pointer_call.1/F_watch,F_other"]
def aux_job(name, part, **kw):
    d = list(kw.pop("defines", [])) + ["-DPART=%d" % part]
    return Job(name, TU, "h_aux", rec=["myth_create_join_various_ex_aux/aux_contract"], replace=THREADS, replace_calls=THREAD_STUBS, restrict_fp=FP,
               defines=d, fuc=["myth_create_join_various_ex_aux"], timeout=kw.pop("timeout", 600), mem_gb=4, **kw)
JOBS = [
  aux_job("c17.aux.leaf", 1, rewrites=HOOK + MUL,
      note="base case of the induction (--enforce-contract-rec): range of one item, any item number, any strides; i*stride is an "
           "uninterpreted function constrained by congruence and monotonicity (lemma c17.lemma.mono)"),
  aux_job("c17.aux.split", 2, rewrites=HOOK + MUL,
      note="inductive step (--enforce-contract-rec): any range of two or more items, any n; the recursive call and the created-and-joined "
           "thread are replaced by aux's own contract on strictly smaller ranges"),
  Job("c17.various", TU, "h_various", enforce=["myth_create_join_various_ex_body/various_contract"],
      replace=["myth_create_join_various_ex_aux/aux_contract"],
      fuc=["myth_create_join_various_ex_body"], timeout=200, mem_gb=4),
  Job("c17.many", TU, "h_many", enforce=["myth_create_join_many_ex_body/many_contract"],
      replace=["myth_create_join_various_ex_body/various_contract"],
      fuc=["myth_create_join_many_ex_body"], timeout=200, mem_gb=4),
  Job("c17.many.reentrant", TU, "h_many_reentrant", replace_calls=["myth_create_join_various_ex_body:verif_various_reent"],
      fuc=["myth_create_join_many_ex_body"], timeout=200, mem_gb=4,
      note="re-entrancy: an item of a bulk call makes another bulk call with another function; the outer call's function slot is unchanged"),
  Job("c17.lemma.mono", TU, "h_lemma_mono", solver="z3", fuc=[], timeout=100, mem_gb=2,
      note="x < y and s >= 0 imply x*s + s <= y*s over the mathematical integers (z3); machine products of operands below 2^31 do not overflow"),
]
for k, strides in enumerate(("ids 8, funcs 0, args 1, results 8, attrs 0", "ids 16, funcs 8, args 4, results 32, attrs 2")):
    for part, pn in ((1, "leaf"), (2, "split")):
        JOBS.append(aux_job("c17.aux.%s.s%d" % (pn, k), part, rewrites=HOOK, defines=["-DVMUL=0", "-DSAMPLE=%d" % k], kind="bounded",
          note="bounded cross-check with the REAL multiplications of the text (no verif_mul): constant stride tuple (%s), n < 2^16; "
               "the axioms of the product table are assertions here" % strides))
for k in (0, 1, 2):
    JOBS.append(Job("c17.axioms.s%d" % k, TU, "h_axioms", defines=["-DVMUL=0", "-DSAMPLE=%d" % k, "-DAXIOM_ASSERT"], kind="bounded", fuc=[],
      timeout=200, mem_gb=4, note="bounded: every axiom of the product table holds for machine multiplication, constant stride tuple %d, item numbers < 2^16" % k))
# Mutations (selftest/C17): m1 right half starts at c+1 (item c never runs); m2 leaf test `b - a <= 2` (second item of a pair never
# runs); m3 child never joined; m4 result stored one cell further; m5 ids addressed with the result stride (VMUL jobs: rewrite does
# not fire -> undecided; caught by c17.aux.leaf.s1 with the real multiplication); m6 many passes func stride 8; m7 n == 0 not
# special-cased (aux on an empty range); m8 id stored only when results are given.  All eight are CAUGHT.
# the public API functions are one-line forwarders to the bodies under contract: checked mechanically (DESIGN 3.5b)
from units.common_forward import forward_job
JOBS = list(JOBS) + [forward_job("c17")]
META = {
 "level": "proof",
 "level_text": "C half: inductive contract proof (--enforce-contract-rec) of the real myth_create_join_various_ex_aux for an arbitrary "
               "range [a,b), any n (below 2^31 as soon as an array is strided, up to LONG_MAX/2 otherwise), symbolic strides, "
               "results/ids/attrs given or NULL, user arrays of symbolic size: for a witness item g_w the user function f_{g_w} is called "
               "exactly once with args + g_w*arg_stride, exactly b - a user calls are made, its result is in its strided result slot and the "
               "id of the thread that ran it in its id slot, an arbitrary other cell of either array is unchanged, every child is joined; "
               "the recursion is closed by aux's own contract on strictly smaller ranges (decreases b - a). "
               "myth_create_join_various_ex_body and myth_create_join_many_ex_body are proved against that contract (n = 0: nothing "
               "happens; many = various with function stride 0). The TBB-like C++ layer (task_group, parallel_for) is NOT decided.",
 "level_note": "Trusted: cbmc 6.11 (dfcc, SAT back end; z3 for one integer lemma), gcc -E. Assumed: a created-and-joined thread running "
               "aux(arg) has the effect of aux's contract on arg by the time join returns (C01 + induction hypothesis); i*stride is "
               "abstracted to an uninterpreted function with congruence and monotonicity (five recorded rewrites of `a * x_stride` to "
               "verif_mul; lemma proved over the integers; cross-checked with the real multiplications for two constant stride tuples, "
               "bounded); user functions are independent of each other and of the arrays; the five arrays are pairwise disjoint "
               "objects; result/id/function slots are aligned, non-overlapping 8-byte cells. mtbb (C++ templates) is outside CBMC's "
               "reach here: the known empty-range recursion of parallel_for_aux is not decided.",
 "trusted_base": ["cbmc 6.11.0 (goto-cc, goto-instrument --dfcc --enforce-contract-rec, SAT back end MiniSat; z3 for c17.lemma.mono)",
                  "gcc -E preprocessing of the real headers (rule R2; job rewrites: ghost hook at the entry of aux, a * x_stride -> verif_mul)",
                  "paper step: machine multiplication of operands below 2^31 is one instance of the uninterpreted product table "
                  "(no overflow below 2^62; congruence; monotonicity = lemma c17.lemma.mono); induction on b - a from the two jobs "
                  "c17.aux.leaf / c17.aux.split"],
 "explanation": "Witness-based contract (ghost item g_w, ghost guard cells) on the real recursive halving helper, proved by "
                "--enforce-contract-rec in two jobs (single item / split); create and join are contract stubs carrying aux's own "
                "postcondition for the strictly smaller child range, granted at join; outstanding children are a ghost counter. The two "
                "public bodies are proved against aux's contract. Products i*stride are an uninterpreted table with the axioms "
                "congruence and x<y => x*s+s <= y*s (proved over the integers with z3, checked against machine products for three "
                "constant stride tuples), because SAT cannot relate two multiplier circuits.",
 "assumptions": [
   "ASSUMED CONTRACT (C01 + induction hypothesis): myth_create_ex_body(&id, attr, aux, arg) succeeds (returns 0; a failure aborts the program "
   "through assert, NDEBUG is not defined in the build) and myth_join_body(id, 0) returns 0 after the created thread has run aux(arg) "
   "exactly once, i.e. with the effect of aux's contract on arg's strictly smaller range; the effect is granted at join, not before",
   "create/join stubs allow one outstanding child per recursion level (what the code does); deeper levels are inside contract-replaced calls; "
   "outstanding children are a ghost counter (g_pending), the right half runs while it is 1",
   "myth_self() is a stub returning a ghost token of the running thread; thread ids are tokens, never dereferenced",
   "user functions F_watch / F_other are stubs that only count and return ghost values: user functions are assumed independent of each "
   "other, of the five arrays and of the library (otherwise the parallel run is not the sequential loop for any implementation)",
   "the function table defines f_i (f_{g_w} = F_watch, every other slot F_other; stride 0: the one shared f): a quantified fact about "
   "user memory that nobody writes; the harness assumes only its instance for the slot the call under proof reads itself",
   "UNINTERPRETED MULTIPLICATION (jobs c17.aux.leaf/.split): the five products `a * id_stride|func_stride|arg_stride|result_stride|attr_stride` "
   "of aux are rewritten (must-fire, count 1 each) to verif_mul(a, stride, k), which returns the universe's product-table entry for "
   "(g_ha, stride of array k) and an arbitrary value otherwise; table entries are arbitrary numbers in [0, 2^49] subject to: equal "
   "operands give equal products, x < y ==> x*s + s <= y*s, 0*s = i*0 = 0, s % 8 == 0 ==> i*s % 8 == 0. Machine multiplication "
   "(operands < 2^31) is one such table; monotonicity is proved over the mathematical integers by c17.lemma.mono (z3), all axioms "
   "are asserted against machine products by c17.axioms.s0-2 (bounded: three constant stride tuples, item numbers < 2^16)",
   "a second must-fire rewrite inserts the ghost statement verif_aux_entered() as first statement of aux (measure: every call made from "
   "inside the body is required to have a strictly smaller range inside the range under proof); no other change of the text",
   "BOUNDS (preconditions, not unwinding bounds): n <= LONG_MAX/2; as soon as one stride is non-zero or results/ids are given: n < 2^31 "
   "and every stride < 2^31 (i*stride cannot overflow), every array at most 2^50 bytes (cbmc --object-bits 12); func stride 0 or a "
   "multiple of 8; result / id stride a non-zero multiple of 8 when the array is given (aligned, non-overlapping slots; C11 6.3.2.3p7); "
   "every item of [0, n) lies inside its array; arrays may be longer (arbitrary slack, covered by the guard cells)",
   "the five user arrays are five DISJOINT objects of symbolic size; the documented layout `results = &args[0].result` (several strided arrays "
   "interleaved in one array of structs) is not covered; ARGS and ATTRS are only used as addresses (never dereferenced by the library): "
   "their object sizes are arbitrary and item addresses may lie beyond the modelled object",
   "arg stride 0 and func stride 0 together: items are indistinguishable; only the number of calls (b - a), the result value and a non-NULL "
   "id are claimed for the witness there",
   "the attribute handed to create is required to be the slot of the first item of the child's range (what the code does); which thread "
   "finally runs an item with which attribute is not part of the property statement and is not claimed (the thread created with "
   "attrs[a] itself runs the LAST item of its range)",
   "bounded cross-check jobs c17.aux.leaf.s0/s1, c17.aux.split.s0/s1: unrewritten text with the real multiplications for the constant stride "
   "tuples (ids,funcs,args,results,attrs) = (8,0,1,8,0) and (16,8,4,32,2), item numbers < 2^16; labelled bounded, not counted as proof",
   "termination: decreases b - a is an obligation of every call made from aux's body; termination of create/join themselves (scheduler "
   "liveness, 1..N workers) is not decided here (C01/C02)",
   "NOT DECIDED: the TBB-like layer src/mtbb (task_group::run/wait, parallel_for): C++ templates and lambdas are outside CBMC's C++ front "
   "end in this image and rewriting them in C would be a model; in particular the empty/reversed-range recursion of parallel_for_aux "
   "named in the property's why_tests_cant is not decided by this unit",
 ],
}
