from vf import Job
TU = "c17_bulk.c"
HOOK = [("myth_create_join_various_arg * meta_arg = meta_arg_;",
         "myth_create_join_various_arg * meta_arg = meta_arg_; verif_aux_entered();", 1)]
THREADS = ["myth_create_ex_body/create_contract", "myth_join_body/join_contract"]
FP = ["myth_create_join_various_ex_aux.function_pointer_call.1/F_watch,F_other"]
JOBS = [
  Job("c17.aux", TU, "h_aux", rec=["myth_create_join_various_ex_aux/aux_contract"], replace=THREADS, rewrites=HOOK,
      restrict_fp=FP, fuc=["myth_create_join_various_ex_aux"], timeout=200),
  Job("c17.various", TU, "h_various", enforce=["myth_create_join_various_ex_body/various_contract"],
      replace=["myth_create_join_various_ex_aux/aux_contract"], rewrites=HOOK,
      fuc=["myth_create_join_various_ex_body"], timeout=200),
  Job("c17.many", TU, "h_many", enforce=["myth_create_join_many_ex_body/many_contract"],
      replace=["myth_create_join_various_ex_body/various_contract"], rewrites=HOOK,
      fuc=["myth_create_join_many_ex_body"], timeout=200),
  Job("c17.lemma.mono", TU, "h_lemma_mono", solver="z3", fuc=[], timeout=100),
]
META = {
 "level": "proof",
 "level_text": "",
 "level_note": "",
 "trusted_base": [],
 "explanation": "",
 "assumptions": [],
}
