from vf import Job
TU = "c17_bulk.c"
# ghost hook at the first statement of aux's body (measure: decreases b - a), see contracts/c17_bulk.c
HOOK = [("myth_create_join_various_arg * meta_arg = meta_arg_;",
         "myth_create_join_various_arg * meta_arg = meta_arg_; verif_aux_entered();", 1)]
# the five products of aux go through the uninterpreted multiplication verif_mul (0 ids, 1 funcs, 2 args, 3 results, 4 attrs)
MUL = [("a * id_stride", "verif_mul(a, id_stride, 0)", 1), ("a * func_stride", "verif_mul(a, func_stride, 1)", 1),
       ("a * arg_stride", "verif_mul(a, arg_stride, 2)", 1), ("a * result_stride", "verif_mul(a, result_stride, 3)", 1),
       ("a * attr_stride", "verif_mul(a, attr_stride, 4)", 1)]
THREADS = ["myth_create_ex_body/create_contract", "myth_join_body/join_contract"]
FP = ["myth_create_join_various_ex_aux.function_pointer_call.1/F_watch,F_other"]
def aux_job(name, part, **kw):
    d = list(kw.pop("defines", [])) + ["-DPART=%d" % part]
    return Job(name, TU, "h_aux", rec=["myth_create_join_various_ex_aux/aux_contract"], replace=THREADS, restrict_fp=FP,
               defines=d, fuc=["myth_create_join_various_ex_aux"], timeout=200, mem_gb=4, **kw)
JOBS = [
  aux_job("c17.aux.leaf", 1, rewrites=HOOK + MUL,
      note="base case of the induction (--enforce-contract-rec): range of one item, any item number, any strides; i*stride is an "
           "uninterpreted function constrained by congruence and monotonicity (lemma c17.lemma.mono)"),
  aux_job("c17.aux.split", 2, rewrites=HOOK + MUL,
      note="inductive step (--enforce-contract-rec): any range of two or more items, any n; the recursive call and the created-and-joined "
           "thread are replaced by aux's own contract on strictly smaller ranges"),
  Job("c17.various", TU, "h_various", enforce=["myth_create_join_various_ex_body/various_contract"],
      replace=["myth_create_join_various_ex_aux/aux_contract"],
      fuc=["myth_create_join_various_ex_body"], timeout=200, mem_gb=4),
  Job("c17.many", TU, "h_many", enforce=["myth_create_join_many_ex_body/many_contract"],
      replace=["myth_create_join_various_ex_body/various_contract"],
      fuc=["myth_create_join_many_ex_body"], timeout=200, mem_gb=4),
  Job("c17.lemma.mono", TU, "h_lemma_mono", solver="z3", fuc=[], timeout=100, mem_gb=2,
      note="x < y and s >= 0 imply x*s + s <= y*s over the mathematical integers (z3); machine products of operands below 2^31 do not overflow"),
]
for k, strides in enumerate(("ids 8, funcs 0, args 1, results 8, attrs 0", "ids 16, funcs 8, args 4, results 32, attrs 2")):
    for part, pn in ((1, "leaf"), (2, "split")):
        JOBS.append(aux_job("c17.aux.%s.s%d" % (pn, k), part, rewrites=HOOK, defines=["-DVMUL=0", "-DSAMPLE=%d" % k], kind="bounded",
          note="bounded cross-check with the REAL multiplications of the text (no verif_mul): constant stride tuple (%s), n < 2^16; "
               "the axioms of the product table are assertions here" % strides))
META = {
 "level": "proof",
 "level_text": "",
 "level_note": "",
 "trusted_base": [],
 "explanation": "",
 "assumptions": [],
}
