from vf import Job
TA = "c12_alloc.c"
TR = "c12_release.c"
# page carving loop of myth_flmalloc: `while (p < p2) { push(list, p); p += realsize; }`
CARVE_INV = ("0 <= g_pushes && g_pushes <= 511 && 8 <= realsize && realsize <= 2048 && (g_pushes + 1) * (long)realsize <= 4096 && "
             "p2 == (char *)ptr + 4096 && p == (char *)ptr + (g_pushes + 1) * (long)realsize")
L_CARVE = {"myth_flmalloc": [dict(loop_id="0", assigns="p, g_pushes", invariants=CARVE_INV, decreases="512 - g_pushes",
            symbol_map="p,myth_flmalloc::1::1::1::p;p2,myth_flmalloc::1::1::1::p2;realsize,myth_flmalloc::1::1::realsize;"
                       "ptr,myth_flmalloc::1::ptr")]}
LEDGER = ["myth_freelist_push:verif_push", "myth_freelist_pop:verif_pop"]
ALLOC = LEDGER + ["myth_flmalloc:verif_flmalloc", "myth_flfree:verif_flfree"]
U2 = ["--unwind", "2", "--unwinding-assertions"]     # for (i = 0; i < STACK_ALLOC_UNIT; i++), STACK_ALLOC_UNIT == 1: constant of the build
# ledger stubs of part 2 (bodies in c12_release.c)
REL = ["free_myth_thread_struct_stack:verif_free_stack", "free_myth_thread_struct_desc:verif_free_desc",
       "myth_spin_lock_body:verif_lock", "myth_spin_unlock_body:verif_unlock", "myth_queue_pop:verif_queue_pop",
       "myth_tls_tree_fini:verif_tls_fini"]
HOOK = [("status", "verif_rd_status")]
# spin loops `while (th->status != MYTH_STATUS_FREE_READY2) { }`: the environment step sits in the read hook
SPIN_INV = ("g_role == 2 && g_lock_held == 0 && g_desc_rel == 0 && g_handed_over == 0 && g_stack_rel == 0 && "
            "(T->status >= 2 ==> T->result == g_result)")
def spin(fn, n):
    return {fn: [dict(loop_id=str(i), assigns="T->status, T->result", invariants=SPIN_INV) for i in range(n)]}
JOBS = [
  Job("c12.sizeclass", TA, "h_sizeclass", fuc=["MYTH_MALLOC_SIZE_TO_INDEX"], timeout=120),
  Job("c12.freelist.push", TA, "h_push", enforce=["myth_freelist_push/push_contract"], fuc=["myth_freelist_push"], timeout=120),
  Job("c12.freelist.pop", TA, "h_pop", enforce=["myth_freelist_pop/pop_contract"], fuc=["myth_freelist_pop"], timeout=120),
  Job("c12.freelist.lifo", TA, "h_lifo", fuc=["myth_freelist_push", "myth_freelist_pop"], timeout=120),
  Job("c12.flmalloc", TA, "h_flmalloc", replace_calls=LEDGER, loops=L_CARVE, loop_counts={"myth_flmalloc": 1},
      fuc=["myth_flmalloc", "myth_mmap"], timeout=200),
  Job("c12.flfree", TA, "h_flfree", replace_calls=LEDGER, fuc=["myth_flfree"], timeout=120),
  Job("c12.stack.custom", TA, "h_stack_custom", replace_calls=ALLOC, cbmc=U2,
      fuc=["get_new_myth_thread_struct_stack", "free_myth_thread_struct_stack"], timeout=200),
  Job("c12.stack.custom.alloc", TA, "h_stack_custom_alloc", replace_calls=LEDGER,
      cbmc=["--unwind", "2", "--unwindset", "myth_flmalloc.0:1", "--unwinding-assertions"],
      fuc=["get_new_myth_thread_struct_stack", "free_myth_thread_struct_stack", "myth_flmalloc", "myth_flfree", "myth_mmap"], timeout=200),
  Job("c12.stack.default", TA, "h_stack_default", replace_calls=ALLOC, cbmc=U2,
      fuc=["get_new_myth_thread_struct_stack", "free_myth_thread_struct_stack", "myth_mmap"], timeout=200),
  Job("c12.stack.none", TA, "h_stack_none", replace_calls=ALLOC, fuc=["free_myth_thread_struct_stack"], timeout=120),
  Job("c12.desc", TA, "h_desc", replace_calls=LEDGER, cbmc=U2,
      fuc=["get_new_myth_thread_struct_desc", "free_myth_thread_struct_desc", "myth_mmap"], timeout=200),
  Job("c12.entry_point_1", TR, "h_entry_point_1", replace_calls=REL, read_hooks=HOOK, fuc=["myth_entry_point_1"], timeout=200),
  Job("c12.entry_point_2", TR, "h_entry_point_2", replace_calls=REL, read_hooks=HOOK, fuc=["myth_entry_point_2"], timeout=200),
  Job("c12.cleanup", TR, "h_cleanup", replace_calls=REL, read_hooks=HOOK,
      fuc=["myth_entry_point_cleanup", "myth_entry_point_1", "myth_entry_point_2"], timeout=200),
  Job("c12.join_1", TR, "h_join_1", replace_calls=REL, read_hooks=HOOK, fuc=["myth_join_1"], timeout=200),
  Job("c12.join", TR, "h_join", replace_calls=REL, read_hooks=HOOK, loops=spin("myth_join_body", 2), loop_counts={"myth_join_body": 2},
      fuc=["myth_join_body", "myth_join_1", "myth_join_2", "myth_join_3", "myth_get_current_env", "myth_get_current_env_noinline"], timeout=200),
  Job("c12.tryjoin", TR, "h_tryjoin", replace_calls=REL, read_hooks=HOOK, loops=spin("myth_tryjoin_body", 1), loop_counts={"myth_tryjoin_body": 1},
      fuc=["myth_tryjoin_body", "myth_join_1"], timeout=200),
  Job("c12.detach", TR, "h_detach", replace_calls=REL, read_hooks=HOOK, loops=spin("myth_detach_body", 1), loop_counts={"myth_detach_body": 1},
      fuc=["myth_detach_body"], timeout=200),
]
META = {}
