from vf import Job
TA = "c12_alloc.c"
TR = "c12_release.c"
# page carving loop of myth_flmalloc: `while (p < p2) { push(list, p); p += realsize; }`
CARVE_INV = ("0 <= g_pushes && g_pushes <= 511 && 8 <= realsize && realsize <= 2048 && (g_pushes + 1) * (long)realsize <= 4096 && "
             "p2 == (char *)ptr + 4096 && p == (char *)ptr + (g_pushes + 1) * (long)realsize")
L_CARVE = {"myth_flmalloc": [dict(loop_id="0", assigns="p, g_pushes", invariants=CARVE_INV, decreases="512 - g_pushes",
            symbol_map="p,myth_flmalloc::1::1::1::p;p2,myth_flmalloc::1::1::1::p2;realsize,myth_flmalloc::1::1::realsize;"
                       "ptr,myth_flmalloc::1::ptr")]}
LEDGER = ["myth_freelist_push:verif_push", "myth_freelist_pop:verif_pop"]
ALLOC = LEDGER + ["myth_flmalloc:verif_flmalloc", "myth_flfree:verif_flfree"]
U2 = ["--unwind", "2", "--unwinding-assertions"]     # for (i = 0; i < STACK_ALLOC_UNIT; i++), STACK_ALLOC_UNIT == 1: constant of the build
# ledger stubs of part 2 (bodies in c12_release.c)
REL = ["free_myth_thread_struct_stack:verif_free_stack", "free_myth_thread_struct_desc:verif_free_desc",
       "myth_spin_lock_body:verif_lock", "myth_spin_unlock_body:verif_unlock", "myth_queue_pop:verif_queue_pop",
       "myth_tls_tree_fini:verif_tls_fini"]
HOOK = [("status", "verif_rd_status")]
# spin loops `while (th->status != MYTH_STATUS_FREE_READY2) { }`: the environment step sits in the read hook
SPIN_INV = ("g_role == 2 && g_lock_held == 0 && g_desc_rel == 0 && g_handed_over == 0 && g_stack_rel == 0 && "
            "(T->status >= 2 ==> T->result == g_result)")
def spin(fn, n):
    return {fn: [dict(loop_id=str(i), assigns="T->status, T->result", invariants=SPIN_INV) for i in range(n)]}
JOBS = [
  Job("c12.sizeclass", TA, "h_sizeclass", fuc=["MYTH_MALLOC_SIZE_TO_INDEX"], timeout=120),
  Job("c12.sizeclass.limit", TA, "h_sizeclass_limit", fuc=["MYTH_MALLOC_SIZE_TO_INDEX"], timeout=120,
      note="lemma: just above the stated precondition (2^30 < s <= 2^31) the class index is FREE_LIST_NUM, i.e. out of range"),
  Job("c12.freelist.push", TA, "h_push", enforce=["myth_freelist_push/push_contract"], fuc=["myth_freelist_push"], timeout=120),
  Job("c12.freelist.pop", TA, "h_pop", enforce=["myth_freelist_pop/pop_contract"], fuc=["myth_freelist_pop"], timeout=120),
  Job("c12.freelist.lifo", TA, "h_lifo", fuc=["myth_freelist_push", "myth_freelist_pop"], timeout=120),
  Job("c12.flmalloc", TA, "h_flmalloc", replace_calls=LEDGER, loops=L_CARVE, loop_counts={"myth_flmalloc": 1},
      fuc=["myth_flmalloc", "myth_mmap"], timeout=200),
  Job("c12.flfree", TA, "h_flfree", replace_calls=LEDGER, fuc=["myth_flfree"], timeout=120),
  Job("c12.stack.custom", TA, "h_stack_custom", replace_calls=ALLOC, cbmc=U2,
      fuc=["get_new_myth_thread_struct_stack", "free_myth_thread_struct_stack"], timeout=200),
  Job("c12.stack.custom.alloc", TA, "h_stack_custom_alloc", replace_calls=LEDGER,
      cbmc=["--unwind", "2", "--unwindset", "myth_flmalloc.0:1", "--unwinding-assertions"],
      fuc=["get_new_myth_thread_struct_stack", "free_myth_thread_struct_stack", "myth_flmalloc", "myth_flfree", "myth_mmap"], timeout=200),
  Job("c12.stack.default", TA, "h_stack_default", replace_calls=ALLOC, cbmc=U2,
      fuc=["get_new_myth_thread_struct_stack", "free_myth_thread_struct_stack", "myth_mmap"], timeout=200),
  Job("c12.stack.none", TA, "h_stack_none", replace_calls=ALLOC, fuc=["free_myth_thread_struct_stack"], timeout=120),
  Job("c12.desc", TA, "h_desc", replace_calls=LEDGER, cbmc=U2,
      fuc=["get_new_myth_thread_struct_desc", "free_myth_thread_struct_desc", "myth_mmap"], timeout=200),
  Job("c12.entry_point_1", TR, "h_entry_point_1", replace_calls=REL, read_hooks=HOOK, fuc=["myth_entry_point_1"], timeout=200),
  Job("c12.entry_point_2", TR, "h_entry_point_2", replace_calls=REL, read_hooks=HOOK, fuc=["myth_entry_point_2"], timeout=200),
  Job("c12.cleanup", TR, "h_cleanup", replace_calls=REL, read_hooks=HOOK,
      fuc=["myth_entry_point_cleanup", "myth_entry_point_1", "myth_entry_point_2"], timeout=200),
  Job("c12.join_1", TR, "h_join_1", replace_calls=REL, read_hooks=HOOK, fuc=["myth_join_1"], timeout=200),
  Job("c12.join", TR, "h_join", replace_calls=REL, read_hooks=HOOK, loops=spin("myth_join_body", 2), loop_counts={"myth_join_body": 2},
      fuc=["myth_join_body", "myth_join_1", "myth_join_2", "myth_join_3", "myth_get_current_env", "myth_get_current_env_noinline"], timeout=200),
  Job("c12.tryjoin", TR, "h_tryjoin", replace_calls=REL, read_hooks=HOOK, loops=spin("myth_tryjoin_body", 1), loop_counts={"myth_tryjoin_body": 1},
      fuc=["myth_tryjoin_body", "myth_join_1"], timeout=200),
  Job("c12.detach", TR, "h_detach", replace_calls=REL, read_hooks=HOOK, loops=spin("myth_detach_body", 1), loop_counts={"myth_detach_body": 1},
      fuc=["myth_detach_body"], timeout=200),
]
# the public API functions are one-line forwarders to the bodies under contract: checked mechanically (DESIGN 3.5b)
from units.common_forward import forward_job
JOBS = list(JOBS) + [forward_job("c12")]
# the record and the stack of a NEW thread: creation writes the fields the release paths read (stack, detach state, lock);
# the creation job of C01 is part of this check
import importlib as _il
JOBS = list(JOBS) + [j for j in _il.import_module("units.c01").JOBS if j.name in ("c01.create",)]
META = {
 "level": "proof",
 "level_text": "Every obligation generated from the real allocator bodies (size classes for all sizes 1..2^30, free-list push/pop with frame, "
               "myth_flmalloc incl. the page-carving loop under a loop contract, myth_flfree, get/free of custom stacks, default stacks and "
               "records) and from the real finish/join/tryjoin/detach bodies (ownership ledger with poison-on-release, arbitrary finisher "
               "interference on the status word, resumption on any worker) is discharged; nothing is bounded except constants of the build "
               "(STACK_ALLOC_UNIT == 1, PAGE_SIZE) and the two-worker witness.",
 "level_note": "Modular: the list operations are proved against memory contracts (frame + LIFO) and used through ledger stubs elsewhere; the step "
               "from 'each release is legal and unique, each block start/class is exact, carved cells are disjoint, mmap is fresh' to 'stacks "
               "and records of live threads never overlap, for any number of threads and any interleaving' is a paper argument over the "
               "witness thread. Precondition: sizes <= 2^30 (above that MYTH_MALLOC_SIZE_TO_INDEX leaves the list array / truncates; natively "
               "a 2^30+4096 byte stack request crashes). Not decided: that the callback really runs on the next context's stack (asm, C03); "
               "that a running thread's env field names its current worker (scheduler invariant used by myth_entry_point_cleanup).",
 "trusted_base": ["cbmc 6.11.0 (goto-cc, goto-instrument --replace-calls / --dfcc loop contracts, SAT back end)",
                  "gcc -E preprocessing of the real headers (rules R1, R2, R4)",
                  "paper step from the per-function ledger obligations to the global non-overlap / no-reuse statement"],
 "explanation": "Part 1 (c12_alloc.c): size-class arithmetic over all sizes in the stated domain; myth_freelist_push/pop against contracts with "
                "exact frame (only list head and first word of the cell); myth_flmalloc/myth_flfree with list operations replaced by ledger stubs "
                "that demand the right list (class(size), executing worker) and, while carving, that the j-th push is cell j of the fresh page "
                "(loop contract); custom stack layout, size word and exact recomputation of the block start and class on release, on the "
                "allocator's contract and on the real allocator; default stacks and records incl. recycling. Part 2 (c12_release.c): the real "
                "myth_entry_point_cleanup/_1/_2, myth_join_body/_1/_2/_3, myth_tryjoin_body, myth_detach_body with free_*_stack/desc, the "
                "record's spin lock and the run queue replaced by ledger stubs: stack released exactly once, only after the jump away, to the "
                "current worker; record released exactly once, by the finisher iff detached (after unlock, after the stack), otherwise by the "
                "reaper only at an instant where FREE_READY2 is visible and to the worker it runs on NOW; released/handed-over records are "
                "deallocated in the model so any later access fails.",
 "assumptions": [
   "PRECONDITION of the size classes: 1 <= size <= 2^30 (MYTH_MALLOC_SIZE_TO_INDEX passes size_t to the 32-bit __builtin_clz: for 2^30 < size <= 2^31 "
   "the index is FREE_LIST_NUM (out of range, job c12.sizeclass.limit), above 2^32 the size is truncated); g_attr.stacksize in [4096, 2^30]",
   "stub: mmap returns a fresh object of the requested length, disjoint from every other object, and never fails (OS contract; on failure the library aborts in myth_mmap); "
   "its arguments are checked (anonymous, private, read/write, whole pages)",
   "ledger stubs with bodies (goto-instrument --replace-calls) stand for myth_freelist_push/pop in the flmalloc/stack/record jobs; their memory effect is proved "
   "separately (jobs c12.freelist.*); in job c12.stack.custom also for myth_flmalloc/myth_flfree (contract: block of `size` bytes owned by the caller / "
   "live block, exact start, same class, executing worker), which is proved on the real bodies in c12.flmalloc, c12.flfree, c12.stack.custom.alloc",
   "part 2 stubs: free_myth_thread_struct_stack/_desc (ledger + deallocation of the record as poison), myth_spin_lock_body/myth_spin_unlock_body on the record's lock "
   "(ledger: held/not held, hand-over of the record at the unlock), myth_queue_pop (returns a runnable thread or NULL), myth_tls_tree_fini (C11, no effect here)",
   "context switches are replaced by their control-flow meaning: set_context_withcall = run the callback, never return; swap_context_withcall = run the callback, "
   "then be resumed arbitrarily later on ANY worker (g_worker_rank havocked) after arbitrary progress of the finisher; what the asm does is C03",
   "rely of the reaper on the finisher: status below FREE_READY may change arbitrarily, FREE_READY only to FREE_READY2, FREE_READY2 is final until the thread is reaped; "
   "the exit value is fixed once the status is >= FREE_READY; nothing changes while the reaper holds the record's lock; a thread is reaped by at most one caller (join XOR detach, as pthreads demands)",
   "the finisher's view: myth_entry_point_cleanup takes the worker from this_thread->env; that a running thread's env field names the worker it runs on is a scheduler invariant assumed here (C01/C02)",
   "not modelled as a violation: the unlocked fast path of myth_detach_body may release the record between the finisher's store of FREE_READY2 and its unlock store, so the store "
   "`lock.locked = 0` can land in a released (possibly recycled) record; harmless with the test-and-set spin lock (nobody can acquire that lock before this very store), reported to the lead",
   "two workers (the executing one and one other) as witness; every harness runs once per possible current worker; STACK_ALLOC_UNIT == 1 and PAGE_SIZE == 4096 are constants of the build "
   "(loops over STACK_ALLOC_UNIT unwound with unwinding assertions: complete)",
   "that the post-switch callback really executes on the next context's stack (so that the released stack is no longer in use) is the asm's business (C03)",
   "liveness (the spin loops on FREE_READY2 terminate) is not decided",
 ],
}
