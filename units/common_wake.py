"""jobs on the blocking / wake-up procedures shared by C04, C05 (and used as contracts by C06-C09)"""
from vf import Job
TU = "c05_wake_block.c"
L_WAKE_ONE = {"myth_wake_one_from_queue": [dict(loop_id="0", assigns="to_wake, failed, g_deq_done, g_deq_null_seen",
               invariants="g_deq_done == 0 && g_pushed == 0 && g_bit_cleared == 0 && TH0.env == 0",
               symbol_map="to_wake,myth_wake_one_from_queue::1::to_wake;failed,myth_wake_one_from_queue::1::failed")]}
L_WAKE_ALL = {"myth_wake_all_from_queue": [dict(loop_id="0", assigns="n, g_last_was_empty, g_any_woken, g_wia_polls",
               invariants="g_last_was_empty == 0", symbol_map="n,myth_wake_all_from_queue::1::n")]}
SPIN_INV = "((g_L == 0 || g_L == 1) && (g_l_mine == 0 || g_l_mine == 1) && (g_l_env == 0 || g_l_env == 1) && g_L == g_l_mine + g_l_env)"
L_SPIN = {"myth_spin_lock_body": [dict(loop_id="0", assigns="L.locked, g_L, g_l_env, g_l_mine, failed",
               invariants="L.locked == g_L && " + SPIN_INV + " && g_l_mine == 0",
               symbol_map="failed,myth_spin_lock_body::1::failed")]}
WAKE_STUBS = ["empty_loop/empty_loop_contract", "myth_queue_push/push_contract"]
WAKE_CALLS = ["myth_sleep_queue_deq:verif_deq"]

def wake_one_jobs(p):
    return [
      Job(p + ".wake_one", TU, "h_wake_one", loops=L_WAKE_ONE, loop_counts={"myth_wake_one_from_queue": 1},
          replace=WAKE_STUBS + ["myth_mutex_clear_lock_bit/clear_bit_contract"], replace_calls=WAKE_CALLS,
          fuc=["myth_wake_one_from_queue"], timeout=300,
          assumes=["myth_sleep_queue_deq / myth_queue_push replaced by call-protocol contracts (proved separately: sleep queue jobs, C02)"]),
    ]

def block_jobs(p):
    return [
      Job(p + ".block_on_queue", TU, "h_block_on_queue",
          replace=["myth_sleep_queue_enq/enq_contract", "myth_mutex_unlock_body/unlock_contract",
                   "verif_suspend_resume/suspend_resume_contract"], replace_calls=["myth_queue_pop:verif_pop"],
          fuc=["myth_block_on_queue", "myth_block_on_queue_cb"], timeout=300,
          assumes=["context switch primitives replaced by their control-flow meaning (verif_ctx.h); register/stack effects are C03"]),
    ]

def sleepq_jobs(p):
    sq_repl = ["myth_spin_lock_body/ilock_lock_contract", "myth_spin_unlock_body/ilock_unlock_contract"]
    hooks = [("head", "verif_rd_sq"), ("tail", "verif_rd_sq")]
    return [
      Job(p + ".sleepq.enq", TU, "h_sq_enq", replace=sq_repl, read_hooks=hooks, fuc=["myth_sleep_queue_enq"], timeout=300),
      Job(p + ".sleepq.deq", TU, "h_sq_deq", replace=sq_repl, read_hooks=hooks, fuc=["myth_sleep_queue_deq"], timeout=300),
      Job(p + ".sleepq.init", TU, "h_sq_init", fuc=["myth_sleep_queue_init"], timeout=200),
    ]

def spin_jobs(p):
    env = ["spin_env_step/spin_env_step"]
    hooks = []      # the spin lock word is never read as an rvalue by the code under proof (CAS and plain store only)
    return [
      Job(p + ".spin.trylock", TU, "h_spin_trylock", replace=env, read_hooks=hooks, fuc=["myth_spin_trylock_body", "myth_compare_and_set_int"], timeout=200),
      Job(p + ".spin.lock", TU, "h_spin_lock", replace=env, read_hooks=hooks, loops=L_SPIN, loop_counts={"myth_spin_lock_body": 1},
          fuc=["myth_spin_lock_body", "myth_spin_trylock_body"], timeout=200),
      Job(p + ".spin.unlock", TU, "h_spin_unlock", replace=env, read_hooks=hooks, fuc=["myth_spin_unlock_body"], timeout=200),
    ]

def cond_jobs(p):
    return [
      Job(p + ".wake_if_any", TU, "h_wake_if_any", enforce=["myth_wake_if_any_from_queue/wake_if_any_fn_contract"],
          replace=["myth_queue_push/push_contract"], replace_calls=WAKE_CALLS,
          fuc=["myth_wake_if_any_from_queue"], timeout=300),
      Job(p + ".wake_all.deep", TU, "h_wake_all_deep",
          loops={"myth_wake_all_from_queue": [dict(loop_id="0", assigns="n, g_wa_w_deq, g_wa_w_pushed, g_wa_last_null, TH0.env, TH1.env",
                 invariants="g_wa_w_deq == g_wa_w_pushed && (g_wa_w_deq == 0 || g_wa_w_deq == 1)", symbol_map="n,myth_wake_all_from_queue::1::n")]},
          loop_counts={"myth_wake_all_from_queue": 1}, replace_calls=["myth_sleep_queue_deq:verif_deq_all", "myth_queue_push:verif_push_all"],
          fuc=["myth_wake_all_from_queue", "myth_wake_if_any_from_queue"], timeout=300, degraded_unwind=135,
          note="wake_all with the real wake_if_any inlined, down to dequeue / publish; if the loop structure changes the bounded search unwinds 135 times (batch sizes up to 128)"),
      Job(p + ".wake_all", TU, "h_wake_all", loops=L_WAKE_ALL, loop_counts={"myth_wake_all_from_queue": 1},
          replace=["myth_wake_if_any_from_queue/wake_if_any_contract"], fuc=["myth_wake_all_from_queue"], timeout=300),
      Job(p + ".cond_wait", TU, "h_cond_wait", replace=["myth_block_on_queue/block_contract", "myth_mutex_lock/mutex_lock_contract"],
          fuc=["myth_cond_wait_body"], timeout=200),
      Job(p + ".cond_signal", TU, "h_cond_signal", replace=["myth_wake_if_any_from_queue/wake_if_any_once_contract", "myth_wake_all_from_queue/never_called_contract"],
          fuc=["myth_cond_signal_body"], timeout=200),
      Job(p + ".cond_broadcast", TU, "h_cond_broadcast", replace=["myth_wake_all_from_queue/wake_all_contract", "myth_wake_if_any_from_queue/never_called_contract"],
          fuc=["myth_cond_broadcast_body"], timeout=200),
      Job(p + ".cond_init", TU, "h_cond_init", fuc=["myth_cond_init_body", "myth_sleep_queue_init"], timeout=200),
    ]
