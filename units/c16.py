from vf import Job
TU = "c16_adapter.c"
LD = ["-UMYTH_WRAP", "-DMYTH_WRAP=MYTH_WRAP_LD"]
NOCONV = ["--bounds-check", "--pointer-check", "--signed-overflow-check", "--undefined-shift-check", "--div-by-zero-check"]
GATTR = ["myth_globalattr_get_stacksize_body:verif_get_stacksize", "myth_globalattr_get_guardsize_body:verif_get_guardsize",
         "myth_globalattr_get_child_first_body:verif_get_child_first"]
CONV_INV = ("((g_A == g_U || g_A == 987654321 || g_A == 123456789) && g_U != 987654321 && g_U != 123456789 && "
            "(g_i_conv == 0 || g_i_conv == 1) && (g_env_conv == 0 || g_env_conv == 1) && "
            "(g_A == 987654321 ? g_i_conv + g_env_conv == 1 : (g_i_conv == 0 && g_env_conv == 0)))")
L_CONV = {"myth_handle_PTHREAD_MUTEX_INITIALIZER": [dict(loop_id="0", assigns="MX.magic, g_A, g_env_conv",
            invariants="magic_p == &MX.magic && MX.magic == g_A && " + CONV_INV + " && g_i_conv == 0 && (g_A == 987654321 || g_A == 123456789)",
            symbol_map="magic_p,myth_handle_PTHREAD_MUTEX_INITIALIZER::1::magic_p")]}
JOBS = [
  Job("c16.attr.thread", TU, "h_attr_thread", defines=LD, replace_calls=GATTR,
      fuc=["pthread_attr_to_myth", "myth_thread_attr_init_body"], timeout=120),
  Job("c16.attr.thread.full", TU, "h_attr_thread_full", defines=LD, replace_calls=GATTR,
      fuc=["pthread_attr_to_myth", "myth_thread_attr_init_body"], timeout=120),
  Job("c16.attr.mutex", TU, "h_attr_mutex", defines=LD,
      fuc=["pthread_mutexattr_to_myth", "pthread_mutex_type_to_myth", "myth_mutexattr_init_body"], timeout=120),
  Job("c16.attr.cond_barrier", TU, "h_attr_cond_barrier", defines=LD,
      fuc=["pthread_condattr_to_myth", "pthread_barrierattr_to_myth"], timeout=120),
  Job("c16.switch", TU, "h_should_wrap", defines=LD, replace_calls=["getenv:verif_getenv", "atoi:verif_atoi"],
      cbmc=["--unwind", "20", "--unwinding-assertions"], fuc=["myth_should_wrap_pthread"], timeout=120),
  Job("c16.convert", TU, "h_convert", defines=LD, loops=L_CONV, loop_counts={"myth_handle_PTHREAD_MUTEX_INITIALIZER": 1},
      replace=["myth_verif_env_step/myth_verif_env_step", "myth_rwbarrier/rwbarrier_contract"],
      fuc=["myth_handle_PTHREAD_MUTEX_INITIALIZER"], timeout=200),
  Job("c16.convert.lemmas", TU, "h_convert_lemmas", defines=LD, timeout=100),
  Job("c16.overlay.sizes", TU, "h_overlay_sizes", defines=LD, timeout=100),
] + [
  Job("c16.keys.%s.leaf%d" % (n, lf), "c16_keys.c", h, cbmc=["--unwind", "18", "--unwinding-assertions"], defines=["-DLEAF_IX=%d" % lf],
      kind="bounded", note="leaf index fixed to %d (quick tier: first/last leaf of the 64; thorough tier: every leaf); all 16 keys of the leaf, all values, all destructor tables" % lf,
      fuc=f, timeout=300, tiers=(("quick", "thorough") if lf in (0, 63) else ("thorough",)))
  for lf in range(64)            # quick tier: first and last leaf; thorough tier: all 64 leaves = all 1024 keys
  for (n, h, f) in (("exit_live", "h_exit_live_key", ["myth_tls_call_destructors_rec"]),
                    ("exit_deleted", "h_exit_deleted_key", ["myth_tls_call_destructors_rec", "myth_tls_key_allocator_dealloc"]))
]

# ---------------------------------------------------------------------------------------------------------------
# (c) forwarding obligations, generated mechanically from the table below (the SPECIFICATION of the adapter: which
# MassiveThreads body stands for which pthread entry point, and how the arguments are translated).  The generator
# writes contracts/c16_forward_gen.c: for every body a recording stub (same signature; bound with --replace-calls, so
# the wrappers analysed are the unmodified text of src/myth_wrap_pthread.c), for every real_* symbol (src/myth_real.c,
# not part of the TU) a recording stub, and one harness per family with one case per wrapper.
import os as _os

P_T, I_T = "pthread_t", "int"
# (group, wrapper, return type, [(type, name)], body, body return type, [(body param type, expected argument)], options)
#   options: handle = "must" | "may"  (myth_handle_PTHREAD_MUTEX_INITIALIZER(mutex) before the body)
#            tr = (translation function, pthread attr type, myth attr type, index of the body's attribute parameter)
#            noreturn, barrier_ret
FW = [
 ("thread", "pthread_create", I_T, [("pthread_t *", "thread"), ("const pthread_attr_t *", "attr"), ("void *(*)(void *)", "start_routine"), ("void *", "arg")],
    "myth_create_ex_body", I_T, [("myth_thread_t *", "(myth_thread_t *)thread"), ("myth_thread_attr_t *", None), ("myth_func_t", "start_routine"), ("void *", "arg")],
    dict(tr=("pthread_attr_to_myth", "pthread_attr_t", "myth_thread_attr_t", 1))),
 ("thread", "pthread_exit", "void", [("void *", "retval")], "myth_exit_body", "void", [("void *", "retval")], dict(noreturn=1)),
 ("thread", "pthread_join", I_T, [(P_T, "thread"), ("void **", "retval")], "myth_join_body", I_T, [("myth_thread_t", "(myth_thread_t)thread"), ("void **", "retval")], {}),
 ("thread", "pthread_tryjoin_np", I_T, [(P_T, "thread"), ("void **", "retval")], "myth_tryjoin_body", I_T, [("myth_thread_t", "(myth_thread_t)thread"), ("void **", "retval")], {}),
 ("thread", "pthread_timedjoin_np", I_T, [(P_T, "thread"), ("void **", "retval"), ("const struct timespec *", "abstime")],
    "myth_timedjoin_body", I_T, [("myth_thread_t", "(myth_thread_t)thread"), ("void **", "retval"), ("const struct timespec *", "abstime")], {}),
 ("thread", "pthread_detach", I_T, [(P_T, "thread")], "myth_detach_body", I_T, [("myth_thread_t", "(myth_thread_t)thread")], {}),
 ("thread", "pthread_self", P_T, [], "myth_self_body", "myth_thread_t", [], {}),
 ("thread", "pthread_equal", I_T, [(P_T, "t1"), (P_T, "t2")], "myth_equal_body", I_T, [("myth_thread_t", "(myth_thread_t)t1"), ("myth_thread_t", "(myth_thread_t)t2")], {}),
 ("thread", "pthread_getconcurrency", I_T, [], "myth_getconcurrency_body", I_T, [], {}),
 ("thread", "sched_yield", I_T, [], "myth_yield_body", I_T, [], {}),
 ("thread", "pthread_once", I_T, [("pthread_once_t *", "once_control"), ("void (*)(void)", "init_routine")],
    "myth_once_body", I_T, [("myth_once_t *", "(myth_once_t *)once_control"), ("void (*)(void)", "init_routine")], {}),
 ("mutex", "pthread_mutex_init", I_T, [("pthread_mutex_t *", "mutex"), ("const pthread_mutexattr_t *", "attr")],
    "myth_mutex_init_body", I_T, [("myth_mutex_t *", "(myth_mutex_t *)mutex"), ("const myth_mutexattr_t *", None)],
    dict(tr=("pthread_mutexattr_to_myth", "pthread_mutexattr_t", "myth_mutexattr_t", 1))),
 ("mutex", "pthread_mutex_destroy", I_T, [("pthread_mutex_t *", "mutex")], "myth_mutex_destroy_body", I_T, [("myth_mutex_t *", "(myth_mutex_t *)mutex")], {}),
 ("mutex", "pthread_mutex_trylock", I_T, [("pthread_mutex_t *", "mutex")], "myth_mutex_trylock_body", I_T, [("myth_mutex_t *", "(myth_mutex_t *)mutex")], dict(handle="must")),
 ("mutex", "pthread_mutex_lock", I_T, [("pthread_mutex_t *", "mutex")], "myth_mutex_lock_body", I_T, [("myth_mutex_t *", "(myth_mutex_t *)mutex")], dict(handle="must")),
 ("mutex", "pthread_mutex_timedlock", I_T, [("pthread_mutex_t *", "mutex"), ("const struct timespec *", "abstime")],
    "myth_mutex_timedlock_body", I_T, [("myth_mutex_t *", "(myth_mutex_t *)mutex"), ("const struct timespec *", "abstime")], dict(handle="must")),
 ("mutex", "pthread_mutex_unlock", I_T, [("pthread_mutex_t *", "mutex")], "myth_mutex_unlock_body", I_T, [("myth_mutex_t *", "(myth_mutex_t *)mutex")], dict(handle="may")),
 ("cond", "pthread_cond_init", I_T, [("pthread_cond_t *", "cond"), ("const pthread_condattr_t *", "attr")],
    "myth_cond_init_body", I_T, [("myth_cond_t *", "(myth_cond_t *)cond"), ("const myth_condattr_t *", None)],
    dict(tr=("pthread_condattr_to_myth", "pthread_condattr_t", "myth_condattr_t", 1))),
 ("cond", "pthread_cond_destroy", I_T, [("pthread_cond_t *", "cond")], "myth_cond_destroy_body", I_T, [("myth_cond_t *", "(myth_cond_t *)cond")], {}),
 ("cond", "pthread_cond_signal", I_T, [("pthread_cond_t *", "cond")], "myth_cond_signal_body", I_T, [("myth_cond_t *", "(myth_cond_t *)cond")], {}),
 ("cond", "pthread_cond_broadcast", I_T, [("pthread_cond_t *", "cond")], "myth_cond_broadcast_body", I_T, [("myth_cond_t *", "(myth_cond_t *)cond")], {}),
 ("cond", "pthread_cond_wait", I_T, [("pthread_cond_t *", "cond"), ("pthread_mutex_t *", "mutex")],
    "myth_cond_wait_body", I_T, [("myth_cond_t *", "(myth_cond_t *)cond"), ("myth_mutex_t *", "(myth_mutex_t *)mutex")], {}),
 ("cond", "pthread_cond_timedwait", I_T, [("pthread_cond_t *", "cond"), ("pthread_mutex_t *", "mutex"), ("const struct timespec *", "abstime")],
    "myth_cond_timedwait_body", I_T, [("myth_cond_t *", "(myth_cond_t *)cond"), ("myth_mutex_t *", "(myth_mutex_t *)mutex"), ("const struct timespec *", "abstime")], {}),
 ("spin_barrier", "pthread_spin_init", I_T, [("pthread_spinlock_t *", "lock"), (I_T, "pshared")], "myth_spin_init_body", I_T, [("myth_spinlock_t *", "(myth_spinlock_t *)lock")], {}),
 ("spin_barrier", "pthread_spin_destroy", I_T, [("pthread_spinlock_t *", "lock")], "myth_spin_destroy_body", I_T, [("myth_spinlock_t *", "(myth_spinlock_t *)lock")], {}),
 ("spin_barrier", "pthread_spin_lock", I_T, [("pthread_spinlock_t *", "lock")], "myth_spin_lock_body", I_T, [("myth_spinlock_t *", "(myth_spinlock_t *)lock")], {}),
 ("spin_barrier", "pthread_spin_trylock", I_T, [("pthread_spinlock_t *", "lock")], "myth_spin_trylock_body", I_T, [("myth_spinlock_t *", "(myth_spinlock_t *)lock")], {}),
 ("spin_barrier", "pthread_spin_unlock", I_T, [("pthread_spinlock_t *", "lock")], "myth_spin_unlock_body", I_T, [("myth_spinlock_t *", "(myth_spinlock_t *)lock")], {}),
 ("spin_barrier", "pthread_barrier_init", I_T, [("pthread_barrier_t *", "barrier"), ("const pthread_barrierattr_t *", "attr"), ("unsigned", "count")],
    "myth_barrier_init_body", I_T, [("myth_barrier_t *", "(myth_barrier_t *)barrier"), ("const myth_barrierattr_t *", None), ("long", "(long)count")],
    dict(tr=("pthread_barrierattr_to_myth", "pthread_barrierattr_t", "myth_barrierattr_t", 1))),
 ("spin_barrier", "pthread_barrier_destroy", I_T, [("pthread_barrier_t *", "barrier")], "myth_barrier_destroy_body", I_T, [("myth_barrier_t *", "(myth_barrier_t *)barrier")], {}),
 ("spin_barrier", "pthread_barrier_wait", I_T, [("pthread_barrier_t *", "barrier")], "myth_barrier_wait_body", I_T, [("myth_barrier_t *", "(myth_barrier_t *)barrier")], dict(barrier_ret=1)),
 ("key_sleep", "pthread_key_create", I_T, [("pthread_key_t *", "key"), ("void (*)(void *)", "destructor")],
    "myth_key_create_body", I_T, [("myth_key_t *", "(myth_key_t *)key"), ("myth_tls_destructor_fun_t", "destructor")], {}),
 ("key_sleep", "pthread_key_delete", I_T, [("pthread_key_t", "key")], "myth_key_delete_body", I_T, [("myth_key_t", "(myth_key_t)key")], {}),
 ("key_sleep", "pthread_getspecific", "void *", [("pthread_key_t", "key")], "myth_getspecific_body", "void *", [("myth_key_t", "(myth_key_t)key")], {}),
 ("key_sleep", "pthread_setspecific", I_T, [("pthread_key_t", "key"), ("const void *", "value")], "myth_setspecific_body", I_T, [("myth_key_t", "(myth_key_t)key"), ("const void *", "value")], {}),
 ("key_sleep", "sleep", "unsigned int", [("unsigned int", "s")], "myth_sleep_body", "unsigned int", [("unsigned int", "s")], {}),
 ("key_sleep", "usleep", I_T, [("useconds_t", "usec")], "myth_usleep_body", I_T, [("useconds_t", "usec")], {}),
 ("key_sleep", "nanosleep", I_T, [("const struct timespec *", "req"), ("struct timespec *", "rem")], "myth_nanosleep_body", I_T, [("const struct timespec *", "req"), ("struct timespec *", "rem")], {}),
]
# attribute-object functions: MassiveThreads keeps the system's attribute objects, so these go to the real function in
# BOTH modes ("with or without attribute objects": the program's attribute object must mean the same in both runs)
A, CA = "pthread_attr_t *", "const pthread_attr_t *"
MA, CMA = "pthread_mutexattr_t *", "const pthread_mutexattr_t *"
NA, CNA = "pthread_condattr_t *", "const pthread_condattr_t *"
BA, CBA = "pthread_barrierattr_t *", "const pthread_barrierattr_t *"
PASS = [
 ("pthread_attr_init", [(A, "attr")]), ("pthread_attr_destroy", [(A, "attr")]),
 ("pthread_attr_getdetachstate", [(CA, "attr"), ("int *", "v")]), ("pthread_attr_setdetachstate", [(A, "attr"), (I_T, "v")]),
 ("pthread_attr_getguardsize", [(CA, "attr"), ("size_t *", "v")]), ("pthread_attr_setguardsize", [(A, "attr"), ("size_t", "v")]),
 ("pthread_attr_getschedparam", [(CA, "attr"), ("struct sched_param *", "v")]), ("pthread_attr_setschedparam", [(A, "attr"), ("const struct sched_param *", "v")]),
 ("pthread_attr_getschedpolicy", [(CA, "attr"), ("int *", "v")]), ("pthread_attr_setschedpolicy", [(A, "attr"), (I_T, "v")]),
 ("pthread_attr_getinheritsched", [(CA, "attr"), ("int *", "v")]), ("pthread_attr_setinheritsched", [(A, "attr"), (I_T, "v")]),
 ("pthread_attr_getscope", [(CA, "attr"), ("int *", "v")]), ("pthread_attr_setscope", [(A, "attr"), (I_T, "v")]),
 ("pthread_attr_getstacksize", [(CA, "attr"), ("size_t *", "v")]), ("pthread_attr_setstacksize", [(A, "attr"), ("size_t", "v")]),
 ("pthread_attr_getstack", [(CA, "attr"), ("void **", "a"), ("size_t *", "v")]), ("pthread_attr_setstack", [(A, "attr"), ("void *", "a"), ("size_t", "v")]),
 ("pthread_mutexattr_init", [(MA, "attr")]), ("pthread_mutexattr_destroy", [(MA, "attr")]),
 ("pthread_mutexattr_getpshared", [(CMA, "attr"), ("int *", "v")]), ("pthread_mutexattr_setpshared", [(MA, "attr"), (I_T, "v")]),
 ("pthread_mutexattr_gettype", [(CMA, "attr"), ("int *", "v")]), ("pthread_mutexattr_settype", [(MA, "attr"), (I_T, "v")]),
 ("pthread_mutexattr_getprotocol", [(CMA, "attr"), ("int *", "v")]), ("pthread_mutexattr_setprotocol", [(MA, "attr"), (I_T, "v")]),
 ("pthread_mutexattr_getprioceiling", [(CMA, "attr"), ("int *", "v")]), ("pthread_mutexattr_setprioceiling", [(MA, "attr"), (I_T, "v")]),
 ("pthread_condattr_init", [(NA, "attr")]), ("pthread_condattr_destroy", [(NA, "attr")]),
 ("pthread_condattr_getpshared", [(CNA, "attr"), ("int *", "v")]), ("pthread_condattr_setpshared", [(NA, "attr"), (I_T, "v")]),
 ("pthread_condattr_getclock", [(CNA, "attr"), ("clockid_t *", "v")]), ("pthread_condattr_setclock", [(NA, "attr"), ("clockid_t", "v")]),
 ("pthread_barrierattr_init", [(BA, "attr")]), ("pthread_barrierattr_destroy", [(BA, "attr")]),
 ("pthread_barrierattr_getpshared", [(CBA, "attr"), ("int *", "v")]), ("pthread_barrierattr_setpshared", [(BA, "attr"), (I_T, "v")]),
]
# wrappers outside the supported subset of the statement (scheduling, cancellation, signals, affinity, names, robust
# mutexes, default attributes): classified, no obligation attached
OUTSIDE = ["pthread_attr_setaffinity_np", "pthread_attr_getaffinity_np", "pthread_getattr_default_np", "pthread_setattr_default_np",
           "pthread_getattr_np", "pthread_setschedparam", "pthread_getschedparam", "pthread_setschedprio", "pthread_getname_np",
           "pthread_setname_np", "pthread_setconcurrency", "pthread_yield", "pthread_yield_foo", "pthread_setaffinity_np", "pthread_getaffinity_np",
           "pthread_setcancelstate", "pthread_setcanceltype", "pthread_cancel", "pthread_testcancel", "pthread_mutex_getprioceiling",
           "pthread_mutex_setprioceiling", "pthread_mutex_consistent", "pthread_mutexattr_getrobust", "pthread_mutexattr_setrobust",
           "pthread_getcpuclockid", "pthread_kill", "pthread_sigqueue", "pthread_sigmask",
           # not compiled in this configuration (HAVE_PTHREAD_RWLOCK undefined) / under #if 0
           "pthread_rwlock_init", "pthread_rwlock_destroy", "pthread_rwlock_rdlock", "pthread_rwlock_tryrdlock", "pthread_rwlock_timedrdlock",
           "pthread_rwlock_wrlock", "pthread_rwlock_trywrlock", "pthread_rwlock_timedwrlock", "pthread_rwlock_unlock",
           "pthread_rwlockattr_init", "pthread_rwlockattr_destroy", "pthread_rwlockattr_getpshared", "pthread_rwlockattr_setpshared",
           "pthread_rwlockattr_getkind_np", "pthread_rwlockattr_setkind_np", "pthread_attr_getstackaddr", "pthread_attr_setstackaddr",
           "pthread_atfork", "pthread_kill_other_threads_np", "pthread_cleanup_push", "pthread_cleanup_push_defer_np",
           "pthread_cleanup_pop", "pthread_cleanup_pop_restore_np"]


def _decl(t, n):
    """C declarator for a parameter of type t named n (function-pointer types carry the name inside)"""
    if "(*)" in t:
        return t.replace("(*)", "(*" + n + ")", 1)
    return t + " " + n


def _nondet(t, tag, objs):
    """an arbitrary argument of C type t: NULL or the address of a dedicated object for pointers, any value for scalars"""
    t0 = t.replace("const ", "").strip()
    if t0 == "void *(*)(void *)":
        return "(nondet_bool() ? fw_start : 0)"
    if t0 == "void (*)(void)":
        return "(nondet_bool() ? fw_init : 0)"
    if t0 == "void (*)(void *)":
        return "(nondet_bool() ? fw_destr : 0)"
    if t0 == "void *":
        objs.append("static char %s;" % tag)
        return "(nondet_bool() ? (void *)&%s : 0)" % tag
    if t0.endswith("*"):
        objs.append("static %s %s;" % (t0[:-1].strip(), tag))
        return "(nondet_bool() ? &%s : 0)" % tag
    return {"int": "nondet_int()", "unsigned": "nondet_unsigned()", "unsigned int": "nondet_unsigned()", "size_t": "nondet_ulong()",
            "pthread_t": "nondet_ulong()", "pthread_key_t": "nondet_unsigned()", "useconds_t": "nondet_unsigned()",
            "clockid_t": "nondet_int()"}[t0]


_RETG = {"int": "g_ret_int", "unsigned int": "g_ret_uint", "void *": "g_ret_ptr", "myth_thread_t": "g_ret_thr", "pthread_t": "g_ret_ul"}


def generate():
    o = []
    w = o.append
    w("/* GENERATED by units/c16.py (generate()) from its table FW / PASS -- do not edit.\n"
      " * C16 (c): every pthread entry point of the supported subset calls exactly the corresponding MassiveThreads body once,\n"
      " * with the translated arguments, and returns its value (or, with MYTH_WRAP_PTHREAD=0, the system function).\n"
      " * The wrappers are the unmodified text of src/myth_wrap_pthread.c (built as -DMYTH_WRAP=MYTH_WRAP_LD: __wrap_<name>).\n"
      " * The stub_* functions below replace the CALLS of the bodies (--replace-calls); real_* are external (src/myth_real.c).\n */")
    w('#include "verif_common.h"\n#include "verif_ctx.h"\n#include "myth_wrap_pthread.c"                    /* the real code */\n')
    w("int g_seq, g_total;                 /* every recorded call takes a sequence number; g_total counts bodies and real functions */")
    w("int g_ret_int, g_ret_int2; unsigned int g_ret_uint, g_ret_uint2; void * g_ret_ptr; void * g_ret_ptr2; myth_thread_t g_ret_thr; pthread_t g_ret_ul;")
    w("char fw_cell[4]; struct myth_thread fw_thr;")
    w("static void * fw_start(void * a) { return a; }\nstatic void fw_init(void) { }\nstatic void fw_destr(void * a) { (void)a; }")
    w("/* environment: MYTH_WRAP_PTHREAD and MYTH_TRACE_WRAPPED_FUNC arbitrary */")
    w("int g_env_present[2], g_env_value[2]; char fw_envtxt[2][2];")
    w("static int fw_streq(const char * s, const char * lit, unsigned n) { for (unsigned k = 0; k < n; k++) if (s[k] != lit[k]) return 0; return 1; }")
    w('char * verif_getenv(const char * name) {\n'
      '  if (fw_streq(name, "MYTH_WRAP_PTHREAD", sizeof("MYTH_WRAP_PTHREAD"))) return g_env_present[0] ? &fw_envtxt[0][0] : 0;\n'
      '  if (fw_streq(name, "MYTH_TRACE_WRAPPED_FUNC", sizeof("MYTH_TRACE_WRAPPED_FUNC"))) return g_env_present[1] ? &fw_envtxt[1][0] : 0;\n'
      '  __CPROVER_assert(0, "the adapter consults no other environment variable");\n  return 0;\n}')
    w("int verif_atoi(const char * s) { return s == &fw_envtxt[0][0] ? g_env_value[0] : g_env_value[1]; }")
    w("/* translation of attribute objects (contracts proved in c16_adapter.c): here only who is called with what */")
    w("int g_n_tr; const void * g_tr_p; void * g_tr_ret; int g_attr_ok;")
    w("int g_n_handle, g_handle_seq; pthread_mutex_t * g_handle_arg;")
    w("int stub_handle(pthread_mutex_t * pm) { if (g_n_handle < 2) g_n_handle++; g_handle_arg = pm; g_handle_seq = ++g_seq; return 0; }")
    seen_tr = set()
    for r in FW:
        tr = r[7].get("tr")
        if tr and tr[0] not in seen_tr:
            seen_tr.add(tr[0])
            w("%s * stub_%s(const %s * p, %s * m) { if (g_n_tr < 2) g_n_tr++; g_tr_p = p; g_tr_ret = p ? (void *)m : 0; ++g_seq; return p ? m : 0; }"
              % (tr[2], tr[0], tr[1], tr[2]))
    # body stubs
    seen = set()
    for (grp, name, ret, params, body, bret, bparams, opt) in FW:
        if body in seen:
            continue
        seen.add(body)
        w("int g_n_%s, g_seq_%s;" % (body, body))
        args = []
        rec = []
        for i, (bt, ex) in enumerate(bparams):
            args.append(_decl(bt, "a%d" % i))
            if ex is None:
                rec.append("g_attr_ok = ((const void *)a%d == g_tr_ret);" % i)
            else:
                w("%s;" % _decl(bt, "g_%s_a%d" % (body, i)))
                rec.append("g_%s_a%d = a%d;" % (body, i, i))
        tail = "return %s;" % _RETG[bret] if bret != "void" else ""
        if opt.get("noreturn"):
            tail = "fw_noreturn_check(); __CPROVER_assume(0);"
        w("%s stub_%s(%s) { if (g_n_%s < 2) g_n_%s++; g_total++; g_seq_%s = ++g_seq; %s %s }"
          % (bret, body, ", ".join(args) or "void", body, body, body, " ".join(rec), tail))
    # real stubs
    allrows = [(name, ret, params, opt) for (_, name, ret, params, _, _, _, opt) in FW] + [(n, "int", ps, {}) for (n, ps) in PASS]
    w("void fw_noreturn_check(void);")
    for (name, ret, params, opt) in allrows:
        w("int g_n_real_%s;" % name)
        rec = []
        for i, (t, n) in enumerate(params):
            w("%s;" % _decl(t, "g_real_%s_a%d" % (name, i)))
            rec.append("g_real_%s_a%d = a%d;" % (name, i, i))
        rg = {"int": "g_ret_int2", "unsigned int": "g_ret_uint2", "void *": "g_ret_ptr2", "pthread_t": "g_ret_ul"}.get(ret)
        tail = "return %s;" % rg if ret != "void" else ""
        if opt.get("noreturn"):
            tail = "fw_noreturn_check(); __CPROVER_assume(0);"
        w("%s real_%s(%s) { if (g_n_real_%s < 2) g_n_real_%s++; g_total++; ++g_seq; %s %s }"
          % (ret, name, ", ".join(_decl(t, "a%d" % i) for i, (t, n) in enumerate(params)) or "void", name, name, " ".join(rec), tail))
    # harnesses
    w("int g_w;                               /* the redirection decision, taken before the call under test */")
    w("static void fw_world(void) {\n"
      "  for (int v = 0; v < 2; v++) { g_env_present[v] = nondet_bool(); g_env_value[v] = nondet_int(); }\n"
      "  g_ret_int = nondet_int(); g_ret_int2 = nondet_int(); g_ret_uint = nondet_unsigned(); g_ret_uint2 = nondet_unsigned();\n"
      "  g_ret_ptr = nondet_bool() ? (void *)&fw_cell[0] : 0; g_ret_ptr2 = nondet_bool() ? (void *)&fw_cell[1] : 0;\n"
      "  g_ret_thr = nondet_bool() ? &fw_thr : 0; g_ret_ul = nondet_ulong();\n"
      "  g_w = myth_should_wrap_pthread();\n"
      "  __CPROVER_assert(g_w == ((g_env_present[0] && g_env_value[0] == 0) ? 0 : 1), \"redirection switch: MassiveThreads unless MYTH_WRAP_PTHREAD is set to 0\");\n"
      "  g_seq = 0; g_total = 0; g_n_tr = 0; g_n_handle = 0; g_attr_ok = 0; g_tr_ret = 0;\n}")
    w("/* pthread_exit never returns: its obligations are checked at the instant the callee is entered */")
    w("void * g_exit_expect;")
    w("void fw_noreturn_check(void) {\n"
      "  __CPROVER_assert(g_total == 1, \"pthread_exit: exactly one callee\");\n"
      "  __CPROVER_assert(g_w ? (g_n_myth_exit_body == 1 && g_n_real_pthread_exit == 0 && g_myth_exit_body_a0 == g_exit_expect)\n"
      "                       : (g_n_real_pthread_exit == 1 && g_n_myth_exit_body == 0 && g_real_pthread_exit_a0 == g_exit_expect),\n"
      "                   \"pthread_exit: myth_exit_body(retval) when redirected, the system's pthread_exit(retval) otherwise\");\n"
      "  VERIF_CANARY();\n}")
    groups = []
    for r in FW:
        if r[0] not in groups:
            groups.append(r[0])
    for g in groups:
        rows = [r for r in FW if r[0] == g]
        w("void h_fw_%s(void) {\n  fw_world();" % g)
        if g == "thread":
            w("  /* call tracing off in this family: enter_wrapped_func(0) (pthread_self, sched_yield, pthread_getconcurrency) passes the int 0\n"
              "     where the tracing code reads a const char * through va_arg -- reported separately, outside the property */\n"
              "  __CPROVER_assume(!(g_env_present[1] && g_env_value[1]));")
        w("  int which = nondet_int();\n  switch (which) {")
        for k, (grp, name, ret, params, body, bret, bparams, opt) in enumerate(rows):
            objs, lines = [], []
            for i, (t, n) in enumerate(params):
                lines.append("    %s = %s;" % (_decl(t, n), _nondet(t, "fw_%s_%d" % (name, i), objs)))
            call = "__wrap_%s(%s)" % (name, ", ".join(n for (t, n) in params))
            w("  case %d: { /* %s -> %s */" % (k, name, body))
            for x in objs:
                w("    " + x)
            for x in lines:
                w(x)
            if opt.get("noreturn"):
                w("    g_exit_expect = %s;" % params[0][1])
                w("    %s;" % call)
                w("    __CPROVER_assert(0, \"%s: does not return\");" % name)
                w("    break; }")
                continue
            if opt.get("barrier_ret"):
                w("    __CPROVER_assume(g_ret_int == 0 || g_ret_int == MYTH_BARRIER_SERIAL_THREAD);   /* contract of myth_barrier_wait_body (C06) */")
            w("    %s r = %s;" % (ret, call))
            conds = ["g_n_%s == 1" % body, "g_n_real_%s == 0" % name, "g_total == 1"]
            w("    if (g_w) {")
            w("      __CPROVER_assert(%s, \"%s: calls exactly %s, once, and nothing else\");" % (" && ".join(conds), name, body))
            argc = ["g_%s_a%d == %s" % (body, i, ex) for i, (bt, ex) in enumerate(bparams) if ex is not None]
            if argc:
                w("      __CPROVER_assert(%s, \"%s: passes the translated arguments\");" % (" && ".join(argc), name))
            tr = opt.get("tr")
            if tr:
                w("      __CPROVER_assert(g_n_tr == 1 && g_tr_p == (const void *)attr && g_attr_ok, \"%s: the attribute object is translated once by %s and the result handed to the body\");" % (name, tr[0]))
            else:
                w("      __CPROVER_assert(g_n_tr == 0, \"%s: no attribute translation\");" % name)
            h = opt.get("handle")
            if h == "must":
                w("      __CPROVER_assert(g_n_handle == 1 && g_handle_arg == mutex && g_handle_seq < g_seq_%s, \"%s: a statically initialised mutex is converted before first use (conversion called once, on this mutex, before the body)\");" % (body, name))
            elif h == "may":
                w("      __CPROVER_assert(g_n_handle == 0 || (g_n_handle == 1 && g_handle_arg == mutex && g_handle_seq < g_seq_%s), \"%s: conversion, if any, on this mutex and before the body\");" % (body, name))
            else:
                w("      __CPROVER_assert(g_n_handle == 0, \"%s: no mutex conversion\");" % name)
            if opt.get("barrier_ret"):
                w("      __CPROVER_assert(r == (g_ret_int == MYTH_BARRIER_SERIAL_THREAD ? PTHREAD_BARRIER_SERIAL_THREAD : 0), \"%s: the serial thread gets PTHREAD_BARRIER_SERIAL_THREAD, everybody else 0\");" % name)
            elif ret != "void":
                w("      __CPROVER_assert(r == (%s)%s, \"%s: returns the body's value\");" % (ret, _RETG[bret], name))
            w("    } else {")
            w("      __CPROVER_assert(g_n_real_%s == 1 && g_n_%s == 0 && g_total == 1 && g_n_tr == 0 && g_n_handle == 0, \"%s (MYTH_WRAP_PTHREAD=0): calls exactly the system function, once, and nothing of MassiveThreads\");" % (name, body, name))
            argc = ["g_real_%s_a%d == %s" % (name, i, n) for i, (t, n) in enumerate(params)]
            if argc:
                w("      __CPROVER_assert(%s, \"%s (MYTH_WRAP_PTHREAD=0): passes its arguments unchanged\");" % (" && ".join(argc), name))
            rg = {"int": "g_ret_int2", "unsigned int": "g_ret_uint2", "void *": "g_ret_ptr2", "pthread_t": "g_ret_ul"}[ret]
            w("      __CPROVER_assert(r == %s, \"%s (MYTH_WRAP_PTHREAD=0): returns the system function's value\");" % (rg, name))
            w("    }")
            w("    VERIF_CANARY();\n    break; }")
        w("  default: __CPROVER_assume(0);\n  }\n}")
    # pass-through family
    w("void h_fw_attrobj(void) {\n  fw_world();\n  int which = nondet_int();\n  switch (which) {")
    for k, (name, params) in enumerate(PASS):
        objs, lines = [], []
        for i, (t, n) in enumerate(params):
            lines.append("    %s = %s;" % (_decl(t, n), _nondet(t, "fw_%s_%d" % (name, i), objs)))
        w("  case %d: { /* %s */" % (k, name))
        for x in objs:
            w("    " + x)
        for x in lines:
            w(x)
        w("    int r = __wrap_%s(%s);" % (name, ", ".join(n for (t, n) in params)))
        w("    __CPROVER_assert(g_n_real_%s == 1 && g_total == 1 && g_n_tr == 0 && g_n_handle == 0, \"%s: attribute objects stay the system's in both modes: exactly the system function, once\");" % (name, name))
        w("    __CPROVER_assert(%s, \"%s: passes its arguments unchanged\");" % (" && ".join("g_real_%s_a%d == %s" % (name, i, n) for i, (t, n) in enumerate(params)), name))
        w("    __CPROVER_assert(r == g_ret_int2, \"%s: returns the system function's value\");" % name)
        w("    VERIF_CANARY();\n    break; }")
    w("  default: __CPROVER_assume(0);\n  }\n}")
    w("/* keep every replaced callee referenced (a mutation that drops a call must fail an obligation, not the tool chain) */")
    for b in sorted(seen):
        w("void * keep_%s = (void *)%s;" % (b, b))
    for t in sorted(seen_tr):
        w("void * keep_%s = (void *)%s;" % (t, t))
    w("void * keep_handle = (void *)myth_handle_PTHREAD_MUTEX_INITIALIZER;")
    return "\n".join(o) + "\n"


def _write_generated():
    here = _os.path.dirname(_os.path.dirname(_os.path.abspath(__file__)))
    path = _os.path.join(here, "contracts", "c16_forward_gen.c")
    txt = generate()
    try:
        if open(path).read() == txt:
            return
    except OSError:
        pass
    tmp = path + ".tmp%d" % _os.getpid()
    open(tmp, "w").write(txt)
    _os.replace(tmp, path)


_write_generated()
FW_REPL = sorted(set("%s:stub_%s" % (r[4], r[4]) for r in FW)) + sorted(set("%s:stub_%s" % (r[7]["tr"][0], r[7]["tr"][0]) for r in FW if r[7].get("tr"))) + [
    "myth_handle_PTHREAD_MUTEX_INITIALIZER:stub_handle", "getenv:verif_getenv", "atoi:verif_atoi"]
FW_GROUPS = []
for _r in FW:
    if _r[0] not in FW_GROUPS:
        FW_GROUPS.append(_r[0])
for _g in FW_GROUPS + ["attrobj"]:
    JOBS.append(Job("c16.forward." + _g, "c16_forward_gen.c", "h_fw_" + _g, defines=LD, replace_calls=FW_REPL, safety=NOCONV,
                    cbmc=["--unwind", "26", "--unwinding-assertions"],
                    fuc=["__wrap_" + r[1] for r in FW if r[0] == _g] if _g != "attrobj" else ["__wrap_" + n for n, _ in PASS], timeout=200))

# ---------------------------------------------------------------------------------------------------------------
# (d) native compile-time lemmas + classification of the wrapper list; consumed by ./check as extra obligations
# (list of dicts name / ok / detail; "undecided" when the tool chain, not the lemma, failed)
def pre(tier):
    import re, subprocess, tempfile, shutil
    import vf
    out = []
    src = _os.path.join(vf.CONTRACTS, "c16_overlay_native.c")
    inc = ["-I" + _os.path.join(vf.REPO, "include"), "-I" + _os.path.join(vf.REPO, "src")]
    names = {1: "myth_mutex_t fits in pthread_mutex_t", 2: "myth_cond_t fits in pthread_cond_t", 3: "myth_barrier_t fits in pthread_barrier_t",
             4: "myth_spinlock_t fits in pthread_spinlock_t", 5: "myth_once_t fits in pthread_once_t", 6: "myth_key_t fits in pthread_key_t",
             7: "myth_thread_t fits in pthread_t", 8: "PTHREAD_ONCE_INIT == myth_once_state_init",
             9: "barrier serial-thread marks are non-zero", 10: "default mutex type is the normal type on both sides"}

    def gcc(n, extra=()):
        try:
            p = subprocess.run(["gcc", "-std=gnu11", "-DLEMMA=%d" % n] + inc + list(extra) + [src], capture_output=True, text=True, timeout=60)
            return p.returncode, (p.stdout + p.stderr)[-400:]
        except Exception as e:
            return None, repr(e)
    rc0, txt0 = gcc(0, ["-fsyntax-only"])
    if rc0 != 0:
        return [dict(name="c16.overlay.native", ok=False, undecided=True, engine="gcc",
                     detail="the lemma file does not compile even without lemmas (headers changed shape?): " + txt0)]
    for n in sorted(names):
        rc, txt = gcc(n, ["-fsyntax-only"])
        if rc is None:
            out.append(dict(name="c16.overlay.native: " + names[n], ok=False, undecided=True, engine="gcc", detail=txt))
        else:
            out.append(dict(name="c16.overlay.native: " + names[n] + (" (size and alignment)" if n <= 7 else "") + " [gcc _Static_assert]", ok=(rc == 0), engine="gcc",
                            detail="gcc _Static_assert on the real headers" if rc == 0 else txt))
    d = tempfile.mkdtemp(prefix="c16_")
    try:
        exe = _os.path.join(d, "ov")
        rc, txt = gcc(100, ["-o", exe])
        if rc != 0:
            out.append(dict(name="c16.overlay.native: static initialisers", ok=False, undecided=True, engine="gcc", detail=txt))
        else:
            p = subprocess.run([exe], capture_output=True, text=True, timeout=20)
            out.append(dict(name="c16.overlay.native: PTHREAD_MUTEX_INITIALIZER reads as 'not converted', PTHREAD_COND_INITIALIZER / PTHREAD_ONCE_INIT as MassiveThreads' initial states",
                            ok=(p.returncode == 0), engine="gcc+run", detail=(p.stdout + p.stderr)[-300:]))
    except Exception as e:
        out.append(dict(name="c16.overlay.native: static initialisers", ok=False, undecided=True, engine="gcc", detail=repr(e)))
    finally:
        shutil.rmtree(d, ignore_errors=True)
    # the preload variant (-DMYTH_WRAP=MYTH_WRAP_DL) is the link-time variant with the prefix __wrap_ removed, token for token:
    # what is proved about __wrap_<name> (LD, the variant goto-cc accepts) holds for <name> (DL)
    d = tempfile.mkdtemp(prefix="c16_")
    try:
        txt = {}
        for v in ("LD", "DL"):
            o = _os.path.join(d, v + ".i")
            cmd = ["gcc", "-E", "-P"] + inc + ["-I" + _os.path.join(vf.REPO, "src", "profiler")] + [f for f in vf.CPPFLAGS if not f.startswith("-DMYTH_WRAP=")] + [
                   "-DMYTH_WRAP=MYTH_WRAP_" + v, _os.path.join(vf.REPO, "src", "myth_wrap_pthread.c"), "-o", o]
            p = subprocess.run(cmd, capture_output=True, text=True, timeout=60)
            if p.returncode != 0:
                raise RuntimeError("gcc -E (%s) failed: %s" % (v, p.stderr[-300:]))
            txt[v] = open(o).read()
        same = txt["LD"].replace("__wrap_", "") == txt["DL"] and "__wrap_" in txt["LD"]
        out.append(dict(name="c16.variants: the preloading build of myth_wrap_pthread.c is the link-time-wrapping build with the prefix __wrap_ removed (gcc -E -P, token for token)",
                        ok=same, engine="gcc -E", detail="identical after removing the prefix" if same else "the two variants differ in more than the entry-point names"))
    except Exception as e:
        out.append(dict(name="c16.variants", ok=False, undecided=True, engine="gcc -E", detail=repr(e)))
    finally:
        shutil.rmtree(d, ignore_errors=True)
    # the wrapper list of the real source against the table the harnesses were generated from
    try:
        text = open(_os.path.join(vf.REPO, "src", "myth_wrap_pthread.c")).read()
        opts = set(re.findall(r"--wrap=(\w+)", open(_os.path.join(vf.REPO, "src", "myth-ld.opts")).read()))
    except OSError as e:
        return out + [dict(name="c16.wrapper_list", ok=False, undecided=True, engine="python", detail=repr(e))]
    found = set(re.findall(r"__wrap\((\w+)\)", text))
    table = set(r[1] for r in FW) | set(n for n, _ in PASS)
    unknown = sorted(found - table - set(OUTSIDE))
    if unknown:
        out.append(dict(name="c16.wrapper_list", ok=False, undecided=True, engine="python",
                        detail="wrappers not classified in units/c16.py (no forwarding obligation generated): " + ", ".join(unknown)))
    gone = sorted(table - found)
    out.append(dict(name="c16.wrapper_list: every entry point of the supported subset has a wrapper in src/myth_wrap_pthread.c", ok=not gone,
                    engine="python", detail="missing: " + ", ".join(gone) if gone else "%d wrappers" % len(table)))
    unl = sorted(table - opts)
    out.append(dict(name="c16.wrapper_list: every entry point of the supported subset is redirected at link time (src/myth-ld.opts has --wrap=<name>)",
                    ok=not unl, engine="python", detail="not redirected by --wrap: " + ", ".join(unl) if unl else "%d --wrap options" % len(table)))
    return out


# Mutation self-test (selftest/C16): conv_plain_store_election, conv_return_without_waiting, conv_publish_before_init,
# conv_elect_while_initializing, attr_custom_data_uninitialised (F2 re-introduced), lock_without_conversion, switch_inverted,
# barrier_serial_untranslated.  Also tried and CAUGHT, not kept (limit of 8): conversion forgets to reset `state`, detach state
# not copied, errorcheck/recursive swapped, pthread_tryjoin_np -> myth_join_body, pthread_cond_timedwait -> myth_cond_wait_body.
# imported call-protocol jobs: the same real functions carry this property's clause in another unit's harness
import importlib as _il
JOBS = list(JOBS) + [j for j in _il.import_module("units.c11").JOBS if "quick" in j.tiers and not j.name.endswith(".forwarders")]
# a pthread entry point behaves like its system counterpart only if the body it forwards to keeps its contract: the jobs
# of the bodies behind the supported subset (create/join/detach, mutex, condition variable, barrier, once) are part of
# this check; the jobs themselves belong to C01, C04, C05, C06, C12, C14, C20 (sleeping) and C02 (yield)
_seen = set(j.name for j in JOBS)
for _u in ("c01", "c04", "c05", "c06", "c12", "c14", "c20", "c02"):
    for _j in _il.import_module("units." + _u).JOBS:
        if _u == "c02" and _j.name not in ("c02.yield", "c02.sched_loop", "c02.default_steal"):
            continue                      # of the run queue unit only the scheduler glue behind sched_yield / pthread_yield
        if "quick" in _j.tiers and not _j.name.endswith(".forwarders") and _j.name not in _seen:
            _seen.add(_j.name)
            JOBS.append(_j)
META = {
 "level": "other",
 "level_text": "Adapter layer only. Contracts on the real text of src/myth_wrap_pthread.c (link-time-wrapping build; the preloading build is "
               "shown token-identical up to the entry-point prefix): attribute translation total and fully initialising; conversion of a "
               "statically initialised mutex under rely/guarantee on the word `magic` (one converter, everybody returns only after "
               "magic == myth_mutex_magic_no, fields initialised before publication, a converted mutex untouched; waiting loop closed by "
               "a loop contract); for each of the 38 mode-switching and 38 attribute-object entry points of the supported subset a "
               "generated forwarding obligation (exactly the corresponding myth_*_body / system function, once, translated arguments, "
               "its return value; both settings of MYTH_WRAP_PTHREAD); native compile-time lemmas for every overlaid type and static "
               "initialiser. POSIX key-destructor semantics at thread exit are encoded (bounded jobs) and FAIL on the pinned tree (E1, E2).",
 "level_note": "Program-level equivalence with the system library (the differential oracle of the property) is NOT decided: glibc has no "
               "specification to check against; what is proved is that the adapter hands every call of the subset to the MassiveThreads "
               "primitive whose contract is the subject of C01/C04-C06/C10/C11/C13/C14/C20, with correctly translated arguments. "
               "dlsym/--wrap symbol resolution (src/myth_real.c) is not analysed. Trusted: cbmc 6.11, gcc, SC interleaving, the stubs listed.",
 "trusted_base": ["cbmc 6.11.0 (goto-cc, goto-instrument --replace-calls / --dfcc with loop contracts, SAT back end)",
                  "gcc (-E of the real sources; native _Static_assert lemmas; one native run for the static initialisers)",
                  "rely/guarantee rule (paper step from the per-function obligations + lemmas to 'exactly one thread converts')",
                  "the forwarding table FW/PASS in units/c16.py (the specification: which body stands for which entry point)"],
 "explanation": "c16_adapter.c: pthread_attr_to_myth / pthread_mutexattr_to_myth / pthread_mutex_type_to_myth / cond+barrier attr translation "
                "against ghost attribute objects (buffer pre-filled with arbitrary bytes); myth_should_wrap_pthread against a ghost environment; "
                "myth_handle_PTHREAD_MUTEX_INITIALIZER with an environment step before its CAS, a loop contract on the waiting loop and a "
                "contract on myth_rwbarrier that requires the completely initialised, still-marked-initializing mutex. c16_forward_gen.c "
                "(generated by units/c16.py): one case per wrapper, bodies and system functions replaced by recording stubs. "
                "c16_keys.c: destructor decision at leaf level + key deletion against POSIX. c16_overlay_native.c + pre(): native lemmas.",
 "assumptions": [
   "build variant: -DMYTH_WRAP=MYTH_WRAP_LD (entry points __wrap_<name>); the MYTH_WRAP_DL build defines the system's own names, which goto-cc cannot "
   "tell from the declarations/models of <pthread.h>; pre() shows the two preprocessed units identical up to the prefix",
   "pthread attribute objects are opaque: their content is a ghost (detach state, stack address/size, mutex type); the system getters "
   "pthread_attr_getdetachstate / pthread_attr_getstack / pthread_mutexattr_gettype are stubs over that ghost that always return 0 (glibc's do)",
   "myth_globalattr_get_stacksize/guardsize/child_first_body are stubs returning ghost defaults (their bodies: C15)",
   "getenv / atoi are stubs over a ghost environment (MYTH_WRAP_PTHREAD, MYTH_TRACE_WRAPPED_FUNC arbitrary); fprintf / vfprintf are body-less",
   "forwarding jobs: every myth_*_body, the four pthread_*attr_to_myth translations and myth_handle_PTHREAD_MUTEX_INITIALIZER are replaced (--replace-calls) "
   "by recording stubs; every real_* function (src/myth_real.c) is a recording stub; what the bodies do is the subject of the other properties",
   "myth_barrier_wait_body returns 0 or MYTH_BARRIER_SERIAL_THREAD (assumed contract, C06): otherwise the wrapper's assert(ret == 0) is reachable",
   "forwarding job 'thread': call tracing (MYTH_TRACE_WRAPPED_FUNC) assumed off, because enter_wrapped_func(0) / leave_wrapped_func(0) pass the int 0 where the "
   "tracing code reads a const char * through va_arg (undefined by the C standard, reads as NULL on x86-64); the other families are checked with tracing on and off",
   "--conversion-check is off in the forwarding jobs: `int ret = myth_sleep_body(s)` / `leave_wrapped_func(\"%d\", ret)` convert unsigned to int and back (modular with gcc)",
   "conversion: sequentially consistent interleaving of atomic steps on `magic`; interference is modelled before the first read (arbitrary initial state), "
   "before the CAS, and at every iteration of the waiting loop; the converter's struct store and final store are its own (nobody else writes a mutex marked initializing)",
   "conversion: an unconverted mutex is not written by anybody except through the election (a program does not use a static mutex before its first lock); "
   "termination of the waiting loop (the converter completes) is liveness and not decided",
   "conversion: the program's pthread_mutex_t storage is modelled as an object of type myth_mutex_t (the adapter casts the pointer at once and never uses the union type)",
   "pthread_mutex_unlock need not convert (an unlock cannot be the first use); pthread_cond_wait/timedwait take an already locked, hence converted, mutex",
   "keys jobs are BOUNDED: leaf index fixed per job (0 and 63); destructor decision at leaf level only (the walk is C11's); "
   "repetition of destructor rounds (PTHREAD_DESTRUCTOR_ITERATIONS) is not modelled",
   "not decided: program-level equivalence with glibc, dlsym/--wrap resolution (myth_real.c), that libmyth-dl.so exports the names, "
   "wrappers outside the supported subset (scheduling, cancellation, signals, affinity, names, robust mutexes: list OUTSIDE in units/c16.py)",
 ],
}
