from vf import Job
TU = "c18_dagrec.c"
EXIT = ["exit/exit_contract"]
ACC_CBMC = ["--unwind", "6", "--unwinding-assertions", "--sat-solver", "cadical"]
ACC_NOTE = "bounded: the closing section/task has at most 4 subgraphs (each possibly a create interval with its created task); summaries arbitrary below 2^58 clocks / 2^40 counts"
JOBS = [
  Job("c18.leaf", TU, "h_leaf", enforce=["dr_end_interval_/end_interval_contract"], replace=EXIT,
      cbmc=["--unwind", "6", "--unwinding-assertions"], fuc=["dr_end_interval_"], timeout=120,
      note="complete: loops bounded by constants of the type (4 interval kinds, 5 edge kinds, 4 counters), fully unwound with unwinding assertions"),
  Job("c18.logical_counts", TU, "h_logical_counts", replace=EXIT,
      cbmc=["--unwind", "6", "--unwinding-assertions"], fuc=["dr_get_logical_node_counts"], timeout=120,
      note="complete: loop bounded by the number of interval kinds (4)"),
  Job("c18.lemma.cp_le_work", TU, "h_lemma_cp_le_work", fuc=[], timeout=120,
      note="arithmetic lemma on the recurrence (all 64-bit values below the stated no-wrap bound); inductive step of 'critical path <= work'"),
  Job("c18.collapse.frame", TU, "h_collapse", enforce=["dr_collapse_subgraph/collapse_contract"],
      replace=EXIT + ["dr_free_dag/free_dag_contract"],
      cbmc=["--unwind", "6", "--unwinding-assertions"], fuc=["dr_collapse_subgraph"], timeout=120),
  Job("c18.summarize.policies", TU, "h_summarize", enforce=["dr_summarize_section_or_task/summarize_contract"],
      replace=EXIT + ["dr_accumulate_stats/accumulate_contract", "dr_collapse_subgraph/collapse_contract",
                      "dr_prune_nodes_norec/prune_contract", "dr_check_node_counts/check_node_counts_contract"],
      cbmc=["--unwind", "12", "--unwinding-assertions"],
      fuc=["dr_summarize_section_or_task", "dr_prune_nodes", "dr_get_logical_node_counts"], timeout=120),
  # dr_accumulate_stats, child list of length <= 4 (bounded).  One job for memory safety / overflow / the frame
  # (assigns s->info only), four jobs for the totals (split only to keep solver time low; same harness, same bound).
  Job("c18.accumulate.frame.bounded", TU, "h_accumulate", kind="bounded", enforce=["dr_accumulate_stats/accumulate_frame_contract"],
      replace=EXIT, cbmc=ACC_CBMC, defines=["-DACC_N=4", "-DACC_PART=9"], fuc=["dr_accumulate_stats"], timeout=200, note=ACC_NOTE),
] + [
  Job("c18.accumulate.%s.bounded" % nm, TU, "h_accumulate", kind="bounded", replace=EXIT, cbmc=ACC_CBMC + ["--no-standard-checks"], safety=[],
      defines=["-DACC_N=4", "-DACC_PART=%d" % part], fuc=["dr_accumulate_stats"], timeout=200, note=ACC_NOTE)
  for part, nm in ((1, "work_cp"), (2, "intervals"), (3, "edges_create_end"), (4, "edges_cont"))
] + [
  Job("c18.free_dag.bounded", TU, "h_free_dag", kind="bounded", enforce=["dr_free_dag/free_dag_frame_contract"],
      replace=EXIT, replace_calls=["malloc:verif_malloc"], cbmc=["--unwind", "12", "--unwinding-assertions"],
      fuc=["dr_free_dag", "dr_dag_node_free", "dr_dag_node_stack_push_children"], timeout=100,
      note="bounded: one concrete DAG of 10 nodes containing every node kind, summaries arbitrary"),
] + [
  Job("c18.prune.s%d.bounded" % k, TU, "h_prune", kind="bounded", enforce=["dr_prune_nodes_norec/prune_frame_contract"],
      replace=EXIT + ["dr_collapse_subgraph/collapse_any_contract"], replace_calls=["malloc:verif_malloc"],
      cbmc=["--unwind", "24", "--unwinding-assertions"], defines=["-DPRUNE_SCEN=%d" % k], fuc=["dr_prune_nodes_norec"], timeout=100,
      note="bounded: one concrete DAG of 10 nodes containing every node kind, concrete scenario %d of 6 (budget, worker sets): %s; summaries arbitrary" % (k, what))
  for k, what in ((1, "within budget"), (2, "root collapsed"), (3, "created task and inner section collapsed"),
                  (4, "created task collapsed"), (5, "already minimum"), (6, "inner section collapsed"))
] + [
  # uncontracted side: real dr_pi_dag_enum_edges (dr_dump.c) + real dr_calc_edges (gen_stat.c) on one concrete dumped DAG
  Job("c18.enum_edges.%s.bounded" % nm, "c18_dump.c", "h_enum_edges", kind="bounded",
      replace_calls=["malloc:verif_malloc_pool", "exit:verif_exit"], cbmc=["--unwind", "16", "--unwinding-assertions", "--sat-solver", "cadical"], defines=["-DENUM_SCEN=%d" % sc],
      fuc=["dr_pi_dag_enum_edges", "dr_pi_dag_count_edges_uncollapsed", "dr_pi_dag_node_first", "dr_pi_dag_node_last", "dr_calc_edges", "dr_calc_inner_delay"], timeout=600,
      note="bounded: one concrete dumped DAG of 14 nodes (child lists <= 4, every node kind), contraction state: %s; summaries of the created tasks and the resume kinds after the waits arbitrary" % what)
  for sc, nm, what in ((0, "materialised", "nothing contracted"), (1, "contracted_a", "section A (two creates) contracted"),
                       (2, "contracted_b", "section B (one create) contracted"), (3, "contracted_ab", "both sections contracted"))
] + [
  # recording side: the open-section stack of a task (c18_sections.c); nesting depth symbolic (one-level-down memory)
  Job("c18.sections.%s" % nm, "c18_sections.c", h, replace_calls=["exit:verif_exit"], cbmc=["--unwind", "6", "--unwinding-assertions"],
      fuc=f, timeout=120, note="complete: nesting depth symbolic (active node = task, or a section whose parent is the task or an enclosing section); "
      "loops bounded by constants of the type (counters, interval / edge kinds)")
  for nm, h, f in (("queries", "h_queries", ["dr_task_active_node", "dr_task_last_node"]),
                   ("begin", "h_begin_section", ["dr_begin_section__", "dr_push_back_section", "dr_dag_node_init_section_or_task", "dr_dag_node_list_push_back", "dr_dag_node_alloc"]),
                   ("ensure", "h_ensure_section", ["dr_task_ensure_section", "dr_push_back_section"]),
                   ("enter_wait", "h_enter_wait", ["dr_enter_wait_tasks__", "dr_task_ensure_section", "dr_end_interval_"]),
                   ("enter_create", "h_enter_create", ["dr_enter_create_task__", "dr_task_ensure_section"]),
                   ("return_from_create", "h_return_from_create", ["dr_return_from_create_task__", "dr_task_last_node"]),
                   ("start_task", "h_start_task", ["dr_start_task__", "dr_mk_dag_node_task"]),
                   ("enter_other", "h_enter_other", ["dr_enter_other__", "dr_task_active_node", "dr_end_interval_"]),
                   ("return_from_other", "h_return_from_other", ["dr_return_from_other__", "dr_task_last_node"]),
                   ("enter_create_cilk", "h_enter_create_cilk", ["dr_enter_create_cilk_proc_task__", "dr_enter_create_task__"]),
                   ("start_cilk_proc", "h_start_cilk_proc", ["dr_start_cilk_proc__", "dr_start_task__"]))
] + [
  Job("c18.sections.return_from_wait.bounded", "c18_sections.c", "h_return_from_wait", kind="bounded",
      replace=EXIT + ["dr_summarize_section_or_task/summarize_named_contract"], cbmc=["--unwind", "6", "--unwinding-assertions"],
      fuc=["dr_return_from_wait_tasks__", "dr_task_last_node"], timeout=120,
      note="bounded: the closed section holds at most one create interval before its wait (the loop over its children); nesting depth symbolic"),
  Job("c18.sections.end_task", "c18_sections.c", "h_end_task",
      replace=EXIT + ["dr_summarize_section_or_task/summarize_named_contract"], cbmc=["--unwind", "6", "--unwinding-assertions"],
      fuc=["dr_end_task__"], timeout=120, note="complete: loop-free apart from constant-bounded loops"),
]
META = {
 "level": "other",
 "level_text": "Proved for all inputs (contracts on the real bodies): a leaf interval's summary is (end - start, end - start, one node of its kind, no edges); "
               "dr_collapse_subgraph assigns only cur_node_count, the emptied child list and the free list; for EVERY setting of node_count_target / "
               "prune_threshold / collapse_max_count / uncollapse_min / collapse_max, dr_summarize_section_or_task leaves exactly the totals "
               "dr_accumulate_stats computed; the recurrence step of 'critical path <= work' (arithmetic lemma, any list length). "
               "Bounded (NOT counted as proved): dr_accumulate_stats computes the totals the property names from the children's summaries only, "
               "for child lists of length <= 4; dr_free_dag and dr_prune_nodes_norec write no summary, on one concrete 10-node DAG "
               "(six budget / worker-set scenarios for prune); the edges by kind that dr_pi_dag_enum_edges (dr_dump.c) materialises plus the "
               "summaries dr_calc_edges (gen_stat.c) adds for contracted nodes equal the root summary of the accumulate rules, on one concrete "
               "dumped DAG of 14 nodes in four contraction states. Recording side (proved, nesting depth symbolic): begin_section / ensure_section push the new "
               "section as last subgraph of the active node with that node as parent; enter_wait appends the wait interval to the innermost open section "
               "and pops exactly one level; end_task / return_from_wait (bounded: <= 1 create in the closed section) summarise exactly the closed node; enter_other appends to the active node "
               "(task or innermost section) without opening a section; the Cilk slot wss->parent is set by enter_create_cilk_proc_task and emptied by "
               "start_cilk_proc, which starts exactly one child (slot full, returns 1) or nothing (slot empty, returns 0).",
 "level_note": "The step from (summary = function of the children's summaries) + (no contraction writes a summary) to 'root totals are independent "
               "of contraction' is an induction on the task tree done on paper. Not decided: which worker ran what, clock behaviour, the text of the "
               ".stat file, the gen_stat.c cross-check work == root t_1, hooks. Trusted: cbmc 6.11 (dfcc), gcc -E.",
 "trusted_base": ["cbmc 6.11.0 (goto-cc, goto-instrument --dfcc, SAT back ends MiniSat / CaDiCaL)", "gcc -E preprocessing of the real sources",
                  "paper induction on the task tree (per-node obligations -> whole-DAG statement)"],
 "explanation": "contracts/c18_dagrec.c includes the real dag_recorder.c (and through it dag_recorder_inl.h). Leaf: --enforce-contract on dr_end_interval_. "
                "Frame of contraction: --enforce-contract on dr_collapse_subgraph (dr_free_dag by contract) and on dr_summarize_section_or_task with "
                "accumulate / collapse / prune replaced by their contracts and all options nondeterministic; the totals are ghost values that accumulate's "
                "contract leaves in the node and summarize's postcondition demands back. Accumulate: an oracle in the harness computes work (sum), critical "
                "path (longest dependency chain), interval counts and edge counts (as dr_dump.c materialises them) from the children's summaries and the "
                "real body must agree, for all well-nested child lists of length <= 4.",
 "assumptions": [
   "BOUND (kind=bounded): dr_accumulate_stats is checked for child lists of length <= 4 (ACC_N), each child possibly a create interval with its created task; well-nested lists only: section ::= (create|section|other)* wait, task ::= (section|other)* end",
   "BOUND: per-summary clocks < 2^58 and node/edge counts < 2^40, PAPI counters in [0, 2^58): the recorder's 64-bit sums do not wrap (dr_clock_t is unsigned, wrap-around would be silent)",
   "BOUND (kind=bounded): dr_free_dag and dr_prune_nodes_norec run on ONE concrete DAG of 10 nodes that contains every node kind (section -> create->task{other,end}, section{other,wait}, other, wait) with arbitrary summaries; prune in six concrete (budget, single-worker set) scenarios covering: within budget, root collapsed, both inner nodes collapsed, each inner node alone, already minimum. With symbolic budget/worker sets CBMC's symbolic execution did not finish",
   "BOUND (kind=bounded): the uncontracted side (c18_dump.c: real dr_pi_dag_enum_edges + helpers of dr_dump.c, real dr_calc_edges of gen_stat.c) runs on ONE concrete position-independent DAG of 14 nodes (root task -> section{create,other,create,wait}, other, section{create,wait}, end; three contracted created tasks with arbitrary edge summaries < 2^40) in the four contraction states of the two sections; resume kind after each wait (wait_cont / end) nondeterministic; one worker, all nodes on worker 0 (the per-worker attribution of edges is not decided); the expected counts come from the accumulate oracle (property statement), not from the code",
   "STUB (enum_edges jobs): malloc serves the edge array (<= 24 edges) and the counter array (one worker) from two static typed pools, exit() is a stub whose reachability is an obligation failure (no contract instrumentation in these jobs); the node array T is built by the harness in the layout dr_pi_dag_enum_nodes produces (relative offsets), dr_pi_dag_enum_nodes / dr_copy_* themselves are not under contract",
   "Recording side (c18_sections.c): one-level-down memory of the open-section stack -- active node = the task, or a section SA whose parent is the task or an enclosing section SP whose parent is the task or a further section SG; SG's own parent is never read by the functions under contract, so the nesting depth is symbolic. The active node's subgraph list is empty or ends in one finished subgraph (length 1 or arbitrary). Fresh nodes come from a three-node free list through the REAL dr_dag_node_alloc (the page-allocation path of an empty free list is not exercised)",
   "Recording side: worker-specific state is the fixed-array variant with one worker (worker 0); papi_on = 0 (dr_papi_read is external), hooks NULL, verbose/dbg 0, generation odd (profiling on); inline-asm rdtsc is dropped by CBMC (clock reads are arbitrary values); dr_summarize_section_or_task is used through a contract whose precondition names the node that must be summarised (its own behaviour: jobs c18.summarize.* / c18.accumulate.*)",
   "BOUND (kind=bounded): c18.sections.return_from_wait -- the section closed by the wait holds at most one create interval before the wait interval (the loop over its children); end_task assumes well nesting (no section open when the task ends)",
   "ASSUMED CONTRACT: dr_free_dag(g, 0, fl) assigns only g's child list and the free-list head/tail (used by the collapse proof); the `next` links it writes into the freed descendants are not modelled (dead nodes). Its frame is checked on the real body only in the bounded job",
   "ASSUMED CONTRACT: dr_prune_nodes_norec, as seen by summarize, assigns only the root's cur_node_count / child list, the free list and the prune stack; cur_node_count and emptied lists of DESCENDANTS are not modelled there (bounded job checks the real body)",
   "ASSUMED CONTRACT: the debug walker dr_check_node_counts (evaluated only when chk_level != 0) is read-only and returns cur_node_count; in the prune jobs chk_level = 0",
   "In the prune jobs dr_collapse_subgraph is used through its contract (proved for an arbitrary node in c18.collapse.frame, instantiated at the three inner nodes)",
   "STUB: exit() by a contract with requires(false): a reachable dr_check failure is an obligation; fprintf/printf body-less; verbose_level = dbg_level = 0 (diagnostic printing off); chk_level and record_cpu nondeterministic",
   "STUB: sched_getcpu returns any int; inline asm rdtsc dropped by CBMC (clock values are harness inputs, any 64-bit value)",
   "STUB (bounded free_dag/prune jobs): malloc returns a fresh 64-byte object for requests <= 64 bytes (objects of symbolic size exhaust CBMC's memory); larger requests fail an obligation",
   "Leaf: end_t - start.t is the interval length modulo 2^64 (no assumption that the clock is monotone); start.worker == worker is assumed ('by construction' in the source)",
   "summarize job: dr_accumulate_stats is replaced by a contract that leaves arbitrary ghost totals in s->info and touches nothing else (frame proved bounded); the job proves that no policy changes them afterwards and that contraction happens only after accumulation",
   "CBMC does not check the bound of an array that is a struct member reached through a pointer: the out-of-range index logical_node_counts[s->info.kind] (kind = 4/5, array of 4) in dr_accumulate_stats is NOT an obligation (it stays inside the node; the clobbered edge counters are zeroed by the next loop) -- reported as an observation",
   "Not decided: assignment of tasks to workers (info.worker / min_node_count only steer WHETHER a node is contracted), hooks, t_ready / est / counters_* summaries, the rest of dr_dump.c / gen_stat.c (node enumeration, string table, file round trip: C19; chronological.c; the text of the report), the public dr_*__ entry points' list bookkeeping",
 ],
}
