from vf import Job
TU = "c18_dagrec.c"
EXIT = ["exit/exit_contract"]
ACC_CBMC = ["--unwind", "6", "--unwinding-assertions", "--sat-solver", "cadical"]
ACC_NOTE = "bounded: the closing section/task has at most 4 subgraphs (each possibly a create interval with its created task); summaries arbitrary below 2^58 clocks / 2^40 counts"
JOBS = [
  Job("c18.leaf", TU, "h_leaf", enforce=["dr_end_interval_/end_interval_contract"], replace=EXIT,
      cbmc=["--unwind", "6", "--unwinding-assertions"], fuc=["dr_end_interval_"], timeout=120),
  Job("c18.logical_counts", TU, "h_logical_counts", replace=EXIT,
      cbmc=["--unwind", "6", "--unwinding-assertions"], fuc=["dr_get_logical_node_counts"], timeout=120),
  Job("c18.lemma.cp_le_work", TU, "h_lemma_cp_le_work", fuc=[], timeout=120,
      note="arithmetic lemma on the recurrence (all 64-bit values below the stated no-wrap bound); inductive step of 'critical path <= work'"),
  Job("c18.collapse.frame", TU, "h_collapse", enforce=["dr_collapse_subgraph/collapse_contract"],
      replace=EXIT + ["dr_free_dag/free_dag_contract"],
      cbmc=["--unwind", "6", "--unwinding-assertions"], fuc=["dr_collapse_subgraph"], timeout=120),
  Job("c18.summarize.policies", TU, "h_summarize", enforce=["dr_summarize_section_or_task/summarize_contract"],
      replace=EXIT + ["dr_accumulate_stats/accumulate_contract", "dr_collapse_subgraph/collapse_contract",
                      "dr_prune_nodes_norec/prune_contract", "dr_check_node_counts/check_node_counts_contract"],
      cbmc=["--unwind", "12", "--unwinding-assertions"],
      fuc=["dr_summarize_section_or_task", "dr_prune_nodes", "dr_get_logical_node_counts"], timeout=120),
  # dr_accumulate_stats, child list of length <= 4 (bounded).  One job for memory safety / overflow / the frame
  # (assigns s->info only), four jobs for the totals (split only to keep solver time low; same harness, same bound).
  Job("c18.accumulate.frame.bounded", TU, "h_accumulate", kind="bounded", enforce=["dr_accumulate_stats/accumulate_frame_contract"],
      replace=EXIT, cbmc=ACC_CBMC, defines=["-DACC_N=4", "-DACC_PART=9"], fuc=["dr_accumulate_stats"], timeout=200, note=ACC_NOTE),
] + [
  Job("c18.accumulate.%s.bounded" % nm, TU, "h_accumulate", kind="bounded", replace=EXIT, cbmc=ACC_CBMC + ["--no-standard-checks"], safety=[],
      defines=["-DACC_N=4", "-DACC_PART=%d" % part], fuc=["dr_accumulate_stats"], timeout=200, note=ACC_NOTE)
  for part, nm in ((1, "work_cp"), (2, "intervals"), (3, "edges_create_end"), (4, "edges_cont"))
] + [
  Job("c18.free_dag.bounded", TU, "h_free_dag", kind="bounded", enforce=["dr_free_dag/free_dag_frame_contract"],
      replace=EXIT, replace_calls=["malloc:verif_malloc"], cbmc=["--unwind", "12", "--unwinding-assertions"],
      fuc=["dr_free_dag", "dr_dag_node_free", "dr_dag_node_stack_push_children"], timeout=100,
      note="bounded: one concrete DAG of 10 nodes containing every node kind, summaries arbitrary"),
] + [
  Job("c18.prune.s%d.bounded" % k, TU, "h_prune", kind="bounded", enforce=["dr_prune_nodes_norec/prune_frame_contract"],
      replace=EXIT + ["dr_collapse_subgraph/collapse_any_contract"], replace_calls=["malloc:verif_malloc"],
      cbmc=["--unwind", "24", "--unwinding-assertions"], defines=["-DPRUNE_SCEN=%d" % k], fuc=["dr_prune_nodes_norec"], timeout=100,
      note="bounded: one concrete DAG of 10 nodes containing every node kind, concrete scenario %d of 6 (budget, worker sets): %s; summaries arbitrary" % (k, what))
  for k, what in ((1, "within budget"), (2, "root collapsed"), (3, "created task and inner section collapsed"),
                  (4, "created task collapsed"), (5, "already minimum"), (6, "inner section collapsed"))
]
META = {"level": "other", "level_text": "", "level_note": "", "trusted_base": [], "explanation": "", "assumptions": []}
