from vf import Job
TU1 = "c15_cpulist.c"
NOCTYPE = ["-D__NO_CTYPE"]
# string/stream/list facts, written without macros (the loop-contract file is not preprocessed)
CS_INV = "cs->a == g_S && 0 <= cs->ok_pos && cs->ok_pos <= cs->i && cs->i <= g_len"
IL_INV = "il->a == g_A && il->n == g_n && 0 <= il->i && il->i <= il->n"
DIG = lambda e: "(48 <= %s && %s <= 57)" % (e, e)
ALPHA = lambda e: "((48 <= %s && %s <= 57) || %s == 44 || %s == 45 || %s == 58)" % (e, e, e, e, e)
L_INT = {"parse_int": [dict(loop_id="0", assigns="cs->i, x, n_digits",
    invariants=CS_INV + " && __CPROVER_loop_entry(cs->i) <= cs->i && n_digits == cs->i - __CPROVER_loop_entry(cs->i)"
               " && ((__CPROVER_loop_entry(cs->i) <= g_k && g_k < cs->i) ==> " + DIG("g_S[g_k]") + ")"
               " && (cs->i > __CPROVER_loop_entry(cs->i) ==> (" + DIG("g_S[__CPROVER_loop_entry(cs->i)]") + " && " + DIG("g_S[cs->i - 1]") + "))",
    decreases="g_len - cs->i",
    symbol_map="cs,parse_int::cs;x,parse_int::1::x;n_digits,parse_int::1::n_digits")]}
L_ERR = {"parse_error": [
    dict(loop_id="0", assigns="i", invariants="0 <= i && i <= 2 + cs->ok_pos", decreases="2 + cs->ok_pos - i",
         symbol_map="cs,parse_error::cs;i,parse_error::1::i"),
    dict(loop_id="1", assigns="i", invariants="2 + cs->ok_pos <= i && i <= 2 + cs->i", decreases="2 + cs->i - i",
         symbol_map="cs,parse_error::cs;i,parse_error::1::i")]}
# values: only for numbers that fit (no int overflow in a+1 / x+c): a >= 0, c >= 0, b + c <= INT_MAX
G = "(0 <= a && 0 <= c && b <= 2147483647 - c)"
L_RANGE = {"parse_range": [dict(loop_id="0", assigns="x, il->i, __CPROVER_object_upto(g_A, g_n * 4)",
    invariants=IL_INV + " && __CPROVER_loop_entry(il->i) <= il->i"
               " && (g_w < __CPROVER_loop_entry(il->i) ==> g_A[g_w] == __CPROVER_loop_entry(g_A[g_w]))"
               # documented meaning (docs/bind.txt): A-B:C appends A, A+C, A+2C, ... < B, in this order, nothing else
               " && (" + G + " ==> (a <= x && (il->i == __CPROVER_loop_entry(il->i) ==> x == a)))"
               " && ((" + G + " && il->i > __CPROVER_loop_entry(il->i)) ==> (g_A[__CPROVER_loop_entry(il->i)] == a && g_A[il->i - 1] == x - c && x - c < b))"
               " && ((" + G + " && __CPROVER_loop_entry(il->i) <= g_w && g_w < il->i) ==> (a <= g_A[g_w] && g_A[g_w] < b))"
               " && ((" + G + " && __CPROVER_loop_entry(il->i) < g_w && g_w < il->i) ==> g_A[g_w] - c == g_A[g_w - 1])",
    decreases="il->n - il->i",
    symbol_map="cs,parse_range::cs;il,parse_range::il;x,parse_range::1::x;a,parse_range::1::a;b,parse_range::1::b;c,parse_range::1::c")]}
L_LIST = {"parse_range_list": [dict(loop_id="0", assigns="cs->i, cs->ok_pos, g_diag, il->i, __CPROVER_object_upto(g_A, g_n * 4)",
    invariants=CS_INV + " && cs->ok_pos == cs->i && " + IL_INV +
               " && 0 <= g_i0 && g_i0 < cs->i && g_li0 <= il->i && g_diag == __CPROVER_loop_entry(g_diag)"
               " && " + DIG("g_S[g_i0]") + " && " + DIG("g_S[cs->i - 1]") +
               " && (g_w < g_li0 ==> g_A[g_w] == __CPROVER_loop_entry(g_A[g_w]))"
               " && ((g_i0 <= g_k && g_k < cs->i) ==> " + ALPHA("g_S[g_k]") + ")",
    decreases="g_len - cs->i",
    symbol_map="cs,parse_range_list::cs;il,parse_range_list::il")]}
NS = "(n_specified_cpus <= 1024 && 0 <= i && (i <= n_specified_cpus || n_specified_cpus < 0))"
L_AVAIL = {"myth_get_available_cpus": [
    dict(loop_id="0", assigns="i, __CPROVER_object_whole(myth_cpu_list)",
         invariants=NS + " && ((0 <= g_c && g_c < i) ==> myth_cpu_list[g_c] == g_c)", decreases="n_specified_cpus - i",
         symbol_map="i,myth_get_available_cpus::1::i;n_specified_cpus,myth_get_available_cpus::1::n_specified_cpus"),
    dict(loop_id="1", assigns="i, n_available_cpus, __CPROVER_object_whole(worker_cpu)",
         invariants=NS + " && 0 <= n_available_cpus && n_available_cpus <= i"
                    " && ((0 <= g_c && g_c < i && g_c_in == 1 && g_c < n_specified_cpus && myth_cpu_list[g_c] == g_c) ==> n_available_cpus >= 1)",
         decreases="n_specified_cpus - i",
         symbol_map="i,myth_get_available_cpus::1::i;n_specified_cpus,myth_get_available_cpus::1::n_specified_cpus")]}
# without --conversion-check: (size_t)myth_cpu_list[i] inside glibc's CPU_ISSET is a defined conversion whose result the macro range-checks
NOCONV = ["--bounds-check", "--pointer-check", "--signed-overflow-check", "--undefined-shift-check", "--div-by-zero-check"]
TU2 = "c15_attr.c"
ENVSTUBS = ["getenv:verif_getenv", "atoi:verif_atoi", "myth_get_n_available_cpus:verif_ncpus"]
UNW = ["--unwind", "24", "--unwinding-assertions"]
TU3 = "c15_init.c"
W_INV = ("(0 <= g_W && g_W <= 2 && (g_i_init == 0 || g_i_init == 1) && (g_env_init == 0 || g_env_init == 1) && g_i_init + g_env_init <= 1"
         " && ((g_W == 1) == (g_i_init + g_env_init == 1)))")
L_WAIT = {"myth_init_once_ctl_wait": [dict(loop_id="0", assigns="g_myth_init_state, g_W, g_env_init",
    invariants="var == &g_myth_init_state && g_myth_init_state == g_W && g_i_init == 0 && " + W_INV,
    symbol_map="var,myth_init_once_ctl_wait::var")]}
FLAGS = "g_did_cpus == 1 && g_did_flmalloc == 1 && g_did_tls == 1 && g_did_barrier == 1 && g_did_envs == 1 && g_did_key == 1"
L_REALLY = {"myth_init_ex_body_really": [dict(loop_id="0", assigns="i, g_created",
    invariants="1 <= i && i <= nw && nw == g_nw && g_created == i - 1 && g_envs == g_pool && g_envs_sz == g_nw && g_main_started == 0 && " + FLAGS,
    decreases="nw - i",
    symbol_map="i,myth_init_ex_body_really::1::i;nw,myth_init_ex_body_really::1::nw")]}
L_FINI = dict(L_WAIT)
L_FINI["myth_fini_body"] = [
    dict(loop_id="0", assigns="i", invariants="0 <= i && i <= g_nw && g_attr.n_workers == g_nw", decreases="g_nw - i",
         symbol_map="i,myth_fini_body::1::i"),
    dict(loop_id="1", assigns="i, g_joined", invariants="1 <= i && i <= g_nw && g_attr.n_workers == g_nw && g_joined == i - 1 && g_envs == g_pool",
         decreases="g_nw - i", symbol_map="i,myth_fini_body::1::i")]
# descriptor pool: malloc'ed, any worker count up to 2^20 (jobs that do not havoc the pool); otherwise a static array
BIGPOOL = ["-DPOOL_MALLOC=1", "-DNW_MAX=1048576"]
ENV3 = ["myth_verif_env_step/myth_verif_env_step", "real_sched_yield/yield_contract"]
STDIO = ["fputc/fputc_contract"]
JOBS = [
  Job("c15.cpulist.add", TU1, "h_int_list_add", enforce=["int_list_add/int_list_add_contract"], defines=NOCTYPE,
      fuc=["int_list_add"], timeout=120),
  Job("c15.cpulist.error", TU1, "h_parse_error", loops=L_ERR, loop_counts={"parse_error": 2}, replace=STDIO, defines=NOCTYPE,
      fuc=["parse_error"], timeout=120),
  Job("c15.cpulist.int", TU1, "h_parse_int", enforce=["parse_int/parse_int_contract"], loops=L_INT, loop_counts={"parse_int": 1},
      replace=["parse_error/parse_error_contract"], defines=NOCTYPE, fuc=["parse_int", "next_char", "cur_char"], timeout=120),
  Job("c15.cpulist.range", TU1, "h_parse_range", enforce=["parse_range/parse_range_contract"], loops=L_RANGE, loop_counts={"parse_range": 1},
      replace=["parse_error/parse_error_contract", "parse_int/parse_int_contract"], defines=NOCTYPE,
      fuc=["parse_range", "int_list_add", "next_char", "cur_char"], timeout=120),
  Job("c15.cpulist.list", TU1, "h_parse_range_list", enforce=["parse_range_list/parse_range_list_contract"], loops=L_LIST,
      loop_counts={"parse_range_list": 1},
      replace=["parse_error/parse_error_contract", "parse_range/parse_range_contract"], defines=NOCTYPE,
      fuc=["parse_range_list", "next_char", "cur_char", "set_ok_pos"], timeout=120),
  Job("c15.cpulist.entry", TU1, "h_parse_cpu_list", enforce=["myth_parse_cpu_list/myth_parse_cpu_list_contract"],
      replace=["parse_range_list/parse_range_list_contract", "getenv/getenv_contract"], defines=NOCTYPE,
      fuc=["myth_parse_cpu_list", "init_char_stream", "init_int_list"], timeout=120),
  Job("c15.cpulist.consumer", TU1, "h_get_available_cpus", loops=L_AVAIL, loop_counts={"myth_get_available_cpus": 2},
      replace=["myth_parse_cpu_list/pcl_for_caller_contract", "sysconf/sysconf_contract", "sched_getaffinity/sched_getaffinity_contract", "getpid/getpid_contract"],
      safety=NOCONV, defines=NOCTYPE, fuc=["myth_get_available_cpus", "myth_get_n_available_cpus", "myth_get_worker_cpu"], timeout=120),
  Job("c15.cpulist.bind", TU1, "h_bind_worker",
      replace=["real_pthread_setaffinity_np/setaffinity_contract", "real_pthread_self/pthread_self_contract",
               "myth_get_worker_cpu/get_worker_cpu_contract"],
      defines=NOCTYPE, fuc=["myth_bind_worker"], timeout=120),
  # ---- part 2: environment defaults of the global attributes (src/myth_init_func.h)
] + [
  Job("c15.attr." + n, TU2, h, replace_calls=ENVSTUBS, cbmc=UNW, fuc=f, timeout=120, safety=sf,
      note="complete: the only loops are in the harness stubs (name comparison over literals <= 19 chars, 6 variables), fully unwound with unwinding assertions")
  for (n, h, f, sf) in [
    ("stacksize", "h_default_stacksize", ["myth_globalattr_default_stacksize"], None),
    ("guardsize", "h_default_guardsize", ["myth_globalattr_default_guardsize"], None),
    ("workers", "h_default_num_workers", ["myth_globalattr_default_num_workers"], None),
    ("flags", "h_default_flags", ["myth_globalattr_default_bind_workers", "myth_globalattr_default_child_first"], NOCONV),
    ("init", "h_attr_init", ["myth_globalattr_init_body"], NOCONV),
    ("setget", "h_attr_set_get", ["myth_globalattr_set_stacksize_body", "myth_globalattr_get_stacksize_body",
        "myth_globalattr_set_guardsize_body", "myth_globalattr_get_guardsize_body", "myth_globalattr_set_n_workers_body",
        "myth_globalattr_get_n_workers_body", "myth_globalattr_set_bind_workers_body", "myth_globalattr_get_bind_workers_body",
        "myth_globalattr_set_child_first_body", "myth_globalattr_get_child_first_body"], NOCONV),
  ]
] + [
  # ---- part 3: init-once state machine, worker creation, finalisation, worker index (src/myth_init.c, myth_worker_func.h)
  Job("c15.init.once", TU3, "h_init_once", loops=L_WAIT, loop_counts={"myth_init_once_ctl_wait": 1},
      replace=ENV3 + ["myth_init_ex_body_really/really_contract"],
      fuc=["myth_init_ex_body", "myth_ensure_init_ex", "myth_ensure_init", "myth_init_once_ctl_try_set", "myth_init_once_ctl_wait"], timeout=200),
  Job("c15.init.really", TU3, "h_really", loops=L_REALLY, loop_counts={"myth_init_ex_body_really": 1},
      replace=["myth_get_available_cpus/get_available_cpus_contract", "myth_globalattr_init_body/globalattr_init_contract",
               "myth_flmalloc_init/flmalloc_init_contract", "myth_tls_init/tls_init_contract",
               "myth_internal_barrier_init/barrier_init_contract", "myth_malloc/malloc_contract",
               "myth_worker_key_init/worker_key_init_contract", "real_pthread_create/pthread_create_contract",
               "real_pthread_self/pthread_self_contract", "myth_worker_thread_fn/worker_thread_fn_contract"],
      defines=["-DNW_MAX=1024"], fuc=["myth_init_ex_body_really"], timeout=200,
      note="worker counts 1..1024 (static descriptor array; the property excludes thousands of workers); the creation loop is closed by a loop contract"),
  Job("c15.fini.body", TU3, "h_fini", loops=L_FINI, loop_counts={"myth_init_once_ctl_wait": 1, "myth_fini_body": 2},
      replace=ENV3 + ["myth_startpoint_exit_ex_body/exit_ex_contract", "real_pthread_join/pthread_join_contract",
                      "myth_fini_body_really/fini_really_contract"],
      defines=BIGPOOL, fuc=["myth_fini_body", "myth_init_once_ctl_wait", "myth_get_current_env"], timeout=200),
  Job("c15.fini.exit.bounded", TU3, "h_exit_ex", kind="bounded",
      replace=["verif_ctx_save/ctx_save_contract", "verif_suspend_resume/suspend_resume_contract", "myth_queue_trypass/trypass_contract",
               "myth_random/random_contract", "myth_cleanup_worker/cleanup_worker_contract"],
      cbmc=["--unwind", "4", "--unwindset", "myth_notify_workers_exit.0:4", "--unwindset", "setup_migration.0:4", "--unwinding-assertions"],
      defines=["-DMAX_REFUSALS=2", "-DNW_MAX=3"],
      fuc=["myth_startpoint_exit_ex_body", "myth_startpoint_exit_ex_1", "myth_notify_workers_exit", "myth_env_get_randomly",
           "myth_get_current_env"], timeout=600,
      note="bounded: 1..3 workers (static descriptor array), the main thread on any of them, at most 2 refused hand-overs of the main thread "
           "(hence at most 3 migration hops), all loops unwound with unwinding assertions; loop contracts would havoc descriptor pointers "
           "that are dereferenced afterwards, which CBMC's symbolic execution does not survive"),
] + [
  Job("c15.worker_start", TU3, "h_worker_start", defines=["-DNW_MAX=4"],
      replace=["myth_sched_loop/ws_sched_loop_contract"], replace_calls=["myth_setup_worker:verif_ws_setup", "myth_cleanup_worker:verif_ws_cleanup"],
      fuc=["myth_worker_start_ex_body"], timeout=200,
      note="a worker of rank > 0 (rank 1 of 2: the body does not depend on the rank): set-up, loop, clean-up once each in order, and no scheduler stack recorded when the clean-up (which frees it) is reached"),
] + [
  Job("c15.setup_worker.rank%d.bounded" % rk, TU3, "h_setup_worker", kind="bounded", defines=["-DNW_MAX=4", "-DSETUP_RANK=%d" % rk],
      replace=["myth_flmalloc_init_worker/flmalloc_init_worker_contract", "real_pthread_setspecific/setspecific_contract", "time/time_contract",
               "myth_queue_init/queue_init_contract", "myth_queue_clear/queue_clear_contract",
               "myth_internal_barrier_wait/barrier_wait_contract", "sigemptyset/sigemptyset_contract", "sigaddset/sigaddset_contract",
               "real_pthread_sigmask/sigmask_contract", "sigaction/sigaction_contract"],
      fuc=["myth_setup_worker", "myth_set_current_env", "myth_get_current_env", "myth_set_worker_key", "myth_random_init", "myth_freelist_init"], timeout=200,
      note="bounded: rank %d of a 4-descriptor pool (constant index; a symbolic index into the 2560-byte descriptors does not go through the solver); "
           "the body treats ranks uniformly except for the rank != 0 signal-mask branch" % rk)
  for rk in (0, 1, 3)
] + [
  Job("c15.worker_num", TU3, "h_worker_num", replace=ENV3 + ["myth_init_ex_body_really/really_contract"],
      loops=L_WAIT, loop_counts={"myth_init_once_ctl_wait": 1},
      defines=BIGPOOL, fuc=["myth_get_worker_num_body", "myth_get_num_workers_body", "myth_get_current_env", "myth_ensure_init"], timeout=200),
]
# Mutations in selftest/C15 (all must be CAUGHT).  NOTE: while F5a/F5b are unrepaired in /repo every mutation is trivially
# "caught" by those two findings; each patch was therefore also run against a scratch copy with F5a/F5b repaired
# (assert on '\\0' instead of '\\n'; `int sz`), where each produces NEW failed obligations of its own:
#   cpulist_add_off_by_one        -> int_list_add assigns/bounds + "cell behind the capacity untouched"
#   cpulist_malformed_not_rejected-> myth_parse_cpu_list_contract.postcondition (a list is returned only without diagnostic)
#   cpulist_parse_int_no_advance  -> parse_int loop_decreases (hang on a digit)
#   workers_zero_accepted         -> default workers >= 1 / spec
#   init_election_not_atomic      -> really_contract.precondition (caller not elected by a CAS), once-obligations
#   init_loser_does_not_wait      -> "returns only when the state is initialized"
#   fini_state_not_reset          -> "state is uninit again"
#   fini_join_skips_last_worker   -> fini_really_contract.precondition (release before all workers joined), join count
# Tried and also caught on the repaired copy (not kept, limit of 8): stride ignored (x += 1), junk accepted, publication before the
# real initialisation, nw threads created, g_envs_sz off by one, explicit attributes ignored, -1 from the parser not reset,
# exit flags not raised for worker 0, no migration back to worker 0, exit flag not cleared by myth_setup_worker.
# the public API functions are one-line forwarders to the bodies under contract: checked mechanically (DESIGN 3.5b)
from units.common_forward import forward_job
JOBS = list(JOBS) + [forward_job("c15")]
META = {
 "level": "proof",
 "level_text": "Contracts on the real CPU-list parser (every NUL-terminated string up to INT_MAX-3 bytes, every output capacity up to 2^24; "
               "all loops closed by loop contracts with decreases clauses), on its consumer, on the environment defaults of the global "
               "attributes (every getenv/atoi outcome), on the init-once state machine (rely/guarantee on g_myth_init_state, any "
               "interference), on the real initialisation (worker counts 1..1024, creation loop by loop contract), on myth_fini_body "
               "(up to 2^20 workers) and on myth_get_worker_num/_num_workers.  The migration back to worker 0 "
               "(myth_startpoint_exit_ex_body) and myth_setup_worker are bounded stand-ins and are not counted as proved.",
 "level_note": "Trusted: cbmc 6.11 (dfcc, loop contracts, SAT), gcc -E, CBMC's isdigit model, SC interleaving of the atomic steps on the init word, "
               "the paper step from the per-caller obligations to 'exactly one initialiser'.  Not decided: that OS threads really stop "
               "(pthread_join is a contract), liveness of the wait/retry loops, CPU binding effects, whole-process behaviour "
               "(exit status under each environment).  On the unrepaired tree the check FAILS with F5a (next_char assert reachable) and "
               "F5b (negative default sizes); the int-overflow obligations of the parser need the benign-list lines given to the lead.",
 "trusted_base": ["cbmc 6.11.0 (goto-cc, goto-instrument --dfcc with function and loop contracts, SAT back end)",
                  "gcc -E preprocessing of the real sources (-D__NO_CTYPE for the parser unit so that isdigit is a function; CBMC's model of isdigit)",
                  "rely/guarantee rule (paper step) for g_myth_init_state",
                  "the contracts assumed for libc / pthread / OS calls listed under assumptions"],
 "explanation": "Part 1 (c15_cpulist.c): int_list_add, parse_error, parse_int, parse_range, parse_range_list, myth_parse_cpu_list are each "
                "enforced against a contract with the lower level replaced by its proved contract: no read past the terminator, no write "
                "outside a[0..n), termination, no reachable assert (F5a), accepted <=> whole string consumed and made of grammar "
                "characters, rejected => -1 and parse_error; documented range semantics (docs/bind.txt) in the loop invariant of "
                "parse_range; myth_get_available_cpus treats -1 as unset and stays in bounds.  Part 2 (c15_attr.c): the five default "
                "functions, globalattr_init and the setters/getters against the statement, over a ghost environment (F5b).  Part 3 "
                "(c15_init.c): CAS-elected single initialiser with waiting losers, the real initialisation creates exactly nw-1 "
                "threads after the global structures exist, finalisation joins nw-1 threads after raising the exit flags, releases "
                "afterwards and resets the state; worker index within [0, workers).",
 "assumptions": [
   "environment strings are shorter than 2^31-3 bytes (int index of the parser; Linux limits one environment string to 128 KiB); output capacity <= 2^24 (the library uses 1024)",
   "numbers in MYTH_CPU_LIST that overflow int (x*10+d, a+1, x+=c) are well-formed-but-unusable requests outside the property: the signed-overflow obligations fail and are to be put on the benign list; all other obligations are proved under CBMC's wrap-around semantics for those inputs, value facts (docs/bind.txt) only for a >= 0, c >= 0, b + c <= INT_MAX",
   "getenv, sysconf, sched_getaffinity, getpid, fputc, real_pthread_self, real_pthread_setaffinity_np: assumed contracts (return values arbitrary within their type; sysconf(_SC_NPROCESSORS_ONLN) in {-1} u [1, 1024] in the consumer job, >= 1 for the worker default)",
   "fprintf (variadic) is CBMC's built-in model: the diagnostics 'malformed MYTH_CPU_LIST ignored' etc. are not observed; the parser's own diagnostic (parse_error) is",
   "--conversion-check is off for jobs cpulist.consumer, attr.flags, attr.init, attr.setget: (size_t) of a negative int inside glibc's CPU_ISSET (range-checked by the macro) and the int -> size_t -> int round trip of MYTH_BIND_WORKERS / MYTH_CHILD_FIRST are defined conversions (gcc: modular)",
   "myth_bind_worker is checked for -1 or any non-negative CPU number (a negative number can only come from int overflow in the parser)",
   "atoi: assumed to return some int for every string (0 for empty / non-numeric); getenv/atoi are harness stubs over a ghost environment of the six documented variables; the stub of getenv compares names character by character",
   "init word: sequentially consistent interleaving of atomic steps; no finalisation runs concurrently with an initialisation (the environment never moves the word from initialized back to uninit); termination of myth_init_once_ctl_wait is not decided",
   "myth_init_ex_body_really: callees myth_get_available_cpus, myth_flmalloc_init, myth_tls_init, myth_internal_barrier_init, myth_malloc, myth_worker_key_init, real_pthread_create, real_pthread_self, myth_worker_thread_fn(0) are contracts that record call order and arguments; the store of the new thread id by pthread_create is not modelled; worker counts 1..1024 (static descriptor array)",
   "myth_globalattr_init_body is used by contract in the really job (g_attr.n_workers = the environment's request >= 1, proved in c15.attr.init)",
   "myth_fini_body: myth_startpoint_exit_ex_body, real_pthread_join, myth_fini_body_really are contracts (join = 'the worker has stopped' is assumed of the OS); the exit_flag stores of myth_startpoint_exit_ex_body are not modelled in that job (never read there); descriptor 0 has rank 0 (established by myth_setup_worker); up to 2^20 workers",
   "bounded: myth_startpoint_exit_ex_body for 1..3 workers and at most 2 refused hand-overs; context switch = save, real callback, suspend/resume contract (resumed on the worker whose queue accepted the thread; the main thread is never stolen; this_thread of every descriptor pre-set to the main thread); myth_queue_trypass, myth_random (range [min,max) assumed; floating point not analysed), myth_cleanup_worker are contracts",
   "bounded: myth_setup_worker for ranks 0, 1, 3 of a 4-descriptor pool; allocator, run queue, barrier, signal and pthread-key calls are contracts recording order",
   "myth_get_worker_num_body: 'rank == index' of the current descriptor is the postcondition of myth_setup_worker (bounded job) and is assumed here for an arbitrary worker of up to 2^20",
   "not decided: that worker OS threads really terminate, exit status of whole processes, CPU binding effects, memory-model effects",
 ],
}
