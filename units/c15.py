from vf import Job
TU1 = "c15_cpulist.c"
NOCTYPE = ["-D__NO_CTYPE"]
# string/stream/list facts, written without macros (the loop-contract file is not preprocessed)
CS_INV = "cs->a == g_S && 0 <= cs->ok_pos && cs->ok_pos <= cs->i && cs->i <= g_len"
IL_INV = "il->a == g_A && il->n == g_n && 0 <= il->i && il->i <= il->n"
DIG = lambda e: "(48 <= %s && %s <= 57)" % (e, e)
ALPHA = lambda e: "((48 <= %s && %s <= 57) || %s == 44 || %s == 45 || %s == 58)" % (e, e, e, e, e)
L_INT = {"parse_int": [dict(loop_id="0", assigns="cs->i, x, n_digits",
    invariants=CS_INV + " && __CPROVER_loop_entry(cs->i) <= cs->i && n_digits == cs->i - __CPROVER_loop_entry(cs->i)"
               " && ((__CPROVER_loop_entry(cs->i) <= g_k && g_k < cs->i) ==> " + DIG("g_S[g_k]") + ")"
               " && (cs->i > __CPROVER_loop_entry(cs->i) ==> (" + DIG("g_S[__CPROVER_loop_entry(cs->i)]") + " && " + DIG("g_S[cs->i - 1]") + "))",
    decreases="g_len - cs->i",
    symbol_map="cs,parse_int::cs;x,parse_int::1::x;n_digits,parse_int::1::n_digits")]}
L_ERR = {"parse_error": [
    dict(loop_id="0", assigns="i", invariants="0 <= i && i <= 2 + cs->ok_pos", decreases="2 + cs->ok_pos - i",
         symbol_map="cs,parse_error::cs;i,parse_error::1::i"),
    dict(loop_id="1", assigns="i", invariants="2 + cs->ok_pos <= i && i <= 2 + cs->i", decreases="2 + cs->i - i",
         symbol_map="cs,parse_error::cs;i,parse_error::1::i")]}
# values: only for numbers that fit (no int overflow in a+1 / x+c): a >= 0, c >= 0, b + c <= INT_MAX
G = "(0 <= a && 0 <= c && b <= 2147483647 - c)"
L_RANGE = {"parse_range": [dict(loop_id="0", assigns="x, il->i, __CPROVER_object_upto(g_A, g_n * 4)",
    invariants=IL_INV + " && __CPROVER_loop_entry(il->i) <= il->i"
               " && (g_w < __CPROVER_loop_entry(il->i) ==> g_A[g_w] == __CPROVER_loop_entry(g_A[g_w]))"
               # documented meaning (docs/bind.txt): A-B:C appends A, A+C, A+2C, ... < B, in this order, nothing else
               " && (" + G + " ==> (a <= x && (il->i == __CPROVER_loop_entry(il->i) ==> x == a)))"
               " && ((" + G + " && il->i > __CPROVER_loop_entry(il->i)) ==> (g_A[__CPROVER_loop_entry(il->i)] == a && g_A[il->i - 1] == x - c && x - c < b))"
               " && ((" + G + " && __CPROVER_loop_entry(il->i) <= g_w && g_w < il->i) ==> (a <= g_A[g_w] && g_A[g_w] < b))"
               " && ((" + G + " && __CPROVER_loop_entry(il->i) < g_w && g_w < il->i) ==> g_A[g_w] - c == g_A[g_w - 1])",
    decreases="il->n - il->i",
    symbol_map="cs,parse_range::cs;il,parse_range::il;x,parse_range::1::x;a,parse_range::1::a;b,parse_range::1::b;c,parse_range::1::c")]}
L_LIST = {"parse_range_list": [dict(loop_id="0", assigns="cs->i, cs->ok_pos, g_diag, il->i, __CPROVER_object_upto(g_A, g_n * 4)",
    invariants=CS_INV + " && cs->ok_pos == cs->i && " + IL_INV +
               " && 0 <= g_i0 && g_i0 < cs->i && g_li0 <= il->i && g_diag == __CPROVER_loop_entry(g_diag)"
               " && " + DIG("g_S[g_i0]") + " && " + DIG("g_S[cs->i - 1]") +
               " && (g_w < g_li0 ==> g_A[g_w] == __CPROVER_loop_entry(g_A[g_w]))"
               " && ((g_i0 <= g_k && g_k < cs->i) ==> " + ALPHA("g_S[g_k]") + ")",
    decreases="g_len - cs->i",
    symbol_map="cs,parse_range_list::cs;il,parse_range_list::il")]}
NS = "(n_specified_cpus <= 1024 && 0 <= i && (i <= n_specified_cpus || n_specified_cpus < 0))"
L_AVAIL = {"myth_get_available_cpus": [
    dict(loop_id="0", assigns="i, __CPROVER_object_whole(myth_cpu_list)", invariants=NS, decreases="n_specified_cpus - i",
         symbol_map="i,myth_get_available_cpus::1::i;n_specified_cpus,myth_get_available_cpus::1::n_specified_cpus"),
    dict(loop_id="1", assigns="i, n_available_cpus, __CPROVER_object_whole(worker_cpu)",
         invariants=NS + " && 0 <= n_available_cpus && n_available_cpus <= i",
         decreases="n_specified_cpus - i",
         symbol_map="i,myth_get_available_cpus::1::i;n_specified_cpus,myth_get_available_cpus::1::n_specified_cpus")]}
# without --conversion-check: (size_t)myth_cpu_list[i] inside glibc's CPU_ISSET is a defined conversion whose result the macro range-checks
NOCONV = ["--bounds-check", "--pointer-check", "--signed-overflow-check", "--undefined-shift-check", "--div-by-zero-check"]
TU2 = "c15_attr.c"
ENVSTUBS = ["getenv:verif_getenv", "atoi:verif_atoi", "myth_get_n_available_cpus:verif_ncpus"]
UNW = ["--unwind", "24", "--unwinding-assertions"]
TU3 = "c15_init.c"
W_INV = ("(0 <= g_W && g_W <= 2 && (g_i_init == 0 || g_i_init == 1) && (g_env_init == 0 || g_env_init == 1) && g_i_init + g_env_init <= 1"
         " && ((g_W == 1) == (g_i_init + g_env_init == 1)))")
L_WAIT = {"myth_init_once_ctl_wait": [dict(loop_id="0", assigns="g_myth_init_state, g_W, g_env_init",
    invariants="var == &g_myth_init_state && g_myth_init_state == g_W && g_i_init == 0 && " + W_INV,
    symbol_map="var,myth_init_once_ctl_wait::var")]}
FLAGS = "g_did_cpus == 1 && g_did_flmalloc == 1 && g_did_tls == 1 && g_did_barrier == 1 && g_did_envs == 1 && g_did_key == 1"
L_REALLY = {"myth_init_ex_body_really": [dict(loop_id="0", assigns="i, g_created",
    invariants="1 <= i && i <= nw && nw == g_nw && g_created == i - 1 && g_envs == g_pool && g_envs_sz == g_nw && g_main_started == 0 && " + FLAGS,
    decreases="nw - i",
    symbol_map="i,myth_init_ex_body_really::1::i;nw,myth_init_ex_body_really::1::nw")]}
L_FINI = dict(L_WAIT)
L_FINI["myth_fini_body"] = [
    dict(loop_id="0", assigns="i", invariants="0 <= i && i <= g_nw && g_attr.n_workers == g_nw", decreases="g_nw - i",
         symbol_map="i,myth_fini_body::1::i"),
    dict(loop_id="1", assigns="i, g_joined", invariants="1 <= i && i <= g_nw && g_attr.n_workers == g_nw && g_joined == i - 1 && g_envs == g_pool",
         decreases="g_nw - i", symbol_map="i,myth_fini_body::1::i")]
HERE = "(0 <= g_worker_rank && g_worker_rank < g_nw && g_envs == g_pool && g_envs_sz == g_nw && g_attr.n_workers == g_nw)"
L_EXIT = {
  "myth_startpoint_exit_ex_body": [dict(loop_id="0",
    assigns="env, g_worker_rank, g_passed, g_passed_rank, g_ctx_saved, g_switched, g_tidx, TH.env, POOL",
    invariants=HERE + " && env == &g_pool[g_worker_rank] && env->rank == g_worker_rank && env->this_thread == &TH && TH.env == env"
               " && g_passed == 0 && g_ctx_saved == 0 && 0 <= rank && rank < g_nw && (g_switched == 0 || g_switched == 1)"
               " && (g_switched == 0 ==> (g_tidx == rank && g_worker_rank == __CPROVER_loop_entry(g_worker_rank)))",
    symbol_map="env,myth_startpoint_exit_ex_body::1::env;rank,myth_startpoint_exit_ex_body::rank")],
  "myth_startpoint_exit_ex_1": [dict(loop_id="0", assigns="target, TH.env, g_passed, g_passed_rank, g_tidx",
    invariants="g_passed == 0 && g_ctx_saved == 1 && th == &TH && 0 <= g_tidx && g_tidx < g_nw && g_envs == g_pool && g_attr.n_workers == g_nw"
               " && TH.env == target && (target == &g_pool[g_tidx] || target == &g_pool[0])",
    symbol_map="target,myth_startpoint_exit_ex_1::1::target;th,myth_startpoint_exit_ex_1::1::th")],
  "myth_notify_workers_exit": [dict(loop_id="0", assigns="i, POOL",
    invariants="0 <= i && i <= g_nw && g_attr.n_workers == g_nw && g_envs == g_pool && 0 <= g_k && (g_k < i ==> g_pool[g_k].exit_flag != 0)",
    decreases="g_nw - i", symbol_map="i,myth_notify_workers_exit::1::i")]}
ENV3 = ["myth_verif_env_step/myth_verif_env_step", "real_sched_yield/yield_contract"]
STDIO = ["fputc/fputc_contract"]
JOBS = [
  Job("c15.cpulist.add", TU1, "h_int_list_add", enforce=["int_list_add/int_list_add_contract"], defines=NOCTYPE,
      fuc=["int_list_add"], timeout=120),
  Job("c15.cpulist.error", TU1, "h_parse_error", loops=L_ERR, loop_counts={"parse_error": 2}, replace=STDIO, defines=NOCTYPE,
      fuc=["parse_error"], timeout=120),
  Job("c15.cpulist.int", TU1, "h_parse_int", enforce=["parse_int/parse_int_contract"], loops=L_INT, loop_counts={"parse_int": 1},
      replace=["parse_error/parse_error_contract"], defines=NOCTYPE, fuc=["parse_int", "next_char", "cur_char"], timeout=120),
  Job("c15.cpulist.range", TU1, "h_parse_range", enforce=["parse_range/parse_range_contract"], loops=L_RANGE, loop_counts={"parse_range": 1},
      replace=["parse_error/parse_error_contract", "parse_int/parse_int_contract"], defines=NOCTYPE,
      fuc=["parse_range", "int_list_add", "next_char", "cur_char"], timeout=120),
  Job("c15.cpulist.list", TU1, "h_parse_range_list", enforce=["parse_range_list/parse_range_list_contract"], loops=L_LIST,
      loop_counts={"parse_range_list": 1},
      replace=["parse_error/parse_error_contract", "parse_range/parse_range_contract"], defines=NOCTYPE,
      fuc=["parse_range_list", "next_char", "cur_char", "set_ok_pos"], timeout=120),
  Job("c15.cpulist.entry", TU1, "h_parse_cpu_list", enforce=["myth_parse_cpu_list/myth_parse_cpu_list_contract"],
      replace=["parse_range_list/parse_range_list_contract", "getenv/getenv_contract"], defines=NOCTYPE,
      fuc=["myth_parse_cpu_list", "init_char_stream", "init_int_list"], timeout=120),
  Job("c15.cpulist.consumer", TU1, "h_get_available_cpus", loops=L_AVAIL, loop_counts={"myth_get_available_cpus": 2},
      replace=["myth_parse_cpu_list/pcl_for_caller_contract", "sysconf/sysconf_contract", "sched_getaffinity/sched_getaffinity_contract", "getpid/getpid_contract"],
      safety=NOCONV, defines=NOCTYPE, fuc=["myth_get_available_cpus", "myth_get_n_available_cpus", "myth_get_worker_cpu"], timeout=120),
  Job("c15.cpulist.bind", TU1, "h_bind_worker",
      replace=["real_pthread_setaffinity_np/setaffinity_contract", "real_pthread_self/pthread_self_contract",
               "myth_get_worker_cpu/get_worker_cpu_contract"],
      defines=NOCTYPE, fuc=["myth_bind_worker"], timeout=120),
  # ---- part 2: environment defaults of the global attributes (src/myth_init_func.h)
] + [
  Job("c15.attr." + n, TU2, h, replace_calls=ENVSTUBS, cbmc=UNW, fuc=f, timeout=120, safety=sf,
      note="complete: the only loops are in the harness stubs (name comparison over literals <= 19 chars, 6 variables), fully unwound with unwinding assertions")
  for (n, h, f, sf) in [
    ("stacksize", "h_default_stacksize", ["myth_globalattr_default_stacksize"], None),
    ("guardsize", "h_default_guardsize", ["myth_globalattr_default_guardsize"], None),
    ("workers", "h_default_num_workers", ["myth_globalattr_default_num_workers"], None),
    ("flags", "h_default_flags", ["myth_globalattr_default_bind_workers", "myth_globalattr_default_child_first"], NOCONV),
    ("init", "h_attr_init", ["myth_globalattr_init_body"], NOCONV),
    ("setget", "h_attr_set_get", ["myth_globalattr_set_stacksize_body", "myth_globalattr_get_stacksize_body",
        "myth_globalattr_set_guardsize_body", "myth_globalattr_get_guardsize_body", "myth_globalattr_set_n_workers_body",
        "myth_globalattr_get_n_workers_body", "myth_globalattr_set_bind_workers_body", "myth_globalattr_get_bind_workers_body",
        "myth_globalattr_set_child_first_body", "myth_globalattr_get_child_first_body"], NOCONV),
  ]
] + [
  # ---- part 3: init-once state machine, worker creation, finalisation, worker index (src/myth_init.c, myth_worker_func.h)
  Job("c15.init.once", TU3, "h_init_once", loops=L_WAIT, loop_counts={"myth_init_once_ctl_wait": 1},
      replace=ENV3 + ["myth_init_ex_body_really/really_contract"],
      fuc=["myth_init_ex_body", "myth_ensure_init_ex", "myth_ensure_init", "myth_init_once_ctl_try_set", "myth_init_once_ctl_wait"], timeout=200),
  Job("c15.init.really", TU3, "h_really", loops=L_REALLY, loop_counts={"myth_init_ex_body_really": 1},
      replace=["myth_get_available_cpus/get_available_cpus_contract", "myth_globalattr_init_body/globalattr_init_contract",
               "myth_flmalloc_init/flmalloc_init_contract", "myth_tls_init/tls_init_contract",
               "myth_internal_barrier_init/barrier_init_contract", "myth_malloc/malloc_contract",
               "myth_worker_key_init/worker_key_init_contract", "real_pthread_create/pthread_create_contract",
               "real_pthread_self/pthread_self_contract", "myth_worker_thread_fn/worker_thread_fn_contract"],
      fuc=["myth_init_ex_body_really"], timeout=200),
  Job("c15.fini.body", TU3, "h_fini", loops=L_FINI, loop_counts={"myth_init_once_ctl_wait": 1, "myth_fini_body": 2},
      replace=ENV3 + ["myth_startpoint_exit_ex_body/exit_ex_contract", "real_pthread_join/pthread_join_contract",
                      "myth_fini_body_really/fini_really_contract"],
      fuc=["myth_fini_body", "myth_init_once_ctl_wait", "myth_get_current_env"], timeout=200),
  Job("c15.fini.exit.bounded", TU3, "h_exit_ex", kind="bounded",
      replace=["verif_ctx_save/ctx_save_contract", "verif_suspend_resume/suspend_resume_contract", "myth_queue_trypass/trypass_contract",
               "myth_random/random_contract", "myth_cleanup_worker/cleanup_worker_contract"],
      cbmc=["--unwind", "4", "--unwindset", "myth_notify_workers_exit.0:4", "--unwindset", "setup_migration.0:4", "--unwinding-assertions"],
      defines=["-DMAX_REFUSALS=2", "-DNW_MAX=3"],
      fuc=["myth_startpoint_exit_ex_body", "myth_startpoint_exit_ex_1", "myth_notify_workers_exit", "myth_env_get_randomly",
           "myth_get_current_env"], timeout=200,
      note="bounded: at most 2 refused hand-overs of the main thread (so at most 3 migration hops), at most 64 workers (static descriptor pool); "
           "loop contracts would havoc descriptor pointers that are dereferenced afterwards, which CBMC's symbolic execution does not survive"),
  Job("c15.worker_num", TU3, "h_worker_num", replace=ENV3 + ["myth_init_ex_body_really/really_contract"],
      loops=L_WAIT, loop_counts={"myth_init_once_ctl_wait": 1},
      fuc=["myth_get_worker_num_body", "myth_get_num_workers_body", "myth_get_current_env", "myth_ensure_init"], timeout=200),
]
META = {
 "level": "proof",
 "level_text": "",
 "level_note": "",
 "trusted_base": [],
 "explanation": "",
 "assumptions": [],
}
