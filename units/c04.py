from vf import Job
from units.common_wake import wake_one_jobs, block_jobs, sleepq_jobs, spin_jobs
TU = "c04_mutex.c"
INV = ("(g_A >= 0 && (g_seat == 0 || g_seat == 1) && g_A < (1L << 61) - 2 * g_seat && (g_i_hold == 0 || g_i_hold == 1) && "
       "(g_env_holds == 0 || g_env_holds == 1) && (g_A & 1) == g_i_hold + g_env_holds)")
AGREE = "M.state == g_A && " + INV
L_TRY = {"myth_mutex_trylock_body": [dict(loop_id="0", assigns="M.state, g_A, g_env_holds, g_i_hold, g_acq, g_last_read, g_saw_held",
          invariants=AGREE + " && g_i_hold == 0 && g_acq == 0 && g_seat == 0 && g_pending == 0 && g_ann_ever == 0 && g_block_ever == 0")]}
L_LOCK = {"myth_mutex_lock_body": [dict(loop_id="0",
          assigns="M.state, g_A, g_env_holds, g_i_hold, g_acq, g_seat, g_pending, g_ann_ever, g_block_ever, g_last_read, g_saw_held, failed",
          invariants=AGREE + " && g_i_hold == 0 && g_acq == 0 && g_seat == 1 && g_pending == 0 && g_rel == 0 && g_take == 0 && g_saw_held == 0 && g_no_busy_wait == 1",
          symbol_map="failed,myth_mutex_lock_body::1::failed")]}
L_UNLOCK = {"myth_mutex_unlock_body": [dict(loop_id="0",
          assigns="M.state, g_A, g_env_holds, g_i_hold, g_rel, g_take, g_clear, g_wake_calls, g_last_read, g_saw_held, failed",
          invariants=AGREE + " && g_i_hold == 1 && g_seat == 0 && g_rel == 0 && g_take == 0 && g_clear == 0 && g_wake_calls == 0 && g_acq == 0 && g_ann_ever == 0 && g_block_ever == 0 && g_pending == 0",
          symbol_map="failed,myth_mutex_unlock_body::1::failed")]}
L_TIMED = {"myth_mutex_timedlock_body": [dict(loop_id="0",
          assigns="M.state, g_A, g_env_holds, g_i_hold, g_acq, g_clock_read_ever, g_now_s, g_now_ns, g_yield_ever, g_try_since_clock, g_saw_held, g_last_read, __CPROVER_object_whole(tp)",
          invariants=AGREE + " && g_i_hold == 0 && g_acq == 0 && g_seat == 0 && g_pending == 0 && g_ann_ever == 0 && g_block_ever == 0 && 0 <= g_now_ns && g_now_ns <= 999999999 && g_try_since_clock == 1",
          symbol_map="tp,myth_mutex_timedlock_body::1::2::tp")]}
ENV = ["myth_verif_env_step/myth_verif_env_step"]
HOOK = [("state", "myth_verif_rd")]
JOBS = [
  Job("c04.init", TU, "h_init", fuc=["myth_mutex_init_body", "myth_mutexattr_init_body", "myth_sleep_queue_init"], timeout=200),
  Job("c04.trylock", TU, "h_trylock", loops=L_TRY, loop_counts={"myth_mutex_trylock_body": 1}, replace=ENV, read_hooks=HOOK,
      fuc=["myth_mutex_trylock_body"], timeout=300),
  Job("c04.lock", TU, "h_lock", loops=L_LOCK, loop_counts={"myth_mutex_lock_body": 1},
      replace=ENV + ["myth_block_on_queue/block_on_queue_contract"], read_hooks=HOOK, fuc=["myth_mutex_lock_body"], timeout=300),
  Job("c04.unlock", TU, "h_unlock", loops=L_UNLOCK, loop_counts={"myth_mutex_unlock_body": 1},
      replace=ENV + ["myth_wake_one_from_queue/wake_one_contract", "exit/exit_contract"], read_hooks=HOOK,
      fuc=["myth_mutex_unlock_body"], timeout=300),
  Job("c04.clear_bit", TU, "h_clear_bit", replace=ENV, read_hooks=HOOK, fuc=["myth_mutex_clear_lock_bit"], timeout=200),
  Job("c04.timedlock", TU, "h_timedlock", loops=L_TIMED, loop_counts={"myth_mutex_timedlock_body": 1},
      replace=ENV + ["myth_mutex_trylock_body/trylock_contract", "hr_gettime/gettime_contract", "myth_yield_ex_body/yield_contract"],
      fuc=["myth_mutex_timedlock_body", "myth_timespec_gt"], timeout=300),
  Job("c04.lemmas", TU, "h_lemmas", timeout=200),
] + wake_one_jobs("c04") + block_jobs("c04") + sleepq_jobs("c04") + spin_jobs("c04")
# the public API functions are one-line forwarders to the bodies under contract: checked mechanically (DESIGN §3.5b)
from units.common_forward import forward_job
JOBS = list(JOBS) + [forward_job("c04")]
META = {
 "level": "proof",
 "level_text": "Rely/guarantee contracts on the real mutex bodies: every own atomic step on the state word must be a legal protocol transition under arbitrary interference before every read and every CAS; retry loops closed by loop contracts (unbounded).",
 "level_note": "Trusted: cbmc 6.11, SC interleaving of atomic steps, the paper step from per-thread guarantees to mutual exclusion; liveness ('each lock call eventually returns') not decided.",
 "trusted_base": ["cbmc 6.11.0 (goto-cc, goto-instrument --dfcc with loop contracts, SAT back end)", "gcc -E of the real headers (rules R1, R2, R4)",
                  "rely/guarantee rule (paper step)"],
 "explanation": "mutex protocol word under rely/guarantee contracts",
 "assumptions": [
   "sequentially consistent interleaving of atomic steps on the state word (x86-TSO effects not modelled)",
   "fewer than 2^60 simultaneous waiters (state + 2 does not overflow)",
   "a thread blocked on the mutex's sleep queue is resumed only by an unlocker that took its seat (scheduler fact, C02)",
   "termination of retry loops / eventual return of lock calls (liveness) is not decided",
 ],
}
