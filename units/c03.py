"""C03 -- a thread's registers and stack survive every context switch and migration (DESIGN §4 C03).

Two engines:
  1. CBMC jobs (JOBS) on the real myth_make_context_empty / myth_make_context_voidcall (amd64 bodies):
     invariant I (ctx->rsp % 16 == 0), placement II, frame III, entry-alignment lemma.
  2. asm-template contracts on the four inline-asm switch macros, discharged with z3 by asm/ctxcheck.py
     (run under python3-vt through pre(tier)); one entry per z3 / template-text obligation.

Mutations (selftest/C03): all must be CAUGHT; none is semantically equivalent.
"""
import json, os, subprocess
import vf
from vf import Job

TU = "c03_make_context.c"
# `stack` is an arbitrary 64-bit integer in this job: the store through the forged pointer has no object behind it, so
# pointer checks are off here (cbmc 6 turns them on by default); the store itself is checked in c03.voidcall.contract
NOPTR = ["--bounds-check", "--signed-overflow-check", "--undefined-shift-check", "--div-by-zero-check",
         "--conversion-check", "--no-pointer-check"]
JOBS = [
  Job("c03.empty.all_addresses", TU, "h_empty", enforce=["myth_make_context_empty/make_empty_contract"],
      fuc=["myth_make_context_empty"], timeout=120,
      note="complete: `stack` ranges over every 64-bit value >= 24"),
  Job("c03.voidcall.all_addresses", TU, "h_voidcall_all", safety=NOPTR, fuc=["myth_make_context_voidcall"], timeout=120,
      note="complete for I, II and the entry lemma: `stack` ranges over every 64-bit value >= 24; pointer checks off (see c03.voidcall.contract)",
      assumes=["c03.voidcall.all_addresses runs without pointer checks (the argument is a forged integer address); "
               "the memory effect of the same body is checked with all checks on in c03.voidcall.contract"]),
  Job("c03.voidcall.contract", TU, "h_voidcall", enforce=["myth_make_context_voidcall/make_voidcall_contract"],
      cbmc=["--unwind", "257", "--unwinding-assertions"], fuc=["myth_make_context_voidcall"], timeout=120,
      note="complete in the offset: `stack` at every offset 23..240 of a 256-byte block (the harness loop that fills the "
           "block has the constant bound 256, unwinding assertion on); block base 16-aligned in CBMC's address model, "
           "base-independence of the arithmetic is what c03.voidcall.all_addresses shows"),
  Job("c03.entry_lemma", TU, "h_entry_lemma", replace=["myth_make_context_empty/make_empty_contract",
      "myth_make_context_voidcall/make_voidcall_contract"], fuc=[], timeout=120,
      note="lemma from the two contracts (bodies replaced): entry by call / by pop;jmp sees rsp % 16 == 8"),
]


def pre(tier):
    """engine 2: the z3 asm-template contracts.  -> list of dict(name, ok, detail, engine) / dict(name, undecided, detail)"""
    script = os.path.join(vf.VERIF, "asm", "ctxcheck.py")
    try:
        p = subprocess.run(["python3-vt", script, "--json"], capture_output=True, text=True, timeout=200,
                           env=dict(os.environ, VERIF_REPO=vf.REPO))
    except Exception as e:                                   # missing interpreter, timeout: never a verdict
        return [dict(name="asm.ctxcheck", undecided=True, detail="asm/ctxcheck.py did not run: %r" % (e,), engine="ctxcheck")]
    try:
        res = json.loads(p.stdout)
        assert isinstance(res, list) and all(isinstance(r, dict) and "name" in r for r in res)
    except Exception:
        return [dict(name="asm.ctxcheck", undecided=True, engine="ctxcheck",
                     detail="asm/ctxcheck.py gave no result list (rc=%s): %s" % (p.returncode, (p.stdout + p.stderr)[-400:]))]
    if not res or (not any(r.get("undecided") for r in res) and len(res) < 100):
        res.append(dict(name="asm.ctxcheck", undecided=True, engine="ctxcheck",
                        detail="vacuity: only %d asm obligations were generated" % len(res)))
    return res


# imported call-protocol jobs: the same real functions carry this property's clause in another unit's harness
import importlib as _il
JOBS = list(JOBS) + [j for j in _il.import_module("units.c08").JOBS if j.name in ('c08.wait',)]
JOBS = list(JOBS) + [j for j in _il.import_module("units.c05").JOBS if j.name in ('c05.block_on_queue',)]
JOBS = list(JOBS) + [j for j in _il.import_module("units.c06").JOBS if j.name in ('c06.block_on_stack',)]
JOBS = list(JOBS) + [j for j in _il.import_module("units.c01").JOBS if j.name in ('c01.create',)]
JOBS = list(JOBS) + [j for j in _il.import_module("units.c02").JOBS if j.name in ('c02.yield',)]
# the final jump away from a finished thread (and the switch into the scheduler it may take): the worker whose queue and
# scheduler context are used must be the one the thread is running on NOW, also after its destructors (user code) ran
JOBS = list(JOBS) + [j for j in _il.import_module("units.c12").JOBS if j.name in ('c12.cleanup', 'c12.entry_point_1', 'c12.entry_point_2',
    # "the stack of a thread stays its own": a stack is handed back exactly as it was obtained (base, size class), so that no two live threads share stack memory
    'c12.stack.custom', 'c12.stack.custom.alloc', 'c12.stack.default', 'c12.stack.none', 'c12.flmalloc')]
JOBS = list(JOBS) + [j for j in _il.import_module("units.c08").JOBS if j.name in ('c08.signal.bounded',)]
META = {
 "level": "proof",
 "level_text": "Two contract checks on the real text. (1) CBMC: for every 64-bit stack address myth_make_context_empty / "
               "_voidcall store a 16-aligned rsp within 23 bytes below `stack`, write nothing but ctx->rsp and (voidcall) the "
               "8 bytes at rsp, which hold func. (2) z3 on the four inline-asm templates as extracted by gcc -E from the "
               "real header on every run: for both saving templates and all 2x4 saver/resumer pairs rsp, rbp, rbx, r12-r15 "
               "are restored, the 128-byte red zone and the caller's frame are unwritten, the context word holds the final "
               "rsp, the callback is called with rsp % 16 == 0 on the target stack after the save, pop;jmp enters with "
               "rsp % 16 == 8, and every general-purpose register is restored or declared to the compiler.",
 "level_note": "Trusted: cbmc 6.11, z3 5.1, my semantics of ten x86-64 instructions, GCC's constraint semantics, "
               "rsp % 16 == 0 at the asm statement, ABI-conforming callbacks. Not decided: that nobody else writes a "
               "suspended thread's saved frame (ownership, C12/C02), vector/x87 state, MXCSR/x87 control words "
               "(MYTH_SAVE_FPCSR is 0), the non-amd64 variants, the .S variant (MYTH_INLINE_CONTEXT=0).",
 "trusted_base": [
   "cbmc 6.11.0 (goto-cc, goto-instrument --dfcc, SAT back end); gcc -E preprocessing of the real headers",
   "z3 5.1.0 (python API) and asm/ctxcheck.py: extraction of the asm statements from `gcc -E -P` output and the semantics of "
   "sub/add $imm, push, pop, lea label(%rip), mov reg<->(reg), call, jmp *reg, ret over 64-bit bit-vectors and a word array",
   "GCC inline-asm constraint semantics: a/c/d/S/D fix rax/rcx/rdx/rsi/rdi, a digit ties an input to that output's register, "
   "registers neither operand nor clobber are assumed unchanged by the statement, \"memory\" forbids caching across it",
   "the compiler keeps rsp 16-byte aligned at the asm statement (the header's own comment relies on it; not checked on the object code)",
   "MYTH_CTX_CALLBACK functions are ABI-conforming C functions: they preserve rsp, rbx, rbp, r12-r15 and write only below their entry rsp on the stack they run on",
   "composition (paper step): invariant I (every context value is 16-aligned) is established by make_context_* [CBMC] and by "
   "every save part [z3], every dispatch assumes only I; save(S) + dispatch(D) + tail(S) for all pairs gives the statement for "
   "every sequence of switches",
 ],
 "explanation": "CBMC contracts on the real make_context bodies give the initial stack pointer of both entry styles for "
                "every address; a small symbolic executor over the asm templates, taken from the preprocessed real header "
                "on every run, proves with z3 the frame, alignment and clobber contracts of the four switch macros for every "
                "saver/resumer pair.",
 "assumptions": [
   "amd64 inline variant only (MYTH_ARCH_amd64, MYTH_INLINE_CONTEXT=1, MYTH_INLINE_PUSH_CALLEE_SAVED=1; MYTH_SAVE_FPCSR=0 as "
   "shipped -- with 1 the engine also requires mxcsr and the x87 control word to be restored): any other configuration makes "
   "the asm engine report UNDECIDED; i386/aarch64/sparc/ucontext/.S variants are not checked",
   "ownership, not decided here: between the save and the resume of a thread nobody writes its saved frame [saved rsp, entry rsp) "
   "nor its context word (stack allocator / run-queue properties C12, C02); the ctx words do not lie in the 4 KiB below the "
   "entry rsp and are 8-byte aligned (they are uint64_t fields of thread descriptors / worker records)",
   "entry rsp of the asm statement is a user-space address (0x10000..0x7ffffffff000) and 16-byte aligned (trusted compiler behaviour)",
   "the callback and every function entered on a fresh stack are ABI-conforming; callbacks that never return (child-first entry "
   "myth_create_1) are covered up to their call",
   "vector and x87 registers are neither saved nor named in the clobber list: sound only as long as no floating-point/vector "
   "value is live across the asm statement inside the library functions that contain it (all public switching entry points are "
   "out-of-line calls, for which these registers are caller-saved); not checked",
   "MXCSR control bits and the x87 control word are callee-saved in the SysV ABI but are NOT saved by the templates in this "
   "configuration (MYTH_SAVE_FPCSR=0): a thread that changes rounding/exception masks shares them with the other threads of the "
   "worker (reproduced natively: fesetround in one thread is seen by the next thread on the worker after myth_yield); outside the "
   "register set the property's mechanism names (rbp rbx r12-r15), reported to the lead",
   "the direction flag and the rest of rflags are not modelled (\"cc\" is required in the clobber list of the swap templates)",
   "call sites of make_context_* (myth_create_ex_body, myth_startpoint_init_ex_body) pass the address of the last usable word of a "
   "block with at least 24 bytes below it: read off the code, not machine-checked here",
   "CBMC's address model gives every object a 16-aligned base: the offset-complete job c03.voidcall.contract is complemented by "
   "c03.voidcall.all_addresses (every 64-bit integer value of `stack`, pointer checks off)",
   "function-pointer-to-integer conversion: the word at rsp is compared with (unsigned long)func as CBMC encodes it",
   "a template instruction or operand form outside the modelled subset yields UNDECIDED (exit 2), never a verdict",
 ],
}
