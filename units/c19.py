from vf import Job, SAFETY
NOCONV = [x for x in SAFETY if x != "--conversion-check"]
IO = ["fwrite:verif_fwrite", "read:verif_read", "lseek:verif_lseek", "mmap:verif_mmap", "close:verif_close", "exit:verif_exit", "malloc:verif_malloc_g"]
# ---- loop contracts for dr_pi_dag_set_edge_ptrs (goto order: 0 = inner while (i < u), 1 = for (j), 2 = tail while (i < n - 1))
LC_N, LC_M = 4, 16
# the witness node g_w is symbolic, but the invariants read the node array at CONSTANT indices ((g_w == 3 ==> ... LN[3] ...)):
# a read LN[g_w].f of the 432-byte node type costs a multiplexer over the whole array each time
def PB(jj): return "(" + " && ".join("(g_w == %d ==> (0 <= LN[%d].edges_begin && LN[%d].edges_begin <= %s && (g_w != 0 || LN[0].edges_begin == 0) && (m == 0 || ((LN[%d].edges_begin <= g_k) == (LE[g_k].u >= g_w)))))" % (w, w, w, jj, w) for w in range(LC_N)) + ")"
def PE(jj): return "(" + " && ".join("(g_w == %d ==> (LN[%d].edges_begin <= LN[%d].edges_end && LN[%d].edges_end <= %s && (m == 0 || ((g_k < LN[%d].edges_end) == (LE[g_k].u <= g_w))) && LN[%d].edges_begin == LN[%d].edges_end))" % (w, w, w, w, jj, w, w + 1, w) for w in range(LC_N)) + ")"
SEEN = "(m == 0 || g_k >= j || LE[g_k].u <= i)"          # every edge already passed has its source <= i
SM = "i,dr_pi_dag_set_edge_ptrs::1::i;j,dr_pi_dag_set_edge_ptrs::1::j;m,dr_pi_dag_set_edge_ptrs::1::m;n,dr_pi_dag_set_edge_ptrs::1::n;u,dr_pi_dag_set_edge_ptrs::1::1::1::u"
L_EP = {"dr_pi_dag_set_edge_ptrs": [
  dict(loop_id="0", assigns="i, __CPROVER_object_whole(LN)", symbol_map=SM,
       invariants="0 <= j && j < m && u == LE[j].u && 0 <= i && i < n && __CPROVER_loop_entry(i) <= i && " + SEEN +
                  " && (g_w <= i ==> " + PB("j") + ") && (g_w < i ==> " + PE("j") + ")"),
  dict(loop_id="1", assigns="i, j, __CPROVER_object_whole(LN)", symbol_map=SM,
       invariants="0 <= j && j <= m && 0 <= i && i < n && " + SEEN + " && (g_w <= i ==> " + PB("j") + ") && (g_w < i ==> " + PE("j") + ")"),
  dict(loop_id="2", assigns="i, __CPROVER_object_whole(LN)", symbol_map=SM,
       invariants="j == m && 0 <= i && i <= n - 1 && (m == 0 || LE[g_k].u <= i) && (g_w <= i ==> " + PB("m") + ") && (g_w < i ==> " + PE("m") + ")"),
]}
LIBC_DAG = ["malloc:verif_malloc_plan", "free:verif_free", "memset:verif_memset", "qsort:verif_qsort", "exit:verif_exit"]
SCENS = ((0, "nothing contracted"), (1, "section A contracted"), (2, "section B contracted"), (3, "both sections contracted"))
JOBS = [
  Job("c19.file.layout", "c19_file.c", "h_file_layout", replace_calls=IO,
      cbmc=["--unwind", "47", "--unwinding-assertions", "--sat-solver", "cadical"], safety=NOCONV, fuc=["dr_pi_dag_dump", "dr_read_dag"], timeout=600,
      note="complete for files of at most 2^48 bytes (64-bit size arithmetic / 52-bit pointer offsets do not wrap); loop-free except libc strcmp on the 45-byte version line, unwound to that constant"),
  Job("c19.strtab.flatten.bounded", "c19_file.c", "h_strtab_flatten", kind="bounded",
      replace_calls=["malloc:verif_malloc_st", "strlen:verif_strlen", "strcpy:verif_strcpy", "exit:verif_exit"],
      cbmc=["--unwind", "10", "--unwinding-assertions", "--sat-solver", "cadical"], fuc=["dr_string_table_flatten", "dr_pi_dag_set_string_table"], timeout=600,
      note="bounded: at most 8 strings (any number from 0 to 8), each shorter than 4096 bytes"),
  Job("c19.edge_cmp.lemmas", "c19_edges.c", "h_edge_cmp_lemmas", replace_calls=["exit:verif_exit"], fuc=["edge_cmp"], timeout=100,
      note="complete: loop-free, all values of (u, v) and of the kinds"),
  Job("c19.set_edge_ptrs.loops", "c19_edges.c", "h_set_edge_ptrs_lc", kind="bounded", replace_calls=["exit:verif_exit"],
      loops=L_EP, loop_counts={"dr_pi_dag_set_edge_ptrs": 3}, cbmc=["--unwind", str(LC_M + 3), "--unwinding-assertions", "--sat-solver", "cadical"], defines=["-DLC_N=%d" % LC_N, "-DLC_M=%d" % LC_M],
      fuc=["dr_pi_dag_set_edge_ptrs"], timeout=750,
      note="loop contracts on the three loops of the function (nothing unwound in it); bounded only by the harness arrays: n <= %d nodes, m <= %d edges" % (LC_N, LC_M)),
] + [
  Job("c19.wf_replay.s%d.bounded" % sc, "c19_dag.c", "h_wf_replay", kind="bounded", replace_calls=LIBC_DAG,
      cbmc=["--unwind", "50", "--unwinding-assertions", "--sat-solver", "cadical"], defines=["-DDAG_SCEN=%d" % sc],
      fuc=["dr_pi_dag_enum_edges", "dr_pi_dag_sort_edges", "dr_pi_dag_set_edge_ptrs", "dr_pi_dag_chronological_traverse"], timeout=600,
      note="bounded: one concrete DAG of 14 nodes with a concrete serial schedule, contraction state at record time: %s" % what)
  for sc, what in SCENS
] + [
  Job("c19.copy.s%d.c%d.bounded" % (sc, cs), "c19_dag.c", "h_copy", kind="bounded", replace_calls=LIBC_DAG,
      cbmc=["--unwind", "30", "--unwinding-assertions", "--sat-solver", "cadical"], defines=["-DDAG_SCEN=%d" % sc, "-DCOPY_SCEN=%d" % cs],
      fuc=["dr_copy_pi_dag", "dr_pi_dag_copy_and_prune_nodes", "dr_pi_dag_enum_edges", "dr_pi_dag_set_edge_ptrs", "dr_string_table_flatten"], timeout=750,
      note="bounded: the same DAG, record-time state: %s; conversion-time setting: %s" % (what, cwhat))
  for sc, what in SCENS for cs, cwhat in ((0, "keep everything"), (1, "contract one-worker sections"), (2, "contract everything shorter than 7 clocks"))
] + [
  Job("c19.make.s%d.bounded" % sc, "c19_dag.c", "h_make", kind="bounded",
      replace_calls=["malloc:verif_malloc_mk", "free:verif_free", "memset:verif_memset", "qsort:verif_qsort", "exit:verif_exit"],
      cbmc=["--unwind", "30", "--unwinding-assertions", "--sat-solver", "cadical"], defines=["-DDAG_SCEN=%d" % sc],
      fuc=["dr_make_pi_dag", "dr_pi_dag_enum_nodes", "dr_dag_count_nodes", "dr_copy_dag_node_1", "dr_copy_children_nodes", "dr_string_table_intern",
           "dr_pi_dag_enum_edges", "dr_pi_dag_set_edge_ptrs", "dr_string_table_flatten"], timeout=600,
      note="bounded: the pointer-based DAG of the same 14-node shape as the recorder leaves it, contraction state at record time: %s" % what)
  for sc, what in SCENS
]
META = {
 "level": "other",
 "level_text": "Decided by proof (all inputs up to a stated arithmetic bound): (a) the file writer dr_pi_dag_dump and the mmap reader dr_read_dag agree on the "
               "layout -- the reader's n, m, start_clock, num_workers are the written ones, its T, E, S point at exactly the file offsets where the writer put "
               "T, E, S, its S->I / S->C point where the string-table builder lays out the index table and the characters, the total size written is "
               "header_sz + n*sizeof(node) + m*sizeof(edge) + S->sz, for every n, m, string count and string-table size with a file of at most 2^48 bytes; "
               "(b) edge_cmp is the sign of the lexicographic comparison of (u, v) over all long values (total preorder; sorted by it implies grouped by source). "
               "Bounded (NOT counted as proved): the layout dr_string_table_flatten produces (<= 8 strings, each shorter than 4096 bytes); "
               "dr_pi_dag_set_edge_ptrs gives every node exactly the edges whose source it is (loop contracts on its three loops; harness arrays of 4 nodes / 16 edges); "
               "(c) on one concrete 14-node DAG in four record-time contraction states: every edge dr_pi_dag_enum_edges emits has both endpoints inside the DAG, "
               "edges are grouped by source with exact per-node ranges, and all child / subgraph offsets produced by the recorder-side flattening dr_make_pi_dag and "
               "by the conversion dr_copy_pi_dag (three conversion-time settings) refer to nodes inside the DAG; shrinking preserves the root's totals, and every node of the copy / of the flattened DAG has start and end file indices inside the NEW string table that name the same strings as in the source; "
               "(d) dr_pi_dag_chronological_traverse makes every leaf ready, started and ended exactly once, in chronological order, and ends with nothing ready or running.",
 "level_note": "Byte preservation by the file system and mmap is an ASSUMPTION (the ghost file keeps exactly the bytes the reader inspects). 'Dumping and reading back "
               "yields an identical DAG' therefore means: identical counts and identical placement of T, E, S, I, C over the same bytes. libc qsort is trusted. "
               "The general (all DAGs) forms of clauses (c) and (d) are NOT decided: they need inductive heap predicates over unbounded graphs. "
               "Not decided at all: dag2any's command line / output formats, gen_stat / dot / gpl / text writers, dr_read_and_analyze_dag_.",
 "trusted_base": ["cbmc 6.11.0 (goto-cc, goto-instrument --dfcc for the loop-contract job, SAT back end CaDiCaL)", "gcc -E preprocessing of the real sources",
                  "libc qsort (sorts with respect to a comparator that is a total preorder)", "file system + mmap preserve bytes"],
 "explanation": "contracts/c19_file.c includes the real dr_dump.c and read_dag.c. fwrite is a stub that records (offset, source, size) of each call in ghost variables; "
                "open/read/lseek/mmap/close are stubs that serve the four counts from a ghost header and hand out a mapping address; harness assertions compare what the "
                "reader computed with what the writer recorded (loop-free apart from strcmp on the 45-byte version line, unwound to that constant). "
                "contracts/c19_edges.c: loop-free lemmas on the real edge_cmp; the real dr_pi_dag_set_edge_ptrs under loop contracts with witnesses (node w, edge k). "
                "contracts/c19_dag.c includes the real dr_dump.c and chronological.c and runs dr_make_pi_dag, enum_edges + sort + set_edge_ptrs, dr_copy_pi_dag and "
                "the chronological traverse on one concrete DAG; an observer passed as chronological_traverser counts the events per node.",
 "assumptions": [
   "ASSUMPTION (file system / mmap): the bytes handed to fwrite appear at the same offsets in the mapping. Implemented for the bytes the reader inspects: the first 77 bytes (version line, n, m, start_clock, num_workers) and the 32-byte string table header at the offset of the last write; every other byte of the mapping does not exist as memory in the model (a reader touching it fails a pointer obligation)",
   "MODEL (mapping): mmap returns the address `&WIN - offset_of_last_write`, a pointer whose offset lies outside its object until the reader adds the offset of S; CBMC compares (object, offset) pairs exactly and checks dereferences only; pointer arithmetic that leaves an object is not flagged (no --pointer-overflow-check) -- T at file offset 77 is also misaligned for its type, which CBMC does not check and x86-64 tolerates",
   "BOUND (file job, complete up to it): file size <= 2^48 bytes (n <= 2^48/432, m <= 2^48/24, string table <= 2^48 bytes): keeps the 64-bit size arithmetic and CBMC's 52-bit pointer offsets from wrapping. No other bound on n, m, S->n, S->sz",
   "STUB fwrite (body): checks the stream, at most 8 calls, records offset / source / byte count, may return a short count (then the writer must report failure); returns 0 for a write of zero bytes (size or count zero, C11 7.21.8.2) -- the writer must still report success and go on to the next item (DAG of the root only: m == 0); that each source holds size*count readable bytes is NOT checked there: T, E hold n, m elements by allocation (enum_nodes / enum_edges), S holds S->sz bytes by the flatten job (S->sz == allocated size)",
   "STUBS open (defined directly, libc's is variadic), read, lseek, mmap, close (bodies): open/read/mmap may fail or read short (then the reader must return 0); read serves only the 77 header bytes; lseek answers position queries; mmap demands the whole file from offset 0, MAP_PRIVATE and PROT_READ|PROT_WRITE (the reader patches S->I, S->C in the mapping); close must be called once on every path",
   "STUB malloc (file job): the reader's one request returns a static dr_pi_dag; memory exhaustion is outside the property. exit() is a stub whose reachability (a failing dr_check) is an obligation; fprintf / strerror body-less; verbose_level = dbg_level = 0; chk_level nondeterministic",
   "--conversion-check is switched off in the file job only: dr_read_dag compares the ssize_t result of read (possibly -1) with a size_t; the conversion to SIZE_MAX is defined and intended. Suggested entry for contracts/benign_obligations.txt: `C19<TAB>dr_read_dag: arithmetic overflow on signed to unsigned type conversion in \\(unsigned long int\\)r<TAB>read() == -1 compared with sizeof: defined conversion, takes the error path`",
   "BOUND (kind=bounded) string table builder: at most 8 strings (cells of the linked list in a static array), each of any length below 4096 (PATH_MAX); strlen / strcpy are stubs (strlen returns the ghost length of the string, strcpy records the destination), malloc returns one static object and records the requested size. The intern / find / append side (duplicate detection by strcmp) runs only in the concrete DAG jobs",
   "BOUND (kind=bounded) dr_pi_dag_set_edge_ptrs: proved with loop contracts (base + step of three invariants for arbitrary loop states), but the preconditions 'every source in [0, n)' and 'sorted by source as seen from the witness edge' are spelled out over harness arrays of 4 nodes and 16 edges, so n <= 4, m <= 16 (larger node arrays exhaust the SAT back end: 432-byte nodes with unions under --dfcc). Precondition n >= 1; with n == 0 the function would write T[-1] (a DAG always has its root). Termination of the loops is not proved (no decreases clause)",
   "TRUSTED libc qsort: in the concrete jobs a stub (insertion sort calling the given comparator); that qsort sorts for any total preorder is the C standard's contract, and edge_cmp being one is the lemma job",
   "BOUND (kind=bounded) clauses (c), (d), 'shrinking preserves totals': ONE concrete DAG of 14 nodes, as position-independent array in the layout of dr_pi_dag_enum_nodes (replay, conversion) and as the pointer-based DAG the recorder leaves (dr_make_pi_dag; absolute clocks 100..111, contracted sections = emptied child lists) (root task -> section A{create->c1, other, create->c2, wait}, other, section B{create->c3, wait}, end) with a concrete serial schedule of the leaves (clock 0..11), four record-time contraction states of A / B, resume kinds after the waits fixed per state (both kinds occur); file names: three in the conversion jobs, 'a.c' (first in the original's table) occurring only in the three nodes below section B, which conversion settings 1 and 2 prune, so that every other name changes its index in the copy's table; two in the flattening job; most nodes start and end in the same file, some not; work / critical path / counters / counts nondeterministic. chk_level = 1 in these jobs. Three conversion-time settings for dr_copy_pi_dag: keep everything; contract one-worker sections (collapse_max); contract everything shorter than 7 clocks (uncollapse_min); collapse_max_count = 0 (the count-based policy is not exercised)",
   "STUBS (concrete DAG jobs): malloc serves each request from a typed static pool (planned order in the conversion / replay jobs, by size in the flattening job; stack cells and child arrays of at most 32 bytes are fresh dynamic objects there); free is a no-op (double free / leaks not decided); memset is a typed clear of one edge / of the node array",
   "In the replay job the observer is the only function whose address matches chronological_traverser.process_event; events are compared by node index, kind and time; ties in time are broken by the real heap",
   "NOT DECIDED (clause of the property): 'identical DAG' beyond counts and placement, i.e. the contents of T, E and of the string characters after a round trip (byte preservation is assumed, not proved); the #if 0 size cross-check in dr_read_dag; behaviour on a truncated or foreign file whose header happens to match (the reader trusts n, m and S->n)",
   "NOT DECIDED (clause of the property): for ALL recorded executions -- offsets from dr_pi_dag_enum_nodes / dr_copy_children_nodes, endpoints from dr_pi_dag_enum_edges, 'every leaf is reachable', the chronological replay, preservation of totals by the shrinking copy: decided only on the concrete DAG above (bounded). The event queue's growth path (more than 100 pending events) and heap order with arbitrary time stamps are not exercised",
   "NOT DECIDED: src/profiler/dag2any/dag2any.c (option parsing, output selection), gen_stat.c / dot / gpl / text generators on a re-read DAG, dr_gen_pi_dag's fopen/fclose handling, dr_destroy_pi_dag, per-worker attribution, counters interpolation",
 ],
}
