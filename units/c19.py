from vf import Job, SAFETY
NOCONV = [x for x in SAFETY if x != "--conversion-check"]
IO = ["fwrite:verif_fwrite", "read:verif_read", "lseek:verif_lseek", "mmap:verif_mmap", "close:verif_close", "exit:verif_exit", "malloc:verif_malloc_g"]
# ---- loop contracts for dr_pi_dag_set_edge_ptrs (goto order: 0 = inner while (i < u), 1 = for (j), 2 = tail while (i < n - 1))
LC_N, LC_M = 4, 16
# the witness node g_w is symbolic, but the invariants read the node array at CONSTANT indices ((g_w == 3 ==> ... LN[3] ...)):
# a read LN[g_w].f of the 432-byte node type costs a multiplexer over the whole array each time
def PB(jj): return "(" + " && ".join("(g_w == %d ==> (0 <= LN[%d].edges_begin && LN[%d].edges_begin <= %s && (g_w != 0 || LN[0].edges_begin == 0) && (m == 0 || ((LN[%d].edges_begin <= g_k) == (LE[g_k].u >= g_w)))))" % (w, w, w, jj, w) for w in range(LC_N)) + ")"
def PE(jj): return "(" + " && ".join("(g_w == %d ==> (LN[%d].edges_begin <= LN[%d].edges_end && LN[%d].edges_end <= %s && (m == 0 || ((g_k < LN[%d].edges_end) == (LE[g_k].u <= g_w))) && LN[%d].edges_begin == LN[%d].edges_end))" % (w, w, w, w, jj, w, w + 1, w) for w in range(LC_N)) + ")"
SEEN = "(m == 0 || g_k >= j || LE[g_k].u <= i)"          # every edge already passed has its source <= i
SM = "i,dr_pi_dag_set_edge_ptrs::1::i;j,dr_pi_dag_set_edge_ptrs::1::j;m,dr_pi_dag_set_edge_ptrs::1::m;n,dr_pi_dag_set_edge_ptrs::1::n;u,dr_pi_dag_set_edge_ptrs::1::1::1::u"
L_EP = {"dr_pi_dag_set_edge_ptrs": [
  dict(loop_id="0", assigns="i, __CPROVER_object_whole(LN)", symbol_map=SM,
       invariants="0 <= j && j < m && u == LE[j].u && 0 <= i && i < n && __CPROVER_loop_entry(i) <= i && " + SEEN +
                  " && (g_w <= i ==> " + PB("j") + ") && (g_w < i ==> " + PE("j") + ")"),
  dict(loop_id="1", assigns="i, j, __CPROVER_object_whole(LN)", symbol_map=SM,
       invariants="0 <= j && j <= m && 0 <= i && i < n && " + SEEN + " && (g_w <= i ==> " + PB("j") + ") && (g_w < i ==> " + PE("j") + ")"),
  dict(loop_id="2", assigns="i, __CPROVER_object_whole(LN)", symbol_map=SM,
       invariants="j == m && 0 <= i && i <= n - 1 && (m == 0 || LE[g_k].u <= i) && (g_w <= i ==> " + PB("m") + ") && (g_w < i ==> " + PE("m") + ")"),
]}
LIBC_DAG = ["malloc:verif_malloc_plan", "free:verif_free", "memset:verif_memset", "qsort:verif_qsort", "exit:verif_exit"]
SCENS = ((0, "nothing contracted"), (1, "section A contracted"), (2, "section B contracted"), (3, "both sections contracted"))
JOBS = [
  Job("c19.file.layout", "c19_file.c", "h_file_layout", replace_calls=IO,
      cbmc=["--unwind", "47", "--unwinding-assertions", "--sat-solver", "cadical"], safety=NOCONV, fuc=["dr_pi_dag_dump", "dr_read_dag"], timeout=200,
      note="complete up to the stated file bound"),
  Job("c19.strtab.flatten.bounded", "c19_file.c", "h_strtab_flatten", kind="bounded",
      replace_calls=["malloc:verif_malloc_st", "strlen:verif_strlen", "strcpy:verif_strcpy", "exit:verif_exit"],
      cbmc=["--unwind", "10", "--unwinding-assertions", "--sat-solver", "cadical"], fuc=["dr_string_table_flatten", "dr_pi_dag_set_string_table"], timeout=200,
      note="bounded: at most 8 strings"),
  Job("c19.edge_cmp.lemmas", "c19_edges.c", "h_edge_cmp_lemmas", replace_calls=["exit:verif_exit"], fuc=["edge_cmp"], timeout=100,
      note="complete: loop-free, all values of (u, v) and of the kinds"),
  Job("c19.set_edge_ptrs.loops", "c19_edges.c", "h_set_edge_ptrs_lc", kind="bounded", replace_calls=["exit:verif_exit"],
      loops=L_EP, loop_counts={"dr_pi_dag_set_edge_ptrs": 3}, cbmc=["--unwind", str(LC_M + 3), "--unwinding-assertions", "--sat-solver", "cadical"], defines=["-DLC_N=%d" % LC_N, "-DLC_M=%d" % LC_M],
      fuc=["dr_pi_dag_set_edge_ptrs"], timeout=250,
      note="loop contracts on the three loops of the function (nothing unwound in it); bounded only by the harness arrays: n <= %d nodes, m <= %d edges" % (LC_N, LC_M)),
] + [
  Job("c19.wf_replay.s%d.bounded" % sc, "c19_dag.c", "h_wf_replay", kind="bounded", replace_calls=LIBC_DAG,
      cbmc=["--unwind", "50", "--unwinding-assertions", "--sat-solver", "cadical"], defines=["-DDAG_SCEN=%d" % sc],
      fuc=["dr_pi_dag_enum_edges", "dr_pi_dag_sort_edges", "dr_pi_dag_set_edge_ptrs", "dr_pi_dag_chronological_traverse"], timeout=200,
      note="bounded: one concrete DAG of 14 nodes with a concrete serial schedule, contraction state at record time: %s" % what)
  for sc, what in SCENS
] + [
  Job("c19.copy.s%d.c%d.bounded" % (sc, cs), "c19_dag.c", "h_copy", kind="bounded", replace_calls=LIBC_DAG,
      cbmc=["--unwind", "30", "--unwinding-assertions", "--sat-solver", "cadical"], defines=["-DDAG_SCEN=%d" % sc, "-DCOPY_SCEN=%d" % cs],
      fuc=["dr_copy_pi_dag", "dr_pi_dag_copy_and_prune_nodes", "dr_pi_dag_enum_edges", "dr_pi_dag_set_edge_ptrs", "dr_string_table_flatten"], timeout=250,
      note="bounded: the same DAG, record-time state: %s; conversion-time setting: %s" % (what, cwhat))
  for sc, what in SCENS for cs, cwhat in ((0, "keep everything"), (1, "contract one-worker sections"), (2, "contract everything shorter than 7 clocks"))
]
META = {"level": "other", "assumptions": []}
