from vf import Job, SAFETY
NOCONV = [x for x in SAFETY if x != "--conversion-check"]
IO = ["fwrite:verif_fwrite", "read:verif_read", "lseek:verif_lseek", "mmap:verif_mmap", "close:verif_close", "exit:verif_exit", "malloc:verif_malloc_g"]
JOBS = [
  Job("c19.file.layout", "c19_file.c", "h_file_layout", replace_calls=IO,
      cbmc=["--unwind", "47", "--unwinding-assertions", "--sat-solver", "cadical"], safety=NOCONV, fuc=["dr_pi_dag_dump", "dr_read_dag"], timeout=200,
      note="complete up to the stated file bound"),
  Job("c19.strtab.flatten.bounded", "c19_file.c", "h_strtab_flatten", kind="bounded",
      replace_calls=["malloc:verif_malloc_st", "strlen:verif_strlen", "strcpy:verif_strcpy", "exit:verif_exit"],
      cbmc=["--unwind", "10", "--unwinding-assertions", "--sat-solver", "cadical"], fuc=["dr_string_table_flatten", "dr_pi_dag_set_string_table"], timeout=200,
      note="bounded: at most 8 strings"),
]
META = {"level": "other", "assumptions": []}
