from vf import Job
TU = "c20_sleep_timed.c"
CLOCK_OK = "0 <= g_now_s && g_now_s <= ((1L << 62) - 1) && 0 <= g_now_ns && g_now_ns <= 999999999L"
# polling loop of myth_nanosleep_body: while (1) { hr_gettime(cur); if (gt(cur, unt)) break; myth_yield_body(); }
L_NS = {"myth_nanosleep_body": [dict(loop_id="0",
          assigns="g_now_s, g_now_ns, g_reads, g_need_yield, g_past, g_dl_s, g_dl_ns, g_yield_ever, __CPROVER_object_whole(cur)",
          invariants="(g_reads == 1 || g_reads == 2) && g_need_yield == 0 && g_past == 0 && "
                     "g_dl_s == __CPROVER_loop_entry(g_dl_s) && g_dl_ns == __CPROVER_loop_entry(g_dl_ns) && "
                     "(g_now_s > __CPROVER_loop_entry(g_now_s) || (g_now_s == __CPROVER_loop_entry(g_now_s) && g_now_ns >= __CPROVER_loop_entry(g_now_ns))) && "
                     + CLOCK_OK,
          symbol_map="cur,myth_nanosleep_body::1::cur")]}
# polling loop of myth_timedjoin_body: while (1) { hr_gettime(tp); if (gt(tp, abstime)) return EBUSY; if (tryjoin == 0) return 0; else yield; }
L_TJ = {"myth_timedjoin_body": [dict(loop_id="0",
          assigns="g_now_s, g_now_ns, g_read_ever, g_past, g_must_try, g_try_ever, g_joined, g_finished, g_need_yield, g_yield_ever, __CPROVER_object_whole(tp)",
          invariants="g_try_ever == 1 && g_joined == 0 && g_must_try == 0 && g_need_yield == 0 && g_past == 0 && "
                     "(g_finished == 0 || g_finished == 1) && 0 <= g_now_ns && g_now_ns <= 999999999L",
          symbol_map="tp,myth_timedjoin_body::1::2::tp")]}
KERNELS = ["myth_timespec_add/timespec_add_contract", "myth_timespec_gt/timespec_gt_contract"]
JOBS = [
  Job("c20.timespec_add", TU, "h_timespec_add", enforce=["myth_timespec_add/timespec_add_contract"],
      fuc=["myth_timespec_add"], timeout=120),
  Job("c20.timespec_gt", TU, "h_timespec_gt", enforce=["myth_timespec_gt/timespec_gt_contract"],
      fuc=["myth_timespec_gt"], timeout=120),
  Job("c20.nanosleep", TU, "h_nanosleep", enforce=["myth_nanosleep_body/nanosleep_contract"],
      replace=KERNELS + ["hr_gettime/gettime_sleep_contract", "myth_yield_body/yield_sleep_contract"],
      loops=L_NS, loop_counts={"myth_nanosleep_body": 1}, fuc=["myth_nanosleep_body"], timeout=200),
  Job("c20.usleep", TU, "h_usleep", replace=["myth_nanosleep_body/nanosleep_contract"], fuc=["myth_usleep_body"], timeout=120),
  Job("c20.usleep.ns.bounded", TU, "h_usleep_ns", replace=["myth_nanosleep_body/nanosleep_contract"], fuc=["myth_usleep_body"], timeout=200,
      kind="bounded", tiers=("quick",), defines=["-DC20_US_MAX=67108863u"],
      note="bounded: usec < 2^26 (67 s); the exact nanosecond part for all 2^32 values is job c20.usleep.ns of the thorough tier"),
  Job("c20.usleep.ns", TU, "h_usleep_ns", replace=["myth_nanosleep_body/nanosleep_contract"], fuc=["myth_usleep_body"], timeout=1500,
      tiers=("thorough",), cbmc=["--external-sat-solver", "kissat"],
      note="all 2^32 values of usec; SAT has to invert a 32-bit divider: about 90 s with kissat on an idle machine"),
  Job("c20.lemma_mul", TU, "h_lemma_mul", timeout=120),
  Job("c20.sleep", TU, "h_sleep", replace=["myth_nanosleep_body/nanosleep_contract"], fuc=["myth_sleep_body"], timeout=120),
  Job("c20.timedjoin", TU, "h_timedjoin", enforce=["myth_timedjoin_body/timedjoin_contract"],
      replace=["myth_timespec_gt/timespec_gt_contract", "hr_gettime/gettime_join_contract",
               "myth_tryjoin_body/tryjoin_contract", "myth_yield_ex_body/yield_join_contract"],
      loops=L_TJ, loop_counts={"myth_timedjoin_body": 1}, fuc=["myth_timedjoin_body"], timeout=200),
  Job("c20.hr_gettime", TU, "h_hr_gettime", replace=["clock_gettime/os_clock_gettime_contract"], fuc=["hr_gettime"], timeout=120),
  Job("c20.yield_body", TU, "h_yield_body", replace=["myth_yield_ex_body/yield_ex_once_contract"], fuc=["myth_yield_body"], timeout=120),
]
META = {
 "level": "proof",
 "level_text": "TODO",
 "level_note": "TODO",
 "trusted_base": [],
 "explanation": "TODO",
 "assumptions": [],
}
