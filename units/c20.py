from vf import Job
TU = "c20_sleep_timed.c"
CLOCK_OK = "0 <= g_now_s && g_now_s <= ((1L << 62) - 1) && 0 <= g_now_ns && g_now_ns <= 999999999L"
# polling loop of myth_nanosleep_body: while (1) { hr_gettime(cur); if (gt(cur, unt)) break; myth_yield_body(); }
L_NS = {"myth_nanosleep_body": [dict(loop_id="0",
          assigns="g_now_s, g_now_ns, g_reads, g_need_yield, g_past, g_dl_s, g_dl_ns, g_yield_ever, __CPROVER_object_whole(cur)",
          invariants="(g_reads == 1 || g_reads == 2) && g_need_yield == 0 && g_past == 0 && "
                     "g_dl_s == __CPROVER_loop_entry(g_dl_s) && g_dl_ns == __CPROVER_loop_entry(g_dl_ns) && "
                     "(g_now_s > __CPROVER_loop_entry(g_now_s) || (g_now_s == __CPROVER_loop_entry(g_now_s) && g_now_ns >= __CPROVER_loop_entry(g_now_ns))) && "
                     + CLOCK_OK,
          symbol_map="cur,myth_nanosleep_body::1::cur")]}
# polling loop of myth_timedjoin_body: while (1) { hr_gettime(tp); if (gt(tp, abstime)) return EBUSY; if (tryjoin == 0) return 0; else yield; }
L_TJ = {"myth_timedjoin_body": [dict(loop_id="0",
          assigns="g_now_s, g_now_ns, g_read_ever, g_past, g_must_try, g_try_ever, g_joined, g_finished, g_need_yield, g_yield_ever, __CPROVER_object_whole(tp)",
          invariants="g_try_ever == 1 && g_joined == 0 && g_must_try == 0 && g_need_yield == 0 && g_past == 0 && "
                     "(g_finished == 0 || g_finished == 1) && 0 <= g_now_ns && g_now_ns <= 999999999L",
          symbol_map="tp,myth_timedjoin_body::1::2::tp")]}
KERNELS = ["myth_timespec_add/timespec_add_contract", "myth_timespec_gt/timespec_gt_contract"]
JOBS = [
  Job("c20.timespec_add", TU, "h_timespec_add", enforce=["myth_timespec_add/timespec_add_contract"],
      fuc=["myth_timespec_add"], timeout=120),
  Job("c20.timespec_gt", TU, "h_timespec_gt", enforce=["myth_timespec_gt/timespec_gt_contract"],
      fuc=["myth_timespec_gt"], timeout=120),
  Job("c20.nanosleep", TU, "h_nanosleep", enforce=["myth_nanosleep_body/nanosleep_contract"],
      replace=KERNELS + ["hr_gettime/gettime_sleep_contract", "myth_yield_body/yield_sleep_contract", "myth_yield_ex_body/yield_ex_sleep_contract"],
      loops=L_NS, loop_counts={"myth_nanosleep_body": 1}, fuc=["myth_nanosleep_body"], timeout=200),
  Job("c20.usleep", TU, "h_usleep", replace=["myth_nanosleep_body/nanosleep_contract"], fuc=["myth_usleep_body"], timeout=120),
  Job("c20.usleep.ns.bounded", TU, "h_usleep_ns", replace=["myth_nanosleep_body/nanosleep_contract"], fuc=["myth_usleep_body"], timeout=200,
      kind="bounded", tiers=("quick",), defines=["-DC20_US_MAX=67108863u"],
      note="bounded: usec < 2^26 (67 s); the exact nanosecond part for all 2^32 values is job c20.usleep.ns of the thorough tier"),
  Job("c20.usleep.ns", TU, "h_usleep_ns", replace=["myth_nanosleep_body/nanosleep_contract"], fuc=["myth_usleep_body"], timeout=1500,
      tiers=("thorough",), cbmc=["--external-sat-solver", "kissat"],
      note="all 2^32 values of usec; SAT has to invert a 32-bit divider: about 90 s with kissat on an idle machine"),
  Job("c20.lemma_mul", TU, "h_lemma_mul", timeout=120),
  Job("c20.sleep", TU, "h_sleep", replace=["myth_nanosleep_body/nanosleep_contract"], fuc=["myth_sleep_body"], timeout=120),
  Job("c20.timedjoin", TU, "h_timedjoin", enforce=["myth_timedjoin_body/timedjoin_contract"],
      replace=["myth_timespec_gt/timespec_gt_contract", "hr_gettime/gettime_join_contract",
               "myth_tryjoin_body/tryjoin_contract", "myth_yield_ex_body/yield_join_contract"],
      loops=L_TJ, loop_counts={"myth_timedjoin_body": 1}, fuc=["myth_timedjoin_body"], timeout=200),
  Job("c20.hr_gettime", TU, "h_hr_gettime", replace=["clock_gettime/os_clock_gettime_contract"], fuc=["hr_gettime"], timeout=120),
  Job("c20.yield_body", TU, "h_yield_body", replace=["myth_yield_ex_body/yield_ex_once_contract"], fuc=["myth_yield_body"], timeout=120),
]
# the timed-lock half of C20 is under contract in the mutex unit (same protocol word): part of this check
import units.c04 as _c04
JOBS += [j for j in _c04.JOBS if j.name in ("c04.timedlock", "c04.trylock")]
# the public API functions are one-line forwarders to the bodies under contract: checked mechanically (DESIGN §3.5b)
from units.common_forward import forward_job
JOBS = list(JOBS) + [forward_job("c20")]
META = {
 "level": "proof",
 "level_text": "Contracts enforced on the real bodies of myth_timespec_add, myth_timespec_gt, myth_nanosleep_body and myth_timedjoin_body (polling loops closed by loop contracts, so any number of clock readings), myth_usleep_body / myth_sleep_body checked against the proved nanosleep contract, hr_gettime and myth_yield_body against their callees; for all requests, deadlines and clock behaviours (ghost clock: monotone, otherwise arbitrary). The exact nanosecond part of the usleep conversion is a bounded stand-in (usec < 2^26) in the quick tier and complete (all 2^32 values, kissat) in the thorough tier.",
 "level_note": "Trusted: cbmc 6.11 (dfcc contract and loop-contract instrumentation, SAT back end; kissat 'external' for one thorough job), gcc -E; the clock is assumed monotone and below 2^62 s, requests below 2^62 s (beyond that the deadline addition overflows in /repo -- reported finding); 'lets other threads run' is decided only as 'yields once per unsuccessful poll'; termination of the polling loops (clock progress) and the timedlock half (unit C04) are not decided here.",
 "trusted_base": ["cbmc 6.11.0 (goto-cc, goto-instrument --dfcc --enforce-contract / --replace-call-with-contract / --apply-loop-contracts, SAT back end MiniSat2)",
                  "kissat as external SAT solver for the thorough-tier job c20.usleep.ns",
                  "gcc -E preprocessing of the real headers (rules R1, R2)",
                  "paper steps: (a) instantiation of the ghost request g_req by the enforcing harness = ghost prologue of nanosleep_contract; "
                  "(b) use of the separately proved lemma c20.lemma_mul as two assumed hint instances in c20.usleep"],
 "explanation": "Ghost clock + call-protocol ghosts. hr_gettime is replaced by a contract (returns 0, normalised, monotone, otherwise arbitrary reading); "
                "the first reading of a sleep fixes the ghost deadline start + request in carry form; every later reading that is not strictly past the "
                "deadline owes exactly one yield (precondition of the next reading / of the yield); nanosleep returns EINVAL iff the duration is malformed and "
                "before any reading (reading requires a well-formed request), and 0 only when the last reading was strictly past the deadline. usleep / sleep: "
                "the request handed to nanosleep is exactly the specified duration (usec = s*10^6 + us -> s seconds, us*1000 ns; s seconds, 0 ns). timedjoin: "
                "myth_tryjoin_body by contract (0 iff the target has finished at that attempt; the target may finish at any moment); first attempt before the first "
                "reading, an attempt after every reading within the deadline, a yield between a failed polling attempt and the next reading, no attempt after a "
                "success; non-zero (any error: the code returns EBUSY, POSIX would say ETIMEDOUT -- observation, accepted by the statement) only after a reading "
                "strictly later than abstime; 0 iff an attempt succeeded. myth_timespec_add: exact normalised sum in carry form for all normalised inputs whose "
                "tv_sec sum is representable; myth_timespec_gt: strict lexicographic order for all long values.",
 "assumptions": [
   "hr_gettime is used by contract in the sleep/join jobs: returns 0, 0 <= tv_nsec <= 999999999, reading not earlier than the previous one (MONOTONE clock), otherwise arbitrary. "
   "The real hr_gettime reads CLOCK_REALTIME (proved in c20.hr_gettime), which the administrator can set backwards: then a sleep may last longer than requested, never shorter than the deadline reading",
   "clock_gettime (OS) is a stub by contract in c20.hr_gettime (writes *ts, returns a status); in the other jobs its failure (non-zero return, which myth_nanosleep_body ignores and myth_timedjoin_body asserts away) is assumed not to happen",
   "stated bounds: the clock reads 0 <= tv_sec < 2^62 and the requested tv_sec is < 2^62, so that start + request is representable. Without the bound the obligation "
   "timespec_add_contract.precondition (and the signed-overflow checks on a->tv_sec + b->tv_sec) FAIL: myth_nanosleep({LONG_MAX,0}) overflows in myth_timespec_add and returns 0 immediately "
   "(reproduced natively; diagnostic build: -DC20_FULL_REQ_RANGE on job c20.nanosleep). Reported to the lead as a finding, not repaired",
   "myth_yield_body / myth_yield_ex_body are stubs by contract (a yield happened; in the join job the target may finish during it). That the yield really runs another runnable thread is C01/C02; "
   "'let other runnable threads use the worker' is decided only as 'exactly one yield per unsuccessful deadline reading'",
   "myth_tryjoin_body is a stub by contract (C13): returns 0 iff the target has finished at the attempt, else EBUSY; finishing is monotone; delivery of the result through the pointer is its business -- "
   "timedjoin is only required to pass th and result through unchanged",
   "timedjoin reports the timeout as EBUSY where POSIX pthread_timedjoin_np says ETIMEDOUT: accepted ('a timeout error' = any non-zero value), recorded as an observation",
   "abstime of timedjoin is arbitrary (any two long values, also tv_nsec outside [0, 10^9)): the code does not validate it and the statement does not ask for it; comparison is lexicographic",
   "ghost prologue: nanosleep_contract names the request g_req; the enforcing harness sets g_req := *req before the call, users of the contract obtain g_req == *req from its first ensures clause",
   "c20.usleep assumes two instances of the monotonicity lemma proved for all a, b <= 4294 in c20.lemma_mul (a < b ==> a*10^6 + 10^6 <= b*10^6 in unsigned 32-bit), after proving the cut 0 <= tv_sec <= 4294; "
   "without the hints SAT has to invert the 32-bit divider and does not finish in the quick budget",
   "c20.usleep.ns.bounded (quick tier): exact nanosecond part only for usec < 2^26, labelled bounded; c20.usleep.ns (thorough tier, kissat, about 90 s) covers all 2^32 values",
   "termination of the two polling loops is not decided (no decreases clause: it depends on the clock advancing); liveness of the sleeping thread (that it is resumed after the yield) is scheduler fairness",
   "the public entry points myth_nanosleep / myth_usleep / myth_sleep / myth_timedjoin (src/myth_if_native.c) are one-line forwarders to the bodies (DESIGN 3.5b), not re-checked here",
   "myth_mutex_timedlock_body is checked in unit C04 (job c04.timedlock)",
   "rem of myth_nanosleep is never written (the sleep cannot be interrupted): proved as a frame condition, not an assumption",
 ],
}
# Mutations in selftest/C20 (all CAUGHT): add_no_carry, gt_non_strict, nanosleep_nsec_edge (accepts tv_nsec == 10^9),
# nanosleep_no_yield (busy-waits), nanosleep_stale_start (deadline computed before the clock is read),
# usleep_wrong_factor (us * 100), timedjoin_clock_before_first_try, timedjoin_timeout_swallows_join.
