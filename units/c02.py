from vf import Job
TU = "c02_wsqueue.c"
LOCKS = ["myth_wsqueue_lock_lock/lock_contract", "myth_wsqueue_lock_unlock/unlock_contract", "myth_wsqueue_lock_trylock/trylock_contract",
         "verif_memmove/verif_memmove", "abort/abort_contract"]
def seq_jobs(qmax, tiers, suffix, to):
    d = ["-DQMAX=%d" % qmax]
    # the operations are loop free (memmove is a contract); the unwinding bound only matters if a change introduces a
    # loop over the queue storage: in the quick tier (capacity 64) such a loop is then fully unwound and decided
    uw = ["--unwind", str(qmax + 6), "--unwinding-assertions"] if qmax <= 64 else []
    n = "queue capacity symbolic in [2, %d]" % qmax
    mem = 4 if qmax <= 64 else 12
    return [
      Job("c02.push" + suffix, TU, "h_push", replace=LOCKS, defines=d, cbmc=uw, tiers=tiers, fuc=["myth_queue_push"], timeout=to, mem_gb=mem, note=n),
      Job("c02.pop" + suffix, TU, "h_pop", replace=LOCKS, defines=d, cbmc=uw, tiers=tiers, fuc=["myth_queue_pop"], timeout=to, mem_gb=mem, note=n),
      Job("c02.take" + suffix, TU, "h_take", replace=LOCKS, defines=d, cbmc=uw, tiers=tiers, fuc=["myth_queue_take"], timeout=to, mem_gb=mem, note=n),
      Job("c02.peek" + suffix, TU, "h_peek", replace=LOCKS, defines=d, cbmc=uw, tiers=tiers, fuc=["myth_queue_peek"], timeout=to, mem_gb=mem, note=n),
      Job("c02.put" + suffix, TU, "h_put", replace=LOCKS, defines=d, cbmc=uw, tiers=tiers, fuc=["myth_queue_put"], timeout=to, mem_gb=mem, note=n),
      Job("c02.trypass" + suffix, TU, "h_trypass", replace=LOCKS, defines=d, cbmc=uw, tiers=tiers, fuc=["myth_queue_trypass"], timeout=to, mem_gb=mem, note=n),
    ]
HS = ["myth_wsqueue_rwbarrier/fence_contract", "myth_wsqueue_lock_lock/lock_contract", "myth_wsqueue_lock_unlock/unlock_contract", "env_thieves/env_thieves"]
INITCLR = [
  Job("c02.init", TU, "h_init", replace=["myth_wsqueue_lock_init/lock_init_contract"], fuc=["myth_queue_init", "myth_malloc"], timeout=300, mem_gb=12,
      note="the real capacity INITIAL_QUEUE_SIZE (131072 cells, 1 MB memset by CBMC's built-in model, which is cheap only when the whole object is set); every cell NULL by ghost witness. "
           "Tool limit: a memset of PART of the storage (mutation tried: length without sizeof) crashes cbmc or does not finish -> exit 2 (undecided), not a verdict; "
           "typed static storage and a havoc-with-witness stub were tried and ran out of memory"),
  Job("c02.clear", TU, "h_clear", replace=["myth_wsqueue_lock_lock/lock_quiescent_contract"] + LOCKS[1:], fuc=["myth_queue_clear"], timeout=300),
  Job("c02.pass", TU, "h_pass", replace=["myth_queue_trypass/trypass_contract"], loops={"myth_queue_pass": [dict(loop_id="0", assigns="g_tp_calls, g_tp_ok, ret", invariants="g_tp_ok == 0", symbol_map="ret,myth_queue_pass::1::ret")]},
      loop_counts={"myth_queue_pass": 1}, fuc=["myth_queue_pass"], timeout=300),
]
JOBS = INITCLR + seq_jobs(64, ("quick",), "", 300) + seq_jobs(512, ("thorough",), ".512", 1800) + [
  Job("c02.pop_vs_thieves", "c02_handshake.c", "h_pop_vs_thieves", replace=HS, defines=["-DQMAX=64"], cbmc=["--unwind", "70", "--unwinding-assertions"],
      fuc=["myth_queue_pop"], timeout=300, tiers=("quick",),
      note="owner pop against the exact SC model of all concurrent thieves; capacity symbolic in [2,64]"),
  Job("c02.pop_vs_thieves.full", "c02_handshake.c", "h_pop_vs_thieves", replace=HS, defines=["-DQMAX=4096"], cbmc=["--unwind", "4100", "--unwinding-assertions"],
      fuc=["myth_queue_pop"], timeout=1800, mem_gb=16, tiers=("thorough",), note="as above, capacity symbolic in [2,4096]"),
]
JOBS += [
  Job("c02.wsapi_peek", "c02_wsapi.c", "h_wsapi_peek", defines=["-DQMAX=64", "-DVICTIM=1"],
      replace=["myth_wsqueue_lock_unlock/unlock_contract"], replace_calls=["myth_wsqueue_lock_trylock:verif_pk_trylock"],
      cbmc=["--unwind", "3", "--unwinding-assertions"], fuc=["myth_wsapi_runqueue_peek", "myth_wsapi_get_hint_size", "myth_wsapi_get_hint_ptr"], timeout=300,
      note="the retry after a busy lock happens at most once in the model, the sequence re-read loop runs without a concurrent cache writer (both loops then end within the unwinding bound, unwinding assertions on); hint of 0 or 8 bytes"),
]
JOBS += [
  Job("c02.wsapi_take.victim%d" % v, "c02_wsapi.c", "h_wsapi_take", defines=["-DQMAX=64", "-DVICTIM=%d" % v],
      replace=["myth_wsqueue_lock_trylock/trylock_contract", "myth_wsqueue_lock_unlock/unlock_contract", "myth_wsqueue_lock_lock/relock_contract"],
      restrict_fp=["myth_wsapi_runqueue_take.function_pointer_call.1/verif_decide"], cbmc=["--unwind", "5"],
      fuc=["myth_wsapi_runqueue_take"], timeout=300, note="victim worker %d of 2" % v) for v in (0, 1)
]
THS = ["myth_wsqueue_rwbarrier/ofence_contract", "myth_wsqueue_lock_lock/tlock_contract", "myth_wsqueue_lock_unlock/tunlock_contract", "env_owner/env_owner"]
JOBS += [
  Job("c02.take_vs_owner", "c02_handshake.c", "h_take_vs_owner", replace=THS, read_hooks=[("top", "verif_rd_top")], defines=["-DQMAX=64"],
      cbmc=["--unwind", "70", "--unwinding-assertions"], fuc=["myth_queue_take"], timeout=300,
      note="thief take against the exact SC model of the owner (push, lock-free pop fast path, pop blocked on the lock); capacity symbolic in [2,64]"),
]
SCHED = "c02_sched.c"
L_SCHED = {"myth_sched_loop": [dict(loop_id="0",
    assigns="next_run, g_pending, g_pending_ever, g_resumed_ever, g_steals, ENVS[1].this_thread, ENVS[1].exit_flag, TH1.status, TH1.env, g_ctx_saved, g_switch_to, g_switch_count",
    invariants="g_pending == 0 && ENVS[1].this_thread == 0 && g_me == 1",
    symbol_map="next_run,myth_sched_loop::1::2::next_run")]}
JOBS += [
  Job("c02.sched_loop", SCHED, "h_sched_loop", loops=L_SCHED, loop_counts={"myth_sched_loop": 1},
      replace=["verif_suspend_resume/sched_resume_contract", "myth_internal_barrier_wait/barrier_wait_contract"],
      replace_calls=["myth_queue_pop:verif_pop"], restrict_fp=["myth_sched_loop.function_pointer_call.1/verif_steal"],
      fuc=["myth_sched_loop"], timeout=300),
  Job("c02.default_steal", SCHED, "h_default_steal", replace=["myth_random/random_contract"], replace_calls=["myth_queue_take:verif_take"],
      fuc=["myth_default_steal_func", "myth_env_get_first_busy"], timeout=300),
  Job("c02.yield", SCHED, "h_yield", replace=["verif_suspend_resume/yield_resume_contract", "myth_queue_put/put_contract", "myth_queue_push/push_hot_end_contract",
                                              "myth_ensure_init/ensure_init_contract", "myth_random/random_contract2"],
      replace_calls=["myth_queue_pop:verif_pop"],
      restrict_fp=["myth_yield_ex_body.function_pointer_call.%d/verif_steal" % k for k in (1, 2, 3, 4, 5)],
      fuc=["myth_yield_ex_body", "myth_yield_ex_1"], timeout=300),
]
# the public API functions are one-line forwarders to the bodies under contract: checked mechanically (DESIGN 3.5b)
from units.common_forward import forward_job
JOBS = list(JOBS) + [forward_job("c02")]
META = {
 "level": "proof",
 "level_text": "Sequential contracts on the real run-queue operations against the abstract view ptr[base..top): length change, position of the new/removed element, preservation of every other element (witness index) also across re-centring, well-formedness, lock protocol; capacity symbolic in [2, 64] in the quick tier and [2, 512] in the thorough tier (the operations are loop free, the capacity enters only through index arithmetic; 2048 and the real 131072 did not finish); owner pop against an exact SC model of thieves and thief take against the owner (hand-shake on base/top with the fence as interference point); the scheduler glue (sched_loop, default steal, yield) resumes every obtained thread exactly once; init at the real capacity, clear, pass.",
 "level_note": "Trusted: cbmc 6.11, memmove by contract (witness), the queue lock by contract (C04 proves the spin lock). x86-TSO store buffering and fence strength are outside contracts; liveness not decided.",
 "trusted_base": ["cbmc 6.11.0 (goto-cc, goto-instrument --dfcc, SAT back end)", "gcc -E of the real headers"],
 "explanation": "work-stealing queue: sequential contracts + owner/thief hand-shake under SC interference",
 "assumptions": [
   "memmove replaced by a contract with a witness cell (sound weakening of the C standard's specification)",
   "the queue spin lock by contract (proved in C04 jobs c04.spin.*)",
   "a completely full queue (131072 runnable threads on one worker) makes the library abort: excluded",
   "sequentially consistent memory; x86-TSO store buffering (the reason the fence is an xchg) is not modelled, so fence placement/strength is not policed",
   "termination on any number of workers (liveness) not decided",
   "capacity: the symbolic capacity is bounded by 64 (quick) / 512 (thorough); the real capacity 131072 is used only in the init job",
   "myth_queue_clear runs at worker start-up / shut-down only: no interference while it holds the lock",
 ],
}
