"""C13 -- each thread is reaped exactly once and reaping recycles its resources.

The clauses of C13 are carried by contracts that live in other units' harnesses (the same real functions serve several
properties); this unit composes them into C13's check:
  reaping exactly once, by join / try-join / detach (before or after the finish)      c12.join, c12.tryjoin, c12.detach, c12.join_1
  the finisher's half of the hand-over (detached: releases itself; else FREE_READY2)   c12.entry_point_1/2, c12.cleanup
  detach state requested through the attribute at creation                             c01.create (NEW.detached == attribute's detach state), c01.attr_*
  try-join reports busy exactly when the target has not finished                       c12.tryjoin
  timed-join does not give up before its deadline                                      c20.timedjoin
  reaping makes record and stack available for reuse (one-cycle contract)              c12.desc, c12.stack.default, c12.stack.custom, c12.freelist.*
"""
from vf import Job
import units.c12 as _c12
import units.c01 as _c01
import units.c20 as _c20
_want12 = ("c12.join", "c12.tryjoin", "c12.detach", "c12.join_1", "c12.entry_point_1", "c12.entry_point_2", "c12.cleanup",
           "c12.desc", "c12.stack.default", "c12.stack.custom", "c12.freelist.push", "c12.freelist.pop", "c12.freelist.lifo")
JOBS = [j for j in _c12.JOBS if j.name in _want12] + \
       [j for j in _c01.JOBS if j.name in ("c01.create", "c01.attr_init", "c01.attr_setters")] + \
       [j for j in _c20.JOBS if j.name.startswith("c20.timedjoin") or j.name in ("c20.timespec_gt", "c20.timespec_add", "c20.hr_gettime")]   # the deadline helpers timedjoin is proved against
# the public API functions are one-line forwarders to the bodies under contract: checked mechanically (DESIGN §3.5b)
from units.common_forward import forward_job
JOBS = list(JOBS) + [forward_job("c13")]
META = {
 "level": "proof",
 "level_text": "Composition of the contracts on the real join / try-join / timed-join / detach bodies, on the finisher callbacks, on creation with a detach-state attribute and on the record/stack free lists: a thread's record is released exactly once by exactly one reaper, only when the finisher has made its last access; a detached thread releases itself; released records and default stacks go back to the executing worker's free lists, from which the next creation takes them (one-cycle contract; induction over cycles on paper).",
 "level_note": "Trusted: as in C12 / C01 / C20 (cbmc 6.11, context-switch stubs, spin lock by ledger stubs, single reaper per thread). 'Runs in bounded memory' is the one-cycle recycling contract plus a paper induction; resident-set growth as such is not decided.",
 "trusted_base": ["cbmc 6.11.0 (goto-cc, goto-instrument --dfcc, SAT back end)", "paper induction over create/reap cycles from the one-cycle contract"],
 "explanation": "reaping protocol and recycling, composed from C12/C01/C20 jobs",
 "assumptions": [
   "a thread has a single reaper (joining a thread twice, or joining a detached thread, is a usage error)",
   "the pthread attribute translation (PTHREAD_CREATE_DETACHED -> detach state) is checked in C16",
   "mmap returns fresh memory; with one worker the free lists are used by that worker only",
   "see the assumptions of C12, C01 and C20 for the imported jobs",
 ],
}
