from vf import Job
TU = "c08_uncond.c"
JOBS = [
  Job("c08.wait", TU, "h_uncond_wait", replace=["verif_suspend_resume/suspend_resume_contract"], replace_calls=["myth_queue_pop:verif_pop"],
      fuc=["myth_uncond_wait_body", "myth_uncond_wait_cb"], timeout=200),
  Job("c08.init", TU, "h_uncond_init", fuc=["myth_uncond_init_body"], timeout=100),
  Job("c08.signal.bounded", TU, "h_uncond_signal", kind="bounded", replace=["myth_queue_push/push_contract"], replace_calls=["myth_yield_body:verif_yield_sig"],
      read_hooks=[("th", "verif_rd_th")], cbmc=["--unwind", "6", "--unwinding-assertions"], defines=["-DSPIN_K=3"],
      fuc=["myth_uncond_signal_body"], timeout=200, tiers=("quick",),
      note="bounded: the waiter registers itself before the call or within 3 polls of the signaller's spin (the spin body is a plain re-read)"),
  Job("c08.signal.k8.bounded", TU, "h_uncond_signal", kind="bounded", replace=["myth_queue_push/push_contract"], replace_calls=["myth_yield_body:verif_yield_sig"],
      read_hooks=[("th", "verif_rd_th")], cbmc=["--unwind", "12", "--unwinding-assertions"], defines=["-DSPIN_K=8"],
      fuc=["myth_uncond_signal_body"], timeout=900, tiers=("thorough",),
      note="bounded: the waiter registers itself before the call or within 8 polls of the signaller's spin (the spin body is a plain re-read)"),
]
JOBS = list(JOBS) + [
  Job("c08.signal.no_early_return", TU, "h_uncond_signal_no_early_return", replace=["myth_queue_push/push_any_contract"],
      replace_calls=["myth_yield_body:verif_yield_sig"],
      loops={"myth_uncond_signal_body": [dict(loop_id="0", invariants="g_ner_pushed == 0")]}, loop_counts={"myth_uncond_signal_body": 1},
      safety=[], cbmc=["--no-standard-checks"], fuc=["myth_uncond_signal_body"], timeout=200,
      note="control flow only: loop contract with inferred frame (any number of polls), safety checks off, push accepted with any arguments"),
]
JOBS = list(JOBS) + [
  Job("c08.signal.any_polls", TU, "h_uncond_signal", replace=["myth_queue_push/push_contract"], replace_calls=["myth_yield_body:verif_yield_sig"],
      read_hooks=[("th", "verif_rd_th")], defines=["-DSPIN_ANY=1"],
      loops={"myth_uncond_signal_body": [dict(loop_id="0", assigns="to_wake, U.th, g_arrived",
             invariants="(to_wake == 0 || to_wake == &TH0) && (U.th == 0 || U.th == &TH0) && g_pushed == 0",
             symbol_map="to_wake,myth_uncond_signal_body::1::to_wake")]}, loop_counts={"myth_uncond_signal_body": 1},
      fuc=["myth_uncond_signal_body"], timeout=200,
      note="the data obligations of signal for ANY number of polls: loop contract on the spin, frame = the local it spins on and the word (termination of the spin is liveness, not proved)"),
]
# the public API functions are one-line forwarders to the bodies under contract: checked mechanically (DESIGN §3.5b)
from units.common_forward import forward_job
JOBS = list(JOBS) + [forward_job("c08")]
META = {
 "level": "proof",
 "level_text": "Call-protocol contracts on the real uncond wait/signal bodies: the waiter becomes visible only from the post-switch callback, the signaller clears the word before publishing exactly the waiter it read, and does not return before the hand-over. The signaller's spin is closed by a loop contract (job c08.signal.any_polls: any number of polls); the bounded jobs are kept as a cross-check.",
 "level_note": "Trusted: cbmc 6.11, context-switch stubs (C03), run queue contracts (C02). 'The waiter does not resume without a signal' relies on the scheduler fact that only run-queue entries are resumed.",
 "trusted_base": ["cbmc 6.11.0 (goto-cc, goto-instrument --dfcc, SAT back end)", "gcc -E of the real headers (rules R1, R2, R4)"],
 "explanation": "uncondition variable: call-protocol contracts",
 "assumptions": [
   "exactly one waiter and one signaller per use (the documented usage)",
   "context switch primitives replaced by control-flow stubs (verif_ctx.h)",
   "the waiter does not resume without a signal: only run-queue entries are resumed (scheduler fact, C02)",
   "the signaller's spin for a late waiter: the data obligations (which thread is handed over, bound to which worker, word cleared first) are proved for any number of polls by job c08.signal.any_polls (loop contract on the spin with the explicit frame {to_wake, u->th}; a local added to the spin is benign-listed there) and cross-checked bounded with the waiter arriving within 3 polls (thorough tier 8); that signal never RETURNS without having handed a waiter over is proved for any number of polls by job c08.signal.no_early_return (loop contract with inferred frame, control flow only: safety checks off and the push accepted with any arguments there); termination of the spin is liveness",
 ],
}
