from vf import Job
TU = "c10_tls.c"
U20 = ["--unwind", "20", "--unwinding-assertions"]
U1030 = ["--unwind", "1030", "--unwinding-assertions"]
# CBMC leaves these UNKNOWN: they sit on the general-allocation path of myth_tls_tree_node_alloc, which is reached only
# when `p + sz` points more than one past the end of the embedded pool (the benign-listed pointer-relation check)
UNK = [r"myth_malloc: assertion ptr", r"myth_tls_tree_node_alloc: (assertion p|pointer relation: invalid integer address)",
       r"real_malloc: arithmetic overflow", r"malloc: max allocation"]
TREE_FUC = ["myth_tls_tree_get", "myth_tls_tree_set", "myth_tls_tree_node_alloc", "myth_tls_tree_node_alloc_node", "myth_tls_tree_node_alloc_leaf"]
SMALL = [("myth_tls_tree_depth = 3,", "myth_tls_tree_depth = 1,", 1)]
U70 = ["--unwind", "70", "--unwinding-assertions"]
HNOTE = "bounded: tree states reachable from a freshly initialised descriptor (arbitrary pool bytes) by at most %d earlier stores; keys, values and the checked key are symbolic; inner loops bounded by constants of the type and fully unwound"
JOBS = [
  Job("c10.tree.get.bounded", TU, "h_get", kind="bounded", cbmc=U70, defines=["-DHIST=2"], fuc=["myth_tls_tree_get", "myth_tls_tree_init"] + TREE_FUC, timeout=600, mem_gb=12, note=HNOTE % 2, unknown_ok=UNK),
  Job("c10.tree.set.bounded", TU, "h_set", kind="bounded", cbmc=U70, defines=["-DHIST=2"], fuc=TREE_FUC, timeout=900, mem_gb=12, note=HNOTE % 2, unknown_ok=UNK),
  Job("c10.tree.set.hist3.bounded", TU, "h_set", kind="bounded", cbmc=U70, defines=["-DHIST=3"], fuc=TREE_FUC, timeout=3000, mem_gb=16, tiers=("thorough",), note=HNOTE % 3, unknown_ok=UNK),
  Job("c10.tree.set_then_walk.bounded", TU, "h_set_then_walk", kind="bounded", cbmc=U70, defines=["-DHIST=2"],
      fuc=["myth_tls_tree_set"], timeout=900, mem_gb=12, unknown_ok=UNK,
      note=HNOTE % 2 + "; the slot is looked up with the numbering of the destructor walk (contract of c11.destructors_rec)"),
  Job("c10.tree.init", TU, "h_init", cbmc=U70, fuc=["myth_tls_tree_init", "myth_tls_tree_get"], timeout=600,
      note="complete: any descriptor contents, any key index"),
  Job("c10.ka.init", TU, "h_ka_init", cbmc=U1030, fuc=["myth_tls_key_allocator_init"], timeout=600,
      note="complete by type bound: the 1023-iteration initialisation loop is fully unwound"),
  Job("c10.ka.alloc.bounded", TU, "h_ka_alloc", kind="bounded", rewrites=SMALL, cbmc=U20 + ["--unwindset", "myth_tls_key_allocator_alloc.0:2"], fuc=["myth_tls_key_allocator_alloc"], timeout=600,
      note="bounded: key table reduced to 64 cells (extraction rewrite myth_tls_tree_depth = 3 -> 1; with the real 1024 cells every query ran out of memory); sequential contract (no interference): one pass of the retry loop"),
  Job("c10.ka.dealloc.bounded", TU, "h_ka_dealloc", kind="bounded", rewrites=SMALL, cbmc=U20 + ["--unwindset", "myth_tls_key_allocator_dealloc.0:2"], fuc=["myth_tls_key_allocator_dealloc"], timeout=600,
      note="bounded: key table reduced to 64 cells (as above); sequential contract: the CAS succeeds at once, the second iteration is infeasible (unwinding assertion)"),
  Job("c10.key_create", TU, "h_key_create", replace=["myth_ensure_init/ensure_init_contract", "myth_tls_key_allocator_alloc/alloc_contract"],
      fuc=["myth_key_create_body"], timeout=300),
  Job("c10.specific", TU, "h_specific", replace=["myth_ensure_init/ensure_init_contract"], cbmc=U20,
      fuc=["myth_setspecific_body", "myth_getspecific_body", "myth_self_body", "myth_get_current_env"], timeout=600),
]
RG = "c10_keyalloc_rg.c"
HOOKS = [("free", "myth_verif_rd"), ("next", "myth_verif_rd"), ("destructor", "myth_verif_rd")]
RGNOTE = ("bounded: at most 2 interfering environment steps (each an arbitrary rebuild of the free list over 4 named cells) per call, "
          "hence at most 3 passes of the CAS retry loop; key table reduced to 64 cells")
JOBS += [
  Job("c10.ka.alloc.rg.bounded", RG, "h_alloc", kind="bounded", rewrites=SMALL, read_hooks=HOOKS,
      replace_calls=["myth_spin_lock_body:verif_poplock_lock", "myth_spin_unlock_body:verif_poplock_unlock"], cbmc=["--unwind", "5", "--unwinding-assertions"],
      fuc=["myth_tls_key_allocator_alloc"], timeout=600, mem_gb=12, note=RGNOTE),
  Job("c10.ka.dealloc.rg.bounded", RG, "h_dealloc", kind="bounded", rewrites=SMALL, read_hooks=HOOKS,
      replace_calls=["myth_spin_lock_body:verif_poplock_lock", "myth_spin_unlock_body:verif_poplock_unlock"], cbmc=["--unwind", "5", "--unwinding-assertions"],
      fuc=["myth_tls_key_allocator_dealloc"], timeout=600, mem_gb=12, note=RGNOTE),
]
# the public API functions are one-line forwarders to the bodies under contract: checked mechanically (DESIGN §3.5b)
from units.common_forward import forward_job
JOBS = list(JOBS) + [forward_job("c10")]
# "a thread that never stored reads NULL": creation resets the tree of the (recycled) record on EVERY creation path;
# the creation job of C01 demands it where the new thread is published or started
import importlib as _il10
JOBS = list(JOBS) + [j for j in _il10.import_module("units.c01").JOBS if j.name in ("c01.create",)]
META = {
 "level": "proof",
 "level_text": "Contracts on the real TLS tree and key allocator bodies, for every key index, every canonical tree shape and arbitrary (unzeroed) pool memory; free-list well-formedness as a local inductive invariant over witness cells. Complete because all loops are bounded by constants of the type and fully unwound.",
 "level_note": "Trusted: cbmc 6.11, gcc -E (rule R1), canonical node placement, malloc model of CBMC for the general allocation path; concurrent ABA on the free list is reported as known finding F7.",
 "trusted_base": ["cbmc 6.11.0 (goto-cc, goto-instrument --dfcc, SAT back end)", "gcc -E preprocessing of the real headers (rule R1)",
                  "induction over the free list from the local invariants I1-I4 (paper step)"],
 "explanation": "myth_tls_tree_get/set/init and the key allocator under contract; abstract view = canonical tree / local free-list invariant.",
 "assumptions": [
   "tree nodes of the pre-state are placed in canonical static pools; node addresses do not influence get/set",
   "real_malloc never fails (the library asserts this itself) and returns fresh memory with arbitrary contents",
   "myth_ensure_init replaced by a contract with empty frame (C15 covers initialisation)",
 ],
}
