from vf import Job
TU = "c10_tls.c"
U20 = ["--unwind", "20", "--unwinding-assertions"]
U1030 = ["--unwind", "1030", "--unwinding-assertions"]
TREE_FUC = ["myth_tls_tree_get", "myth_tls_tree_set", "myth_tls_tree_node_alloc", "myth_tls_tree_node_alloc_node", "myth_tls_tree_node_alloc_leaf"]
U70 = ["--unwind", "70", "--unwinding-assertions"]
HNOTE = "bounded: tree states reachable from a freshly initialised descriptor (arbitrary pool bytes) by at most %d earlier stores; keys, values and the checked key are symbolic; inner loops bounded by constants of the type and fully unwound"
JOBS = [
  Job("c10.tree.get.bounded", TU, "h_get", kind="bounded", cbmc=U70, defines=["-DHIST=2"], fuc=["myth_tls_tree_get", "myth_tls_tree_init"] + TREE_FUC, timeout=600, mem_gb=12, note=HNOTE % 2),
  Job("c10.tree.set.bounded", TU, "h_set", kind="bounded", cbmc=U70, defines=["-DHIST=2"], fuc=TREE_FUC, timeout=900, mem_gb=12, note=HNOTE % 2),
  Job("c10.tree.set.hist3.bounded", TU, "h_set", kind="bounded", cbmc=U70, defines=["-DHIST=3"], fuc=TREE_FUC, timeout=3000, mem_gb=16, tiers=("thorough",), note=HNOTE % 3),
  Job("c10.tree.init", TU, "h_init", cbmc=U70, fuc=["myth_tls_tree_init", "myth_tls_tree_get"], timeout=600,
      note="complete: any descriptor contents, any key index"),
  Job("c10.ka.init", TU, "h_ka_init", cbmc=U1030, fuc=["myth_tls_key_allocator_init"], timeout=600,
      note="complete by type bound: the 1023-iteration initialisation loop is fully unwound"),
  Job("c10.ka.alloc", TU, "h_ka_alloc", cbmc=U20, fuc=["myth_tls_key_allocator_alloc"], timeout=600,
      note="sequential contract (no interference): one pass of the retry loop; the concurrent obligation is c10.ka.alloc.rg"),
  Job("c10.ka.dealloc", TU, "h_ka_dealloc", cbmc=U20, fuc=["myth_tls_key_allocator_dealloc"], timeout=600),
  Job("c10.key_create", TU, "h_key_create", replace=["myth_ensure_init/ensure_init_contract", "myth_tls_key_allocator_alloc/alloc_contract"],
      fuc=["myth_key_create_body"], timeout=300),
  Job("c10.specific", TU, "h_specific", replace=["myth_ensure_init/ensure_init_contract"], cbmc=U20,
      fuc=["myth_setspecific_body", "myth_getspecific_body", "myth_self_body", "myth_get_current_env"], timeout=600),
]
CELL = lambda i: "(%s < 0 ? 0 : &KA.keys[%s])" % (i, i)
RANGE = lambda i: "(-1 <= %s && %s < 1024)" % (i, i)
VIEW_OK = ("(" + RANGE("g_hi") + " && " + RANGE("g_si") + " && " + RANGE("g_mine") + " && 0 <= g_w && g_w < 1024 && " + RANGE("g_ke") +
           " && KA.free == " + CELL("g_hi") + " && (g_hi >= 0 ==> (KA.keys[g_hi].next == " + CELL("g_si") + " && g_si != g_hi && g_hi != g_mine))"
           " && (g_hi < 0 ==> g_si == -1) && (g_si < 0 || g_si != g_mine))")
W_AGREE = "(g_w == g_mine || (KA.keys[g_w].next == g_w_next && KA.keys[g_w].destructor == g_w_d))"
RG_ASSIGNS = "__CPROVER_object_whole(&KA), g_hi, g_si, g_mine, g_w_next, g_w_d, g_pops, g_pushes, g_popped, g_ke"
L_ALLOC = {"myth_tls_key_allocator_alloc": [dict(loop_id="0", assigns=RG_ASSIGNS,
            invariants=VIEW_OK + " && " + W_AGREE + " && g_mine == -1 && g_pops == 0 && g_pushes == 0")]}
L_DEALLOC = {"myth_tls_key_allocator_dealloc": [dict(loop_id="0", assigns=RG_ASSIGNS,
            invariants=VIEW_OK + " && " + W_AGREE + " && g_mine >= 0 && g_mine == key && g_pops == 0 && g_pushes == 0 && f == __CPROVER_loop_entry(f)",
            symbol_map="key,myth_tls_key_allocator_dealloc::key;f,myth_tls_key_allocator_dealloc::1::f")]}
RG = "c10_keyalloc_rg.c"
HOOKS = [("free", "myth_verif_rd"), ("next", "myth_verif_rd"), ("destructor", "myth_verif_rd")]
JOBS += [
  Job("c10.ka.alloc.rg", RG, "h_alloc", loops=L_ALLOC, loop_counts={"myth_tls_key_allocator_alloc": 1},
      replace=["myth_verif_env_step/myth_verif_env_step"], read_hooks=HOOKS,
      fuc=["myth_tls_key_allocator_alloc"], timeout=900, mem_gb=12),
  Job("c10.ka.dealloc.rg", RG, "h_dealloc", loops=L_DEALLOC, loop_counts={"myth_tls_key_allocator_dealloc": 1},
      replace=["myth_verif_env_step/myth_verif_env_step"], read_hooks=HOOKS,
      fuc=["myth_tls_key_allocator_dealloc"], timeout=900, mem_gb=12),
]
META = {
 "level": "proof",
 "level_text": "Contracts on the real TLS tree and key allocator bodies, for every key index, every canonical tree shape and arbitrary (unzeroed) pool memory; free-list well-formedness as a local inductive invariant over witness cells. Complete because all loops are bounded by constants of the type and fully unwound.",
 "level_note": "Trusted: cbmc 6.11, gcc -E (rule R1), canonical node placement, malloc model of CBMC for the general allocation path; concurrent ABA on the free list is reported as known finding F7.",
 "trusted_base": ["cbmc 6.11.0 (goto-cc, goto-instrument --dfcc, SAT back end)", "gcc -E preprocessing of the real headers (rule R1)",
                  "induction over the free list from the local invariants I1-I4 (paper step)"],
 "explanation": "myth_tls_tree_get/set/init and the key allocator under contract; abstract view = canonical tree / local free-list invariant.",
 "assumptions": [
   "tree nodes of the pre-state are placed in canonical static pools; node addresses do not influence get/set",
   "real_malloc never fails (the library asserts this itself) and returns fresh memory with arbitrary contents",
   "myth_ensure_init replaced by a contract with empty frame (C15 covers initialisation)",
 ],
}
