from vf import Job
TU = "c07_joincounter.c"
RG_REPL = ["myth_verif_env_step/myth_verif_env_step", "exit/exit_contract"]
INV = "(g_A >= 0 && (g_A & g_mask) <= g_N - g_tok && (g_seat == 0 || g_seat == 1) && (g_A >> g_b) < (1L << 31) - g_seat)"
L_CALC = {"calc_bits": [dict(loop_id="0", assigns="b",
            invariants="0 <= b && b <= 62 && (b == 0 || x >= (1L << (b - 1)))", decreases="63 - b",
            symbol_map="x,calc_bits::x;b,calc_bits::1::b")]}
L_DEC = {"myth_join_counter_dec_body": [dict(loop_id="0", assigns="JC.state, g_A, g_tok, g_cas_dec, g_replaced",
            invariants="JC.state == g_A && g_seat == 0 && g_tok == 1 && g_cas_dec == 0 && g_cas_ann == 0 && g_wake_calls == 0 && g_block_calls == 0 && " + INV)]}
L_WAIT = {"myth_join_counter_wait_body": [dict(loop_id="0", assigns="JC.state, g_A, g_cas_ann, g_block_calls, g_seat",
            invariants="JC.state == g_A && g_tok == 0 && g_cas_dec == 0 && (g_cas_ann == 0 || g_cas_ann == 1) && g_cas_ann == g_block_calls && (g_seat == 0 || g_seat == 1) && g_cas_ann + g_seat == 1 && (g_cas_ann == 1 ==> (g_A & g_mask) == g_N) && " + INV)]}
JOBS = [
  Job("c07.calc_bits.loop", TU, "h_calc_bits", loops=L_CALC, loop_counts={"calc_bits": 1},
      fuc=["calc_bits"], timeout=120),
  Job("c07.calc_bits.unwind", TU, "h_calc_bits", cbmc=["--unwind", "65", "--unwinding-assertions"],
      fuc=["calc_bits"], timeout=120, native=True, note="complete: the loop is bounded by the width of long (65 unwindings, unwinding assertion on)"),
  Job("c07.init", TU, "h_init", replace=["calc_bits/calc_bits_contract"], fuc=["myth_join_counter_init_body"], timeout=120, native=True),
  Job("c07.dec", TU, "h_dec", loops=L_DEC, loop_counts={"myth_join_counter_dec_body": 1},
      replace=RG_REPL + ["myth_wake_many_from_queue/wake_many_q_contract", "myth_wake_one_from_queue/wake_one_q_contract", "myth_wake_all_from_queue/wake_queued_only_contract",
                         "myth_wake_if_any_from_queue/wake_queued_only_contract2"],
      fuc=["myth_join_counter_dec_body"], timeout=180, read_hooks=[("state", "myth_verif_rd")]),
  Job("c07.wait", TU, "h_wait", loops=L_WAIT, loop_counts={"myth_join_counter_wait_body": 1},
      replace=RG_REPL + ["myth_block_on_queue/block_on_queue_contract"],
      fuc=["myth_join_counter_wait_body"], timeout=180, read_hooks=[("state", "myth_verif_rd")]),
  Job("c07.lemmas", TU, "h_lemmas", fuc=[], timeout=120),
  Job("c07.wake_many.bounded", TU, "h_wake_many", kind="bounded",
      replace_calls=["myth_sleep_queue_deq:verif_deq", "myth_queue_push:verif_push", "myth_yield_body:verif_yield_wm"],
      cbmc=["--unwind", "8", "--unwinding-assertions"], defines=["-DWM_N=4", "-DWM_K=2"],
      fuc=["myth_wake_many_from_queue"], timeout=300, tiers=("quick",),
      note="bounded: n <= 4 sleepers, at most 2 empty polls of the sleep queue (late sleepers)"),
  Job("c07.wake_many.n12.bounded", TU, "h_wake_many", kind="bounded",
      replace_calls=["myth_sleep_queue_deq:verif_deq", "myth_queue_push:verif_push", "myth_yield_body:verif_yield_wm"],
      cbmc=["--unwind", "20", "--unwinding-assertions"], defines=["-DWM_N=12", "-DWM_K=4"],
      fuc=["myth_wake_many_from_queue"], timeout=1800, mem_gb=12, tiers=("thorough",),
      note="bounded: n <= 12 sleepers, at most 4 empty polls of the sleep queue (late sleepers)"),
]
# the public API functions are one-line forwarders to the bodies under contract: checked mechanically (DESIGN §3.5b)
from units.common_forward import forward_job
JOBS = list(JOBS) + [forward_job("c07")]
META = {
 "level": "proof",
 "level_text": "Every obligation generated from the real calc_bits / join_counter_init / dec / wait bodies is discharged for all inputs (N < 2^31) and all interference on the state word; myth_wake_many_from_queue is a bounded stand-in (n <= 4) and is not counted as proved.",
 "level_note": "Trusted: cbmc 6.11, gcc -E, SC interleaving of atomic steps, the scheduler fact that a blocked thread resumes only through the final decrementer's wake-up; liveness not decided.",
 "trusted_base": ["cbmc 6.11.0 (goto-cc, goto-instrument --dfcc, SAT back end)", "gcc -E preprocessing of the real headers",
                  "rely/guarantee rule (paper step from per-function obligations + lemmas to the property)"],
 "explanation": "Contracts on the real calc_bits / join_counter_init / dec / wait bodies; the state word is handled "
                "rely/guarantee style: every own CAS must be a legal decrement or announce, the environment may decrement "
                "and announce arbitrarily between any two of my atomic steps. myth_wake_many_from_queue is a bounded stand-in.",
 "assumptions": [
   "N < 2^31 and fewer than 2^31 simultaneous waiters (state word arithmetic does not overflow)",
   "a thread blocked by myth_block_on_queue is resumed only through the wake-up issued by the final decrementer (scheduler fact, C02/C04)",
   "the N decrements are issued by N entitled callers (token ghost): the excess-decrement abort is then unreachable",
   "sequentially consistent interleaving of atomic steps on the state word; x86-TSO effects not modelled",
   "liveness (a waiter is eventually resumed; CAS retry loops terminate) is not decided",
 ],
}
