from vf import Job
TU = "c11_modular.c"
UNW = ["--unwind", "1030", "--unwinding-assertions"]
JOBS = []
for d in (0, 1, 2, 3):
    JOBS.append(Job("c11.destructors_rec.d%d" % d, TU, "h_destructors_rec", rec=["myth_tls_call_destructors_rec/destructors_rec_contract"],
      defines=["-DDEPTH=%d" % d], cbmc=UNW, fuc=["myth_tls_call_destructors_rec"], timeout=600, mem_gb=8,
      note="inductive: tree level %d, any base; recursive calls replaced by the same contract; inner loops (4 children / 16 entries) fully unwound" % d))
    JOBS.append(Job("c11.destroy_rec.d%d" % d, TU, "h_destroy_rec", rec=["myth_tls_tree_destroy_rec/destroy_rec_contract"],
      replace=["myth_tls_tree_node_free/node_free_contract"],
      defines=["-DDEPTH=%d" % d], cbmc=UNW, fuc=["myth_tls_tree_destroy_rec"], timeout=600, mem_gb=8))
JOBS += [
  Job("c11.node_free.pool", TU, "h_node_free_pool", cbmc=UNW, fuc=["myth_tls_tree_node_free"], timeout=300),
  Job("c11.fini", TU, "h_fini", replace=["myth_tls_call_destructors_rec/destructors_rec_contract", "myth_tls_tree_destroy_rec/destroy_rec_contract"],
      cbmc=UNW, fuc=["myth_tls_tree_fini", "myth_tls_call_destructors", "myth_tls_tree_destroy"], timeout=600, mem_gb=8),
]
# the destructor walk hands the values found in the leaves to the destructors: a leaf that comes out of the allocator
# with stale slots (recycled descriptor) makes it call destructors with values the thread never stored.  Leaf/node
# allocation and the store/load path are checked in the C10 tree jobs, imported here (bounded: counted apart).
from units import c10 as _c10
JOBS = list(JOBS) + [j for j in _c10.JOBS if j.name in ("c10.tree.get.bounded", "c10.tree.set.bounded", "c10.tree.init", "c10.tree.set_then_walk.bounded",
                                                          # which destructor belongs to a key: the key table (a destructor is written into a cell only by its owner)
                                                          "c10.ka.init", "c10.ka.alloc.bounded", "c10.ka.dealloc.bounded", "c10.ka.alloc.rg.bounded", "c10.ka.dealloc.rg.bounded")]
# "on every way a thread ends": return (child-first / parent-first), myth_exit, cancellation -- each reaches the common exit
# path once (C01 jobs), and that path runs the destructor walk exactly once before the stack is released (c12.cleanup)
import importlib as _il
JOBS = list(JOBS) + [j for j in _il.import_module("units.c01").JOBS if j.name in ("c01.create", "c01.entry_point", "c01.exit", "c01.testcancel")]
JOBS = list(JOBS) + [j for j in _il.import_module("units.c12").JOBS if j.name in ("c12.cleanup",)]
# the public API functions are one-line forwarders to the bodies under contract: checked mechanically (DESIGN 3.5b)
from units.common_forward import forward_job
JOBS = list(JOBS) + [forward_job("c11")]
META = {
 "level": "proof",
 "level_text": "Inductive contract proof (--enforce-contract-rec) of the real recursive destructor walk and node release for an arbitrary tree level, any witness key, any destructor table and values; the top-level myth_tls_tree_fini is checked against those contracts. ",
 "level_note": "Trusted: cbmc 6.11 (dfcc contract instrumentation, SAT back end, function-pointer removal); the one-level-down memory description of a tree node; real_free stubbed; destructors do not touch the tree.",
 "trusted_base": ["cbmc 6.11.0 (goto-cc, goto-instrument --dfcc --enforce-contract-rec, SAT back end)", "gcc -E preprocessing of the real headers (rule R1)"],
 "explanation": "myth_tls_call_destructors_rec / myth_tls_tree_destroy_rec under recursive contracts; myth_tls_tree_fini against them.",
 "assumptions": [
   "tree shape: every node has exactly one parent (canonical harness memory); destructors are ordinary functions that do not touch the tree being destroyed",
   "real_free (libc, resolved by myth_real.c) is a stub counting calls for a witness node",
   "flat address space: a node outside the descriptor's embedded pool compares outside the pool bounds (cross-object pointer comparison in myth_tls_tree_node_free is not decidable in CBMC's memory model; node_free is used by contract, its body is proved for pool nodes only)",
   "a destructor call with a NULL value is tolerated (at most once per key); POSIX forbids it, see C16",
   "inner loops are bounded by constants of the type (4 children, 16 entries, 1024 keys) and fully unwound with unwinding assertions",
   "the values the walk finds in a leaf are those the thread stored (fresh leaves are all-NULL): decided by the imported C10 tree jobs, which are bounded stand-ins (tree states reachable by <= 2 earlier stores built by the real code) and not counted as proved",
 ],
}
