from vf import Job
TU = "c08_uncond.c"
L_WAL = {"myth_felock_wait_and_lock_body": [dict(loop_id="0", assigns="FE.status, g_waits, g_hold, g_unlocked", invariants="g_hold == 1")]}
JOBS = [
  Job("c09.wait_and_lock", TU, "h_fe_wait_and_lock", loops=L_WAL, loop_counts={"myth_felock_wait_and_lock_body": 1},
      replace=["myth_mutex_lock_body/fe_lock_contract", "myth_cond_wait/fe_cond_wait_contract",
               "myth_mutex_unlock_body/fe_unlock_contract", "myth_block_on_queue/fe_block_contract"],
      fuc=["myth_felock_wait_and_lock_body"], timeout=200),
  Job("c09.mark_and_signal", TU, "h_fe_mark_and_signal",
      replace=["myth_cond_signal/fe_cond_signal_contract", "myth_mutex_unlock_body/fe_unlock_contract"],
      fuc=["myth_felock_mark_and_signal_body"], timeout=200),
  Job("c09.lock_unlock", TU, "h_fe_lock_unlock", replace=["myth_mutex_lock_body/fe_lock_contract", "myth_mutex_unlock_body/fe_unlock_contract", "myth_cond_wait/fe_never_waits_contract"], cbmc=["--unwind", "3"],
      fuc=["myth_felock_lock_body", "myth_felock_unlock_body", "myth_felock_status_body"], timeout=200),
  Job("c09.init", TU, "h_fe_init", fuc=["myth_felock_init_body", "myth_mutex_init_body", "myth_cond_init_body"], timeout=200),
]
# the public API functions are one-line forwarders to the bodies under contract: checked mechanically (DESIGN §3.5b)
from units.common_forward import forward_job
JOBS = list(JOBS) + [forward_job("c09")]
META = {
 "level": "proof",
 "level_text": "Contracts on the real full/empty-lock bodies over the mutex (C04) and condition-variable (C05) contracts: wait_and_lock returns only with status == s and the lock held (loop contract), mark_and_signal publishes the status under the lock, signals the matching condition, then releases.",
 "level_note": "Trusted: the mutex and condition-variable contracts proved in C04/C05 (myth_cond_wait may change the status arbitrarily while sleeping and returns holding); item conservation over producers/consumers is the usual monitor argument on paper; liveness not decided.",
 "trusted_base": ["cbmc 6.11.0 (goto-cc, goto-instrument --dfcc with loop contracts, SAT back end)", "monitor argument (paper): lock + condition contracts => every produced item is consumed exactly once"],
 "explanation": "full/empty lock over mutex and condition contracts",
 "assumptions": [
   "myth_mutex_lock_body/unlock_body, myth_cond_wait/signal behave as the contracts proved in C04/C05",
   "status arguments are 0 or 1 (the documented domain; other values index outside cond[2])",
   "no participant sleeps forever: liveness, not decided",
 ],
}
