from vf import Job
from units.common_wake import wake_one_jobs, block_jobs, sleepq_jobs, spin_jobs, cond_jobs
JOBS = cond_jobs("c05") + block_jobs("c05") + sleepq_jobs("c05") + spin_jobs("c05")
# the public API functions are one-line forwarders to the bodies under contract: checked mechanically (DESIGN §3.5b)
from units.common_forward import forward_job
JOBS = list(JOBS) + [forward_job("c05")]
META = {
 "level": "proof",
 "level_text": "Contracts on the real cond_wait/signal/broadcast bodies and on the blocking and wake-up procedures they are built from; the ordering mechanisms (context saved -> enqueue -> release the mutex; dequeue -> publish) are preconditions of the callee contracts, so a reordering fails a named obligation. Loops closed by loop contracts.",
 "level_note": "Trusted: cbmc 6.11, context switches replaced by their control-flow meaning (C03), the mutex contract (C04) for the re-acquisition, the run queue (C02); myth_cond_timedwait is unimplemented in the library (assert(0)) and excluded. Liveness not decided.",
 "trusted_base": ["cbmc 6.11.0 (goto-cc, goto-instrument --dfcc, SAT back end)", "gcc -E of the real headers (rules R1, R2, R4)",
                  "two-line lemma (paper): enqueued-before-unlocked + signaler holds the mutex => a signal issued after the wait began finds the waiter queued"],
 "explanation": "condition variables: call-protocol contracts on the real bodies",
 "assumptions": [
   "myth_mutex_lock (public) behaves as the contract proved for myth_mutex_lock_body in C04",
   "context switch primitives replaced by control-flow stubs (verif_ctx.h); the callback runs after the save (asm: C03)",
   "run queue operations replaced by call-protocol contracts (C02)",
   "fewer than 2^31 threads woken by one broadcast (int counter)",
   "myth_cond_timedwait_body is unimplemented() in the library and not covered",
   "liveness (a signalled waiter eventually runs) not decided",
 ],
}
