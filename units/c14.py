from vf import Job
TU = "c14_once.c"
INV = ("((g_A == 0 || g_A == 1 || g_A == 2) && (g_i_elected == 0 || g_i_elected == 1) && (g_env_elected == 0 || g_env_elected == 1) && "
       "(g_A == 1 ? g_i_elected + g_env_elected == 1 : (g_i_elected == 0 && g_env_elected == 0)))")
L_WAIT = {"myth_once_wait_until": [dict(loop_id="0", assigns="s, O.state, g_A, g_env_elected, g_last_read, g_yield_ever",
           invariants="O.state == g_A && " + INV + " && g_i_elected == 0 && s == g_last_read && g_init_calls == 0",
           symbol_map="s,myth_once_wait_until::1::s")]}
REPL = ["myth_verif_env_step/myth_verif_env_step", "myth_yield/yield_contract"]
HOOK = [("state", "myth_verif_rd")]
JOBS = [
  Job("c14.once", TU, "h_once", loops=L_WAIT, loop_counts={"myth_once_wait_until": 1}, replace=REPL, read_hooks=HOOK,
      restrict_fp=["myth_once_body.function_pointer_call.1/verif_init_routine"],
      fuc=["myth_once_body", "myth_once_try_set", "myth_once_wait_until"], timeout=300),
  Job("c14.wait_until", TU, "h_wait_until", loops=L_WAIT, loop_counts={"myth_once_wait_until": 1}, replace=REPL, read_hooks=HOOK,
      fuc=["myth_once_wait_until"], timeout=300),
  Job("c14.lemmas", TU, "h_lemmas", timeout=100),
]
# the public API functions are one-line forwarders to the bodies under contract: checked mechanically (DESIGN §3.5b)
from units.common_forward import forward_job
JOBS = list(JOBS) + [forward_job("c14")]
# pthread_once of the pthread-wrapping build reaches myth_once_body through src/myth_wrap_pthread.c (an anchor of this
# property): the generated forwarding obligations of that wrapper group are part of this check
import importlib as _il
JOBS = list(JOBS) + [j for j in _il.import_module("units.c16").JOBS if j.name == "c16.forward.thread"]
META = {
 "level": "proof",
 "level_text": "Rely/guarantee contracts on the real myth_once_body / try_set / wait_until: the election CAS, the single run of the init routine by the elected caller, and the return only after completion hold under arbitrary interference before every read and CAS; the waiting loop is closed by a loop contract.",
 "level_note": "Trusted: cbmc 6.11, SC interleaving, myth_yield as an environment step; termination of the waiting loop (the elected caller eventually completes) is liveness and not decided.",
 "trusted_base": ["cbmc 6.11.0 (goto-cc, goto-instrument --dfcc with loop contracts, SAT back end)", "gcc -E of the real headers (rules R1, R2, R4)", "rely/guarantee rule (paper step)"],
 "explanation": "once-control word under rely/guarantee contracts",
 "assumptions": [
   "sequentially consistent interleaving of atomic steps on the state word; the completing plain store is the elected caller's last action",
   "the init routine does not itself touch the once-control word",
   "myth_yield (public) = environment step; liveness not decided",
   "pthread_once wrapper forwards to myth_once_body (C16)",
 ],
}
