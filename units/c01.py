from vf import Job
TU = "c01_create.c"
CREATE_REPL = ["myth_ensure_init/ensure_init_contract", "myth_tls_tree_fini/tls_fini_c01_contract", "myth_make_context_empty/make_empty_contract", "myth_make_context_voidcall/make_voidcall_contract",
               "myth_queue_push/push_contract", "myth_entry_point_cleanup/cleanup_contract", "verif_suspend_resume/suspend_resume_contract"]
CREATE_CALLS = ["get_new_myth_thread_struct_desc:verif_new_desc", "get_new_myth_thread_struct_stack:verif_new_stack"]
JOBS = [
  Job("c01.attr_init", TU, "h_attr_init", fuc=["myth_thread_attr_init_body", "myth_globalattr_get_stacksize_body", "myth_globalattr_get_guardsize_body", "myth_globalattr_get_child_first_body"], timeout=200),
  Job("c01.attr_setters", TU, "h_attr_setters", fuc=["myth_thread_attr_setstacksize_body", "myth_thread_attr_setguardsize_body", "myth_thread_attr_setdetachstate_body",
      "myth_thread_attr_setstack_body", "myth_thread_attr_getstacksize_body", "myth_thread_attr_getdetachstate_body"], timeout=200),
  Job("c01.create", TU, "h_create", replace=CREATE_REPL, replace_calls=CREATE_CALLS,
      restrict_fp=["myth_create_1.function_pointer_call.1/verif_user_fn"],
      cbmc=["--unwind", "10", "--unwinding-assertions"],
      fuc=["myth_create_ex_body", "myth_create_1", "init_myth_thread_struct", "myth_tls_tree_init"], timeout=900),
  Job("c01.entry_point", TU, "h_entry_point", replace=["myth_entry_point_cleanup/cleanup_contract", "myth_tls_tree_fini/tls_fini_c01_contract"],
      restrict_fp=["myth_entry_point.function_pointer_call.1/verif_user_fn"], fuc=["myth_entry_point"], timeout=200),
  Job("c01.exit", TU, "h_exit", replace=["myth_entry_point_cleanup/cleanup_contract", "myth_tls_tree_fini/tls_fini_c01_contract"], fuc=["myth_exit_body"], timeout=200),
  Job("c01.testcancel", TU, "h_testcancel", replace=["myth_entry_point_cleanup/cleanup_contract", "myth_tls_tree_fini/tls_fini_c01_contract"], cbmc=["--unwind", "3"],
      fuc=["myth_testcancel_body", "myth_is_canceled"], timeout=200,
      note="the record's spin lock is free in the harness (the real spin lock body runs; its loop does not iterate)"),
  Job("c01.join_1", TU, "h_join_1", replace=["free_myth_thread_struct_desc/free_desc_contract"], fuc=["myth_join_1"], timeout=200),
]
# the finish side and the join side of the same protocol are under contract in unit C12; they carry C01's clauses
# "join returns only after the function has returned ... and yields exactly that value" and are part of this check
import units.c12 as _c12
JOBS += [j for j in _c12.JOBS if j.name in ("c12.entry_point_1", "c12.entry_point_2", "c12.cleanup", "c12.join_1", "c12.join", "c12.tryjoin",
                                             # a thread created with a custom stack size runs on a stack of that size that is released where it was taken
                                             "c12.stack.custom", "c12.stack.custom.alloc", "c12.stack.default")]
# the public API functions are one-line forwarders to the bodies under contract: checked mechanically (DESIGN §3.5b)
from units.common_forward import forward_job
JOBS = list(JOBS) + [forward_job("c01")]
META = {
 "level": "proof",
 "level_text": "Contracts on the real creation path (attribute objects, myth_create_ex_body for NULL/any attribute and NULL/any id, child-first and parent-first, myth_create_1, myth_entry_point, myth_exit_body, myth_join_1): the start function is invoked exactly once with the supplied argument, its value is stored before the thread finishes, a new thread is published only when complete, the parent only after its context is saved. The finish/join protocol is proved in unit C12.",
 "level_note": "Trusted: cbmc 6.11; context-switch control-flow stubs (asm: C03); record/stack allocation by stubs (C12 proves the allocator); run queue by contract (C02); the finish and join side (result read only after FREE_READY2, published before unlock) are C12 jobs c12.cleanup / c12.entry_point_* / c12.join*. Visibility of the child's ordinary memory writes is a memory-model statement: only the order publish-then-unlock / observe-then-read is proved.",
 "trusted_base": ["cbmc 6.11.0 (goto-cc, goto-instrument --dfcc, SAT back end)", "gcc -E of the real headers (rules R1, R2)"],
 "explanation": "creation side + run-once obligations; finish/join side in C12",
 "assumptions": [
   "attribute objects are prepared with the public attribute functions only (custom_data fields stay 0)",
   "myth_make_context_* by contract (who/when); the contexts themselves are C03",
   "record and stack allocation by ledger stubs (C12), run queue by call-protocol contract (C02)",
   "scheduler-level claims ('whichever worker executes it', a blocked joiner is eventually resumed) are liveness/fairness: not decided",
 ],
}
