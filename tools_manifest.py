#!/usr/bin/env python3
"""Regenerates MANIFEST.json from units/*.py (META) + this table; validates manifest and evidence files."""
import json, os, sys, importlib, glob
HERE = os.path.dirname(os.path.abspath(__file__))
sys.path.insert(0, os.path.join(HERE, "lib")); sys.path.insert(0, HERE)

NOT_APPLICABLE = {}      # every listed property has a check now (C19: partly decided, level "other", see DESIGN 4 C19)
PENDING = "check not built yet in this round (see DESIGN.md §9 order of work)"

def main():
    props = [json.loads(l) for l in open(os.path.join(HERE, "properties.jsonl"))]
    checks, na = [], []
    for p in props:
        pid = p["id"]
        if pid in NOT_APPLICABLE:
            na.append({"property_id": pid, "reason": NOT_APPLICABLE[pid]}); continue
        ready = [l.strip() for l in open(os.path.join(HERE, "units", "READY")) if l.strip()]
        if pid not in ready or not os.path.exists(os.path.join(HERE, "units", pid.lower() + ".py")):
            na.append({"property_id": pid, "reason": PENDING}); continue
        u = importlib.import_module("units." + pid.lower())
        m = u.META
        checks.append({
            "property_id": pid,
            "quick_cmd": "./check %s --tier quick" % pid,
            "thorough_cmd": "./check %s --tier thorough" % pid,
            "evidence_file": "evidence/%s.json" % pid,
            "replay_cmd_template": "./check %s --replay {path}" % pid,
            "engine": "cbmc-contracts",
            "level_claimed": {"category": m.get("level", "proof"), "text": m["level_text"], "design_ref": "DESIGN.md §4 " + pid},
            "level_note": m["level_note"],
            "technique": m.get("technique", "contract-based deductive verification: CBMC code contracts (goto-instrument --dfcc) on the real function bodies"),
        })
    man = {
      "version": 1,
      "setup_cmd": "./setup.sh",
      "hooks": {"guard": "MYTH_VERIF", "enable": "-DMYTH_VERIF=1 on the harness preprocessing line only (gcc -E of contracts/*.c including the real sources); no file of /repo tests the guard",
                "baseline_off_cmd": "make -C /repo -j8 && make -C /repo/tests check -j8", "source_commits": [], "add_only": True},
      "engines": [{"name": "cbmc-contracts", "path": "check", "serves_properties": [c["property_id"] for c in checks],
                   "kind_free_text": "gcc -E of harness TU including real /repo sources -> goto-cc -> goto-instrument --dfcc (function + loop contracts) -> cbmc 6.11 (SAT); z3 for asm templates (C03)"}],
      "checks": checks,
      "not_applicable": na,
      "notes": "exit 2 of a check = undecided (tool failure, extraction rule did not fire, timeout); never reported as a violation. selftest.py runs the mutation self-test.",
    }
    json.dump(man, open(os.path.join(HERE, "MANIFEST.json"), "w"), indent=1)
    print("MANIFEST.json: %d checks, %d not_applicable" % (len(checks), len(na)))

if __name__ == "__main__":
    main()
