#!/bin/bash
# run_all.sh [tier]: every claimed property's check, one after the other, against /repo; summary lines in work/run_all.log
cd "$(dirname "$(readlink -f "$0")")"
T=${1:-quick}
mkdir -p work
: > work/run_all.log
for id in $(sort units/READY); do
  s=$(date +%s)
  VERIF_NO_REPLAY=${VERIF_NO_REPLAY:-} ./check $id --tier $T > work/run_all.$id.out 2>&1; rc=$?
  echo "$id rc=$rc $(( $(date +%s) - s ))s $(grep -E "^$id tier=" work/run_all.$id.out | tail -1)" >> work/run_all.log
  grep -E "^(VIOLATION|KNOWN-FINDING|UNDECIDED)" work/run_all.$id.out | cut -c1-300 >> work/run_all.log
done
echo DONE >> work/run_all.log
