#!/bin/bash
# confirm_seed.sh <worktree> <A|B> <dest-id>: re-confirm a seeded change myself in its scratch worktree:
#   tests pass with the change, demo fails with it and passes without.  Writes /verif/seeded/<dest-id>/.
WT=$1; V=$2; ID=$3
set -u
cd $WT || exit 1
git checkout -q -- . 
D=/verif/seeded/$ID; mkdir -p $D
cp out/$V/patch.diff $D/patch.diff; cp out/$V/demo.* $D/ 2>/dev/null; cp out/$V/README.md $D/README.agent.md
LOG=$D/confirm.log; : > $LOG
run_demo() { # prints PASS/FAIL of demo
  if [ -f out/$V/demo.sh ]; then ( cd out/$V && timeout 600 bash ./demo.sh ) >> $LOG 2>&1; echo $?;
  else gcc -O1 out/$V/demo.c -I$WT/include -L$WT/src/.libs -lmyth -lpthread -Wl,-rpath,$WT/src/.libs -o /tmp/demo_$ID >> $LOG 2>&1 && ( timeout 600 /tmp/demo_$ID ) >> $LOG 2>&1; echo $?; rm -f /tmp/demo_$ID; fi; }
echo "== baseline build" >> $LOG
( [ -f Makefile ] || ./configure >/dev/null 2>&1 ; make -j8 >/dev/null 2>>$LOG ) 
echo "== demo WITHOUT change" >> $LOG; R0=$(run_demo)
echo "== apply" >> $LOG; git apply out/$V/patch.diff >> $LOG 2>&1 || { echo "apply failed" >> $LOG; }
make -j8 >/dev/null 2>>$LOG; MK=$?
echo "== tests WITH change" >> $LOG; make -C tests check -j8 > /tmp/chk_$ID.log 2>&1; grep -E "^# (TOTAL|PASS|FAIL|ERROR)" /tmp/chk_$ID.log >> $LOG; FAILS=$(grep -E "^# FAIL:" /tmp/chk_$ID.log | awk '{print $3}'); rm -f /tmp/chk_$ID.log
echo "== demo WITH change" >> $LOG; R1=$(run_demo)
git checkout -q -- . ; make -j8 >/dev/null 2>&1
echo "RESULT id=$ID build_rc=$MK tests_failed=$FAILS demo_without_rc=$R0 demo_with_rc=$R1" | tee -a $LOG
