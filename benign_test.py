#!/usr/bin/env python3
"""benign_test.py [Cnn ...]: false-alarm regression.  Every benign/<Cnn>-<k>.diff is a semantics-preserving edit of the
code a property depends on (written by an independent sub-agent: renames, reordered independent statements, loop-form
changes ...).  It is applied to a scratch copy of /repo; the property's quick check must NOT report a violation:
QUIET (exit 0) is the goal, UNDECIDED (exit 2: the proof could not be re-established, e.g. a loop contract names a
renamed local) is tolerated and listed, ALARM (exit 1) is a defect of the machinery."""
import os, sys, glob, re, subprocess
sys.path.insert(0, os.path.dirname(os.path.abspath(__file__)))
import selftest as st

def main():
    want = [a.upper() for a in sys.argv[1:]]
    ready = set(open(os.path.join(st.HERE, "units", "READY")).read().split())
    res = {"QUIET": 0, "UNDECIDED": 0, "ALARM": 0}
    for d in sorted(glob.glob(os.path.join(st.HERE, "benign", "C*.diff"))):
        pid = os.path.basename(d)[:3]
        if pid not in ready or (want and pid not in want and os.path.basename(d)[:-5] not in sys.argv[1:]):
            continue
        verdict, out = st.run_one(pid, d, "quick")
        v = {"MISSED": "QUIET", "CAUGHT": "ALARM", "UNDECIDED": "UNDECIDED"}.get(verdict, verdict)
        res[v] = res.get(v, 0) + 1
        print("%-9s %s" % (v, os.path.basename(d)), flush=True)
        if v != "QUIET":
            for ln in out.split("\n"):
                if re.match(r"(violation-line|UNDECIDED)", ln):
                    print("    " + ln[:260], flush=True)
    print("benign_test:", res)
    return 1 if res.get("ALARM") else 0

if __name__ == "__main__":
    sys.exit(main())
