/* F2, F3, F4 (C01/C13), run as: ./a.out f2 | f3 | f4      exit 0 = behaves as documented, non-zero/crash = defect
 * F2: myth_thread_attr_init leaves custom_data_size/custom_data uninitialised; myth_create_ex then memcpy's
 *     custom_data_size bytes from custom_data onto the new stack (garbage in an uninitialised local => crash).
 * F3: myth_create_ex(NULL id, ...) dereferences the documented-optional id pointer.
 * F4: a thread created with detach state set in its attribute is never marked detached: its record is never
 *     released (with one worker, records of finished detached threads are not reused). */
#include <stdio.h>
#include <string.h>
#include <stdlib.h>
#include <myth/myth.h>
static void * f(void * a) { return a; }
static myth_thread_t self_of[4]; static int n_self;
static void * g(void * a) { self_of[n_self++] = myth_self(); return a; }
int main(int argc, char ** argv) {
  const char * w = argc > 1 ? argv[1] : "f3";
  if (!strcmp(w, "f2")) {
    myth_thread_attr_t at; myth_thread_t t; void * r = 0;
    memset(&at, 0x5a, sizeof at);                 /* an uninitialised local */
    myth_thread_attr_init(&at);
    myth_create_ex(&t, &at, f, (void *)42); myth_join(t, &r);
    printf("f2: joined, result %ld\n", (long)r); return r == (void *)42 ? 0 : 1;
  }
  if (!strcmp(w, "f3")) {
    myth_create_ex(0, 0, f, 0);                   /* id == NULL is documented */
    printf("f3: created without id\n"); return 0;
  }
  if (!strcmp(w, "f4")) {
    myth_thread_attr_t at; myth_thread_t t; int i;
    myth_thread_attr_init(&at); myth_thread_attr_setdetachstate(&at, 1);
    for (i = 0; i < 3; i++) { myth_create_ex(&t, &at, g, 0); myth_yield(); }   /* child-first: each runs to completion at once */
    /* with one worker a finished detached thread's record must be reused by the next creation */
    int reused = (self_of[0] == self_of[1]) || (self_of[1] == self_of[2]);
    printf("f4: records %p %p %p -> %s\n", (void *)self_of[0], (void *)self_of[1], (void *)self_of[2], reused ? "reused" : "NEVER reused (leak)");
    return reused ? 0 : 1;
  }
  return 2;
}
