#include <pthread.h>
#include <stdio.h>
static pthread_key_t k_null, k_del;
static int null_calls, del_calls, ok_calls;
static void d_null(void *v) { if (!v) null_calls++; else ok_calls++; }
static void d_del(void *v) { (void)v; del_calls++; }
static void *f(void *a) {
  (void)a;
  pthread_setspecific(k_null, (void *)1);   /* leaf exists */
  pthread_setspecific(k_null, 0);           /* value NULL again */
  pthread_setspecific(k_del, (void *)2);
  pthread_key_delete(k_del);                /* deleted before thread exit, value left behind */
  return 0;
}
int main(void) {
  pthread_t t;
  pthread_key_create(&k_null, d_null);
  pthread_key_create(&k_del, d_del);
  pthread_create(&t, 0, f, 0);
  pthread_join(t, 0);
  printf("destructor calls with NULL value: %d (POSIX: 0); calls for deleted key: %d (POSIX: 0)\n", null_calls, del_calls);
  return (null_calls || del_calls) ? 1 : 0;
}
