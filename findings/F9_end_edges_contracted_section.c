/* root task:  section{ create(child: end); wait }  <long work>  end
   argv[2] = collapse_max: 0 -> nothing contracted; 1000000 -> only the (short) section and the child are contracted,
   the (long) root stays materialised; 2^60 -> everything contracted.  */
#define DAG_RECORDER 2
#define dr_get_worker() 0
#define dr_get_max_workers() 1
#include <dag_recorder.h>
#include <stdlib.h>
volatile unsigned long sink;
int main(int argc, char **argv) {
  dr_options o; dr_options_default(&o);
  o.dag_file_prefix = argv[1];
  o.collapse_max = strtoull(argv[2], 0, 10);
  o.gpl_file_yes = 0; o.dag_file_yes = 1; o.stat_file_yes = 1;
  dr_start(&o);
  dr_dag_node * c; dr_dag_node * t;
  t = dr_enter_create_task(&c);
  dr_start_task(c);  dr_end_task();            /* the child, run serially */
  dr_return_from_create_task(t);
  t = dr_enter_wait_tasks(); dr_return_from_wait_tasks(t);
  for (unsigned long i = 0; i < 30000000UL; i++) sink += i;   /* long tail of the root */
  dr_stop();
  dr_dump();
  return 0;
}
