/* a task with one (empty) section: closing the section runs dr_accumulate_stats(section) from the inline header */
#define DAG_RECORDER 2
#define dr_get_worker() 0
#define dr_get_max_workers() 1
#include <dag_recorder.h>
int main(int argc, char **argv) {
  dr_options o; dr_options_default(&o);
  o.dag_file_prefix = "oob"; o.gpl_file_yes = 0;
  dr_start(&o);
  dr_dag_node * t = dr_enter_wait_tasks(); dr_return_from_wait_tasks(t);
  dr_stop();
  return 0;
}
