/* F7 (C10): ABA on the lock-free free list of thread-specific keys (myth_tls_key_allocator_alloc).
 * A creator reads head A and A's successor B, is overtaken by: create (pops A), create (pops B), delete A
 * (pushes A back, now linking to C); its CAS(A -> B) succeeds and puts the LIVE cell B at the head: the next
 * create hands out key B a second time while it is still live (or follows the LIVE marker and crashes).
 * Stress demo: T threads create/delete keys and claim each created key in an ownership table.
 * Build: gcc -O2 F7_key_alloc_aba.c -I/repo/include -L/repo/src/.libs -lmyth -lpthread -Wl,-rpath,/repo/src/.libs
 * Exit 1 + "DUPLICATE LIVE KEY" (or a crash) on the defective tree; exit 0 "PASS" on the repaired one. */
#include <stdio.h>
#include <stdlib.h>
#include <signal.h>
#include <unistd.h>
#include <myth/myth.h>
#define T 12
#define ROUNDS 400000
static volatile int owner[1024];
static volatile int bad;
static void crash(int s) { printf("FAIL: crash (signal %d) inside the key allocator\n", s); fflush(stdout); _exit(1); }
static void * body(void * a) {
  long me = (long)a + 1; long r;
  myth_key_t k[3];
  for (r = 0; r < ROUNDS && !bad; r++) {
    int n = 1 + (r % 3), i;
    for (i = 0; i < n; i++) {
      if (myth_key_create(&k[i], 0) != 0) { k[i] = -1; continue; }
      if (k[i] < 0 || k[i] >= 1024) { printf("FAIL: key %d out of range\n", k[i]); bad = 1; return 0; }
      if (!__sync_bool_compare_and_swap(&owner[k[i]], 0, (int)me)) {
        printf("FAIL: DUPLICATE LIVE KEY %d handed to thread %ld while thread %d still holds it (round %ld)\n", k[i], me, owner[k[i]], r);
        bad = 1; return 0;
      }
    }
    for (i = n - 1; i >= 0; i--) if (k[i] >= 0) { owner[k[i]] = 0; __sync_synchronize(); myth_key_delete(k[i]); }
  }
  return 0;
}
int main(void) {
  myth_thread_t th[T]; long i;
  signal(SIGSEGV, crash); signal(SIGBUS, crash);
  for (i = 0; i < T; i++) th[i] = myth_create(body, (void *)i);
  for (i = 0; i < T; i++) myth_join(th[i], 0);
  printf(bad ? "FAIL\n" : "PASS\n");
  return bad ? 1 : 0;
}
