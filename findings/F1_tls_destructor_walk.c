/* F1 (C11): on the pinned tree a thread that holds a value only under key 16, 20 or 39 exits without its
 * destructor being called (`if (!c) break;` stops at the first absent child; `c_base += stride` uses the parent's
 * stride).  Build: gcc F1_tls_destructor_walk.c -I/repo/include -L/repo/src/.libs -lmyth -lpthread -Wl,-rpath,/repo/src/.libs
 * Prints FAIL lines (exit 1) on the defective tree, PASS (exit 0) on the repaired one. */
#include <stdio.h>
#include <myth/myth.h>
#define NKEYS 48
static myth_key_t keys[NKEYS];
static int calls[NKEYS]; static void * got[NKEYS];
static int which;
static void dtor(void * v) { if (v) { long k = (long)v - 1000; if (k >= 0 && k < NKEYS) { calls[k]++; got[k] = v; } } }
static void * body(void * a) { long k = (long)a; myth_setspecific(keys[k], (void *)(1000 + k)); return 0; }
int main(void) {
  int i, bad = 0;
  for (i = 0; i < NKEYS; i++) myth_key_create(&keys[i], dtor);
  for (i = 0; i < NKEYS; i++) {
    myth_thread_t t = myth_create(body, (void *)(long)i);
    myth_join(t, 0);
    if (calls[i] != 1) { printf("FAIL: thread holding a value under key index %d (key %d): destructor called %d times\n", i, keys[i], calls[i]); bad = 1; }
  }
  printf(bad ? "FAIL\n" : "PASS\n");
  return bad;
}
