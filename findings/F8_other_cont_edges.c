/* one task: work; other; work; other; work; end.  Report with and without contraction. */
#define DAG_RECORDER 2
#define dr_get_worker() 0
#define dr_get_max_workers() 1
#include <dag_recorder.h>
#include <stdlib.h>
int main(int argc, char **argv) {
  dr_options o; dr_options_default(&o);
  o.dag_file_prefix = argv[1];
  o.collapse_max = strtoull(argv[2], 0, 10);     /* 0 = never contract; large = contract single-worker subgraphs */
  o.gpl_file_yes = 0; o.dag_file_yes = 1; o.stat_file_yes = 1;
  dr_start(&o);
  dr_dag_node * t;
  t = dr_enter_other(); dr_return_from_other(t);
  t = dr_enter_other(); dr_return_from_other(t);
  dr_stop();
  dr_dump();
  return 0;
}
